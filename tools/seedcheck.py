#!/usr/bin/env python3
"""Confirm a seeded change and run the property's check against it.

usage: tools/seedcheck.py <PROP> <dir-with-patch.diff-demo.py-notes.md> <seed-name> [--tier quick]

1. in a scratch worktree of /repo HEAD (under /tmp): apply the patch, run the 129 tests (must pass), run demo.py (must exit 1),
   undo, run demo.py (must exit 0); the worktree is removed afterwards.
2. apply the patch to /repo, run ./check <PROP> --no-evidence, undo (git checkout -- .).
3. store everything under /verif/seeded/<PROP>-<seed-name>/ with meta.json (what ran, what was observed).
"""
import json
import os
import shutil
import subprocess
import sys
import time

ROOT = os.path.dirname(os.path.dirname(os.path.abspath(__file__)))


def sh(cmd, cwd=None, timeout=3600):
    # own session: on a timeout the whole process group (the check's worker processes included) is killed; exit code 124 = timed out (inconclusive)
    import signal
    p = subprocess.Popen(cmd, shell=True, cwd=cwd, stdout=subprocess.PIPE, stderr=subprocess.STDOUT, text=True, start_new_session=True)
    try:
        out, _ = p.communicate(timeout=timeout)
        return p.returncode, out
    except subprocess.TimeoutExpired:
        try:
            os.killpg(p.pid, signal.SIGKILL)
        except OSError:
            pass
        out, _ = p.communicate()
        return 124, (out or '') + '\nTIMED OUT after %d s' % timeout


def main():
    prop, src, name = sys.argv[1], sys.argv[2], sys.argv[3]
    tier = 'quick'
    if '--tier' in sys.argv:
        tier = sys.argv[sys.argv.index('--tier') + 1]
    patch = os.path.join(src, 'patch.diff')
    demo = os.path.join(src, 'demo.py')
    meta = {'property': prop, 'seed': name, 'confirmed': False, 'ran': []}
    wt = '/tmp/seedverify-%s-%s-%d' % (prop, name, os.getpid())
    rc, out = sh('git -C /repo worktree add -q --detach %s HEAD' % wt)
    try:
        rc, out = sh('git apply %s' % os.path.abspath(patch), cwd=wt)
        if rc != 0:
            rc, out = sh('git apply --3way %s' % os.path.abspath(patch), cwd=wt)
            meta['ran'].append('git apply --3way (the tree gained fix commits since the change was written)')
        meta['ran'].append('git apply -> %d' % rc)
        if rc != 0:
            meta['error'] = 'patch does not apply: ' + out[-300:]
            return finish(meta, src, prop, name)
        # PYTHONPATH: the package is installed in /venv as an editable install of /repo; without it the tests would import /repo's sources, not the changed ones
        rc, out = sh('PYTHONPATH=%s/src /venv/bin/python -m pytest -q -p no:cacheprovider -x' % wt, cwd=wt)
        tail = out.strip().splitlines()[-1] if out.strip() else ''
        meta['ran'].append('pytest with change -> %d (%s)' % (rc, tail))
        meta['tests_pass_with_change'] = (rc == 0 and ' passed' in tail)
        rc1, out1 = sh('/venv/bin/python %s %s' % (os.path.abspath(demo), wt), cwd=wt, timeout=600)
        meta['ran'].append('demo with change -> %d' % rc1)
        meta['demo_with_change'] = rc1
        meta['demo_output'] = out1[-600:]
        sh('git reset -q --hard HEAD && git clean -fdq src test', cwd=wt)
        rc0, out0 = sh('/venv/bin/python %s %s' % (os.path.abspath(demo), wt), cwd=wt, timeout=600)
        meta['ran'].append('demo without change -> %d' % rc0)
        meta['demo_without_change'] = rc0
        meta['confirmed'] = bool(meta['tests_pass_with_change'] and rc1 != 0 and rc0 == 0)
    finally:
        sh('git -C /repo worktree remove --force %s' % wt)
        shutil.rmtree(wt, ignore_errors=True)
    # run our check against the change (in a second scratch worktree; the check reads it through VERIF_REPO_SRC, /repo stays untouched)
    wt2 = '/tmp/seedrun-%s-%s-%d' % (prop, name, os.getpid())
    sh('git -C /repo worktree add -q --detach %s HEAD' % wt2)
    try:
        rc, out = sh('git apply %s' % os.path.abspath(patch), cwd=wt2)
        if rc != 0:
            rc, out = sh('git apply --3way %s' % os.path.abspath(patch), cwd=wt2)
        t0 = time.time()
        checks = [prop] + [x for x in sys.argv[4:] if x.startswith('C') and len(x) == 3]
        meta['detected_by'] = []
        meta['check_output'] = []
        for cp in checks:
            crc, cout = sh('VERIF_REPO_SRC=%s/src ./check %s --tier %s --no-evidence' % (wt2, cp, tier), cwd=ROOT, timeout=1800)
            meta.setdefault('check_exits', {})[cp] = crc
            lines = [l for l in cout.splitlines() if l.startswith(('VIOLATION', '  obligation', 'INCONCLUSIVE', cp + ' tier'))]
            meta['check_output'] += [l[:400] for l in lines[:8]]
            if crc == 1:
                meta['detected_by'].append(cp)
        meta['check_cmd'] = ' ; '.join('./check %s --tier %s' % (cp, tier) for cp in checks)
        meta['check_exit'] = meta['check_exits'][prop]
        meta['check_wall_s'] = round(time.time() - t0, 1)
        meta['detected'] = bool(meta['detected_by'])
    finally:
        sh('git -C /repo worktree remove --force %s' % wt2)
        shutil.rmtree(wt2, ignore_errors=True)
    return finish(meta, src, prop, name)


def finish(meta, src, prop, name):
    dst = os.path.join(ROOT, 'seeded', '%s-%s' % (prop, name))
    keep = meta.get('confirmed')
    if keep:
        os.makedirs(dst, exist_ok=True)
        for f in ('patch.diff', 'demo.py', 'notes.md'):
            if os.path.exists(os.path.join(src, f)):
                shutil.copy(os.path.join(src, f), os.path.join(dst, f))
        notes = open(os.path.join(src, 'notes.md')).read() if os.path.exists(os.path.join(src, 'notes.md')) else ''
        meta['needs_to_manifest'] = notes[:1200]
        with open(os.path.join(dst, 'meta.json'), 'w') as f:
            json.dump(meta, f, indent=1)
    print(json.dumps({k: meta.get(k) for k in ('property', 'seed', 'confirmed', 'tests_pass_with_change', 'demo_with_change', 'demo_without_change', 'check_exit',
                                               'detected', 'detected_by', 'check_wall_s', 'error')}))
    for l in meta.get('check_output', [])[:4]:
        print('   ', l[:300])
    return 0


if __name__ == '__main__':
    sys.exit(main())
