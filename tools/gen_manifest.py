#!/usr/bin/env python3
"""Regenerates /verif/MANIFEST.json from the registry below (run after adding/removing a claimed property)."""
import json
import os
import sys

ROOT = os.path.dirname(os.path.dirname(os.path.abspath(__file__)))
sys.path.insert(0, ROOT)
from vf.registry import CLAIMED, NOT_APPLICABLE  # noqa: E402

ALL = ['C%02d' % i for i in range(1, 20)]

m = {
    'version': 1,
    'setup_cmd': './setup.sh',
    'hooks': {
        'guard': 'SSH_AUDIT_VERIF',
        'enable': 'no source hooks: checks import /repo/src from the working tree; all interposition is done on an AST-instrumented '
                  'copy built in memory at check time and by rebinding names in that copy\'s module globals',
        'baseline_off_cmd': 'cd /repo && /venv/bin/python -m pytest -ra -q -p no:cacheprovider --timeout=900 --continue-on-collection-errors',
        'source_commits': [],
        'add_only': True,
    },
    'engines': [
        {'name': 'ZX', 'path': 'zx/', 'serves_properties': sorted(CLAIMED),
         'kind_free_text': 'own symbolic executor: the repo\'s real Python source is AST-instrumented at check time and run by the native '
                           'interpreter on z3-backed proxies (ints as bit-vectors with overflow guards, bytes/str with concrete length and '
                           'symbolic elements); every branch is decided by z3, all feasible paths explored by DFS with replay; each path is '
                           'cross-validated against the pristine code'},
        {'name': 'P2Z', 'path': 'vf/p2z.py', 'serves_properties': [p for p in sorted(CLAIMED) if 'P2Z' in CLAIMED[p].get('engines', '')],
         'kind_free_text': 'AST -> SMT-LIB translation of loop-free integer statements of the current source; unbounded Int claims; z3 + cvc5'},
    ],
    'checks': [],
    'not_applicable': [],
    'notes': 'All checks: ./check <ID> [--tier quick|thorough]; exit 0 held / 1 VIOLATION (replayed on pristine code) / 2 inconclusive or harness error. '
             'Known findings: known_findings.json. Design: DESIGN.md.',
}
for p in ALL:
    if p in CLAIMED:
        c = CLAIMED[p]
        m['checks'].append({
            'property_id': p,
            'quick_cmd': './check %s --tier quick' % p,
            'thorough_cmd': './check %s --tier thorough' % p,
            'evidence_file': 'evidence/%s.json' % p,
            'replay_cmd_template': './check %s --replay {path}' % p,
            'engine': c.get('engines', 'ZX'),
            'level_claimed': {'category': 'model_checking', 'text': c['text'], 'design_ref': c.get('design_ref', 'DESIGN.md section 4, ' + p)},
            'level_note': c['note'],
            'technique': c['technique'],
        })
    else:
        m['not_applicable'].append({'property_id': p, 'reason': NOT_APPLICABLE.get(p, 'check not built yet in this session (see DESIGN.md)')})

with open(os.path.join(ROOT, 'MANIFEST.json'), 'w') as f:
    json.dump(m, f, indent=1)
print('MANIFEST.json written: %d claimed, %d not applicable' % (len(m['checks']), len(m['not_applicable'])))
