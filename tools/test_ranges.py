"""Self-test of zx/ranges.py (the context-free interval pre-check of branch conditions): random bit-vector conditions, every verdict the pre-check gives is
confirmed by z3 (a True must be valid, a False must be unsatisfiable).  Run: .venv/bin/python tools/test_ranges.py"""
import random
import sys
import os
sys.path.insert(0, os.path.dirname(os.path.dirname(os.path.abspath(__file__))))
import z3
from zx import ranges

random.seed(int(sys.argv[1]) if len(sys.argv) > 1 else 11)
W = 6
vs = [z3.BitVec('v%d' % i, W) for i in range(2)]


def term(d):
    if d == 0 or random.random() < 0.2:
        return random.choice(vs + [z3.BitVecVal(random.randrange(-8, 20), W)])
    op = random.choice(['add', 'sub', 'mul', 'ite', 'srem', 'urem', 'smod', 'sdiv', 'udiv', 'cz', 'ext', 'band', 'zext', 'sext', 'pyfloor'])
    a, b = term(d - 1), term(d - 1)
    k = z3.BitVecVal(random.randrange(1, 12), W)
    if op == 'add': return a + b
    if op == 'sub': return a - b
    if op == 'mul': return a * z3.BitVecVal(random.randrange(-3, 4), W)
    if op == 'ite': return z3.If(term(d - 1) < term(d - 1), a, b)
    if op == 'srem': return z3.SRem(a, k)
    if op == 'urem': return z3.URem(a, k)
    if op == 'smod': return a % k
    if op == 'sdiv': return a / k
    if op == 'udiv': return z3.UDiv(a, k)
    if op == 'cz': return z3.Extract(W - 1, 0, z3.Concat(z3.BitVecVal(0, 4), z3.Extract(W - 3, 0, a)) + z3.BitVecVal(random.randrange(0, 5), W + 2))
    if op == 'ext': return z3.Concat(z3.BitVecVal(0, 2), z3.Extract(W - 3, 0, a))
    if op == 'band': return a & b
    if op == 'zext': return z3.Extract(W - 1, 0, z3.ZeroExt(3, a))
    if op == 'sext': return z3.Extract(W - 1, 0, z3.SignExt(3, a) + z3.BitVecVal(1, W + 3))
    r = z3.SRem(a, k)
    return z3.If(z3.And(r != 0, r < 0), r + k, r)


def cond():
    a, b = term(3), term(2)
    op = random.choice(['sle', 'slt', 'sge', 'sgt', 'ule', 'ult', 'uge', 'ugt', 'eq', 'bit'])
    if op == 'bit':
        return z3.Extract(4, 4, a) == z3.BitVecVal(random.randrange(2), 1)
    return {'sle': a <= b, 'slt': a < b, 'sge': a >= b, 'sgt': a > b, 'ule': z3.ULE(a, b), 'ult': z3.ULT(a, b), 'uge': z3.UGE(a, b), 'ugt': z3.UGT(a, b), 'eq': a == b}[op]


dec = bad = 0
for i in range(6000):
    c = cond()
    rr = random.random()
    if rr < 0.2: c = z3.And(c, z3.Not(cond()))
    elif rr < 0.4: c = z3.Or(c, cond())
    elif rr < 0.5: c = z3.If(cond(), c, cond())
    for form in (c, z3.simplify(c)):
        r = ranges.truth(form)
        if r is None:
            continue
        dec += 1
        s = z3.Solver()
        s.add(form if r is False else z3.Not(form))
        if s.check() != z3.unsat:
            bad += 1
            print('UNSOUND', r, form.sexpr()[:400])
print('decided', dec, 'unsound', bad)
sys.exit(1 if bad else 0)
