"""Interval pre-check for branch conditions.

A sound, context-free abstract interpretation of a z3 Bool term over bit-vector terms: every bit-vector subterm is mapped to an interval of its SIGNED (and of its
UNSIGNED) value that holds for every assignment; a comparison whose intervals do not overlap is decided without consulting the solver.  Anything the analysis
does not understand yields 'unknown' (None) and the solver decides as before - the pre-check can only save queries, never change a verdict.  Typical customer:
the characters of a rendered decimal number ('%u' % symbolic) tested for being printable, under a path condition with wide integers."""
import z3

_K = z3


def _width(e):
    return e.size()


def _signed_(e, depth=0):
    """(lo, hi) of the signed value of bit-vector term e, or None"""
    if depth > 40:
        return None
    w = _width(e)
    smin, smax = -(1 << (w - 1)), (1 << (w - 1)) - 1
    if z3.is_bv_value(e):
        v = e.as_signed_long()
        return (v, v)
    k = e.decl().kind()
    ch = e.children()
    r = None
    if k == z3.Z3_OP_BADD or k == z3.Z3_OP_BSUB:
        lo = hi = None
        for i, c in enumerate(ch):
            iv = _signed(c, depth + 1)
            if iv is None:
                return _from_unsigned(e, depth)
            if i == 0:
                lo, hi = iv
            elif k == z3.Z3_OP_BADD:
                lo, hi = lo + iv[0], hi + iv[1]
            else:
                lo, hi = lo - iv[1], hi - iv[0]
        r = (lo, hi)
    elif k == z3.Z3_OP_BMUL and len(ch) == 2:
        a, b = _signed(ch[0], depth + 1), _signed(ch[1], depth + 1)
        if a is not None and b is not None:
            ps = [a[0] * b[0], a[0] * b[1], a[1] * b[0], a[1] * b[1]]
            r = (min(ps), max(ps))
    elif k == z3.Z3_OP_ITE:
        t = _truth(ch[0], depth + 1)
        if t is not None:
            r = _signed(ch[1] if t else ch[2], depth + 1)
        else:
            a, b = _signed(ch[1], depth + 1), _signed(ch[2], depth + 1)
            if a is not None and b is not None:
                r = (min(a[0], b[0]), max(a[1], b[1]))
    elif k in (z3.Z3_OP_BSREM, z3.Z3_OP_BSREM_I) and z3.is_bv_value(ch[1]):
        d = abs(ch[1].as_signed_long())
        if d > 0:
            a = _signed(ch[0], depth + 1)
            if a is not None and a[0] >= 0:
                r = (0, min(d - 1, a[1]))
            elif a is not None and a[1] <= 0:
                r = (-(d - 1), 0)
            else:
                r = (-(d - 1), d - 1)
    elif k in (z3.Z3_OP_BSMOD, z3.Z3_OP_BSMOD_I) and z3.is_bv_value(ch[1]):
        d = ch[1].as_signed_long()
        if d > 0:
            r = (0, d - 1)
    elif k in (z3.Z3_OP_BSDIV, z3.Z3_OP_BSDIV_I) and z3.is_bv_value(ch[1]):
        d = ch[1].as_signed_long()
        a = _signed(ch[0], depth + 1)
        if d > 0 and a is not None:
            # truncating division is monotone in the dividend for a positive divisor
            q = lambda x: -((-x) // d) if x < 0 else x // d
            r = (q(a[0]), q(a[1]))
    elif k == z3.Z3_OP_SIGN_EXT:
        r = _signed(ch[0], depth + 1)
    elif k == z3.Z3_OP_EXTRACT and e.params()[1] == 0:
        # the low n bits of a value that fits n bits (signed) are that value
        a = _signed(ch[0], depth + 1)
        if a is not None and a[0] >= smin and a[1] <= smax:
            r = a
    if r is None:
        return _from_unsigned(e, depth)
    if r[0] < smin or r[1] > smax:
        return None           # the operation may wrap: no claim
    return r


def _from_unsigned(e, depth):
    u = _unsigned(e, depth + 1, via_signed=False)
    w = _width(e)
    if u is not None and u[1] <= (1 << (w - 1)) - 1:
        return u
    return None


def _unsigned_(e, depth=0, via_signed=True):
    """(lo, hi) of the unsigned value of bit-vector term e (never None: the width bounds it)"""
    w = _width(e)
    full = (0, (1 << w) - 1)
    if depth > 40:
        return full
    if z3.is_bv_value(e):
        v = e.as_long()
        return (v, v)
    k = e.decl().kind()
    ch = e.children()
    if k == z3.Z3_OP_CONCAT:
        # leading zero constants: zero extension of the rest
        rest = list(ch)
        while rest and z3.is_bv_value(rest[0]) and rest[0].as_long() == 0:
            rest.pop(0)
        if len(rest) == 1:
            return _unsigned(rest[0], depth + 1)
        if not rest:
            return (0, 0)
        bits = sum(c.size() for c in rest)
        return (0, (1 << bits) - 1)
    if k == z3.Z3_OP_ZERO_EXT:
        return _unsigned(ch[0], depth + 1)
    if k in (z3.Z3_OP_BUREM, z3.Z3_OP_BUREM_I) and z3.is_bv_value(ch[1]) and ch[1].as_long() > 0:
        return (0, min(ch[1].as_long() - 1, _unsigned(ch[0], depth + 1)[1]))
    if k in (z3.Z3_OP_BUDIV, z3.Z3_OP_BUDIV_I) and z3.is_bv_value(ch[1]) and ch[1].as_long() > 0:
        a = _unsigned(ch[0], depth + 1)
        return (a[0] // ch[1].as_long(), a[1] // ch[1].as_long())
    if k == z3.Z3_OP_ITE:
        t = _truth(ch[0], depth + 1)
        if t is not None:
            return _unsigned(ch[1] if t else ch[2], depth + 1)
        a, b = _unsigned(ch[1], depth + 1), _unsigned(ch[2], depth + 1)
        return (min(a[0], b[0]), max(a[1], b[1]))
    if k == z3.Z3_OP_BAND:
        hi = full[1]
        for c in ch:
            hi = min(hi, _unsigned(c, depth + 1)[1])
        return (0, hi)
    if via_signed:
        s = _signed(e, depth + 1)
        if s is not None and s[0] >= 0:
            return s
    return full


def _truth_(c, depth=0):
    """True / False when the Bool term c has that value under EVERY assignment (as far as the interval analysis can tell), else None"""
    if depth > 40 or not z3.is_bool(c):
        return None
    if z3.is_true(c):
        return True
    if z3.is_false(c):
        return False
    if not z3.is_app(c):
        return None
    k = c.decl().kind()
    ch = c.children()
    if k == z3.Z3_OP_NOT:
        r = _truth(ch[0], depth + 1)
        return None if r is None else (not r)
    if k == z3.Z3_OP_AND:
        rs = [_truth(x, depth + 1) for x in ch]
        if any(r is False for r in rs):
            return False
        return True if all(r is True for r in rs) else None
    if k == z3.Z3_OP_OR:
        rs = [_truth(x, depth + 1) for x in ch]
        if any(r is True for r in rs):
            return True
        return False if all(r is False for r in rs) else None
    if k == z3.Z3_OP_ITE:
        r = _truth(ch[0], depth + 1)
        if r is not None:
            return _truth(ch[1] if r else ch[2], depth + 1)
        a, b = _truth(ch[1], depth + 1), _truth(ch[2], depth + 1)
        return a if (a is not None and a == b) else None
    if len(ch) != 2 or not z3.is_bv(ch[0]) or not z3.is_bv(ch[1]):
        return None
    if k == z3.Z3_OP_EQ and ch[0].size() == 1:
        # one bit of a term against a constant bit: a high bit above the term's largest value is 0
        x, y = (ch[0], ch[1]) if z3.is_bv_value(ch[1]) else (ch[1], ch[0])
        if z3.is_bv_value(y) and z3.is_app(x) and x.decl().kind() == z3.Z3_OP_EXTRACT and x.params()[0] == x.params()[1]:
            i = x.params()[0]
            u = _unsigned(x.children()[0], depth + 1)
            if u[1] < (1 << i):
                return y.as_long() == 0
        return None
    signed = {z3.Z3_OP_SLEQ: 'le', z3.Z3_OP_SLT: 'lt', z3.Z3_OP_SGEQ: 'ge', z3.Z3_OP_SGT: 'gt'}
    unsigned = {z3.Z3_OP_ULEQ: 'le', z3.Z3_OP_ULT: 'lt', z3.Z3_OP_UGEQ: 'ge', z3.Z3_OP_UGT: 'gt'}
    if k in signed:
        a, b, op = _signed(ch[0]), _signed(ch[1]), signed[k]
    elif k in unsigned:
        a, b, op = _unsigned(ch[0]), _unsigned(ch[1]), unsigned[k]
    elif k == z3.Z3_OP_EQ:
        a, b = _signed(ch[0]), _signed(ch[1])
        if a is None or b is None:
            a, b = _unsigned(ch[0]), _unsigned(ch[1])
        if a[1] < b[0] or b[1] < a[0]:
            return False
        if a[0] == a[1] == b[0] == b[1]:
            return True
        return None
    else:
        return None
    if a is None or b is None:
        return None
    if op in ('ge', 'gt'):
        a, b = b, a
        op = 'le' if op == 'ge' else 'lt'
    if op == 'le':
        if a[1] <= b[0]:
            return True
        if a[0] > b[1]:
            return False
    else:
        if a[1] < b[0]:
            return True
        if a[0] >= b[1]:
            return False
    return None


_CS, _CU, _CT = {}, {}, {}
_MISS = object()


def _signed(e, depth=0):
    k = e.get_id()
    r = _CS.get(k, _MISS)
    if r is _MISS:
        r = _CS[k] = _signed_(e, depth)
    return r


def _unsigned(e, depth=0, via_signed=True):
    k = (e.get_id(), via_signed)
    r = _CU.get(k, _MISS)
    if r is _MISS:
        r = _CU[k] = _unsigned_(e, depth, via_signed)
    return r


def _truth(c, depth=0):
    k = c.get_id()
    r = _CT.get(k, _MISS)
    if r is _MISS:
        r = _CT[k] = _truth_(c, depth)
    return r


def truth(c):
    """entry point: caches are per call (term ids are only stable while the terms are alive)"""
    _CS.clear()
    _CU.clear()
    _CT.clear()
    try:
        return _truth(c, 0)
    finally:
        _CS.clear()
        _CU.clear()
        _CT.clear()
