"""AST instrumentation + loader: builds an instrumented copy of the repo's modules from the
CURRENT source tree on every run (nothing cached), next to the pristine modules.

Rewrites (semantics-preserving for concrete values):
  obj.m(a..)        -> _zx_cm_(obj, 'm', a..)      method calls dispatch to proxy models when a proxy is involved
  a in b / not in   -> _zx_in_(a, b)               dict/set membership of a proxy = linear scan with ==
  o[i] (load)       -> _zx_gi_(o, i)               dict lookup by proxy key; slicing with symbolic bounds
  a % b             -> _zx_mod_(a, b)              printf-style formatting with proxy arguments
  annotations are dropped.
Builtins (int, str, ord, len, ...) and library modules (struct, io, binascii, re) are rebound in the
instrumented module's globals to the shims in zx.shims / zx.rex."""
import ast
import importlib
import importlib.abc
import importlib.util
import os
import sys
import types

from . import shims, rex
from .core import ZXError, SInt, SBool, is_sym, active, cur, s_and
from .seq import SStr, SBytes, _slice_bounds, _dec, _conj, _eq, to_els, mkstr, mkbytes

PKG = 'ssh_audit'


MODELLED = ('re', 'struct', 'io', 'binascii')


class _Tx(ast.NodeTransformer):
    def __init__(self):
        self.cls = []

    def _mangle(self, attr):
        if self.cls and attr.startswith('__') and not attr.endswith('__'):
            return '_' + self.cls[-1].lstrip('_') + attr
        return attr

    def visit_Import(self, node):
        keep = [a for a in node.names if not (a.name in MODELLED and a.asname in (None, a.name))]
        if len(keep) == len(node.names):
            return node
        if not keep:
            return ast.copy_location(ast.Pass(), node)
        node.names = keep
        return node

    def visit_ClassDef(self, node):
        self.cls.append(node.name)
        self.generic_visit(node)
        self.cls.pop()
        return node

    def visit_FunctionDef(self, node):
        node.returns = None
        for a in node.args.posonlyargs + node.args.args + node.args.kwonlyargs:
            a.annotation = None
        if node.args.vararg:
            node.args.vararg.annotation = None
        if node.args.kwarg:
            node.args.kwarg.annotation = None
        self.generic_visit(node)
        return node

    visit_AsyncFunctionDef = visit_FunctionDef

    def visit_AnnAssign(self, node):
        self.generic_visit(node)
        if node.value is None:
            if self.cls and isinstance(node.target, ast.Name):
                return ast.copy_location(ast.Pass(), node)
            return ast.copy_location(ast.Pass(), node)
        return ast.copy_location(ast.Assign(targets=[node.target], value=node.value), node)

    def visit_Call(self, node):
        self.generic_visit(node)
        f = node.func
        if isinstance(f, ast.Attribute) and isinstance(f.ctx, ast.Load):
            if any(isinstance(a, ast.Starred) for a in node.args) or any(k.arg is None for k in node.keywords):
                pass  # still fine: forwarded as-is
            new = ast.Call(func=ast.Name(id='_zx_cm_', ctx=ast.Load()),
                           args=[f.value, ast.Constant(self._mangle(f.attr))] + node.args,
                           keywords=node.keywords)
            return ast.copy_location(new, node)
        return node

    def visit_Compare(self, node):
        self.generic_visit(node)
        if len(node.ops) == 1 and isinstance(node.ops[0], (ast.In, ast.NotIn)):
            call = ast.Call(func=ast.Name(id='_zx_in_', ctx=ast.Load()), args=[node.left, node.comparators[0]], keywords=[])
            if isinstance(node.ops[0], ast.NotIn):
                call = ast.Call(func=ast.Name(id='_zx_not_', ctx=ast.Load()), args=[call], keywords=[])
            return ast.copy_location(call, node)
        return node

    def visit_Subscript(self, node):
        self.generic_visit(node)
        if isinstance(node.ctx, ast.Load):
            sl = node.slice
            if isinstance(sl, ast.Slice):
                none = ast.Constant(None)
                sl = ast.Call(func=ast.Name(id='slice', ctx=ast.Load()),
                              args=[sl.lower or none, sl.upper or none, sl.step or none], keywords=[])
            elif isinstance(sl, ast.Tuple) and any(isinstance(e, ast.Slice) for e in sl.elts):
                return node
            new = ast.Call(func=ast.Name(id='_zx_gi_', ctx=ast.Load()), args=[node.value, sl], keywords=[])
            return ast.copy_location(new, node)
        return node

    @staticmethod
    def _simple(n):
        return isinstance(n, (ast.Name, ast.Constant)) or (isinstance(n, ast.Attribute) and _Tx._simple(n.value)) or \
            (isinstance(n, ast.Subscript) and _Tx._simple(n.value) and not isinstance(n.slice, ast.Slice) and _Tx._simple(n.slice)) or \
            (isinstance(n, ast.Call) and isinstance(n.func, ast.Name) and n.func.id in ('_zx_gi_',) and all(_Tx._simple(a) for a in n.args))

    def visit_Assign(self, node):
        if len(node.targets) == 1 and isinstance(node.targets[0], ast.Subscript) and not isinstance(node.targets[0].slice, ast.Slice):
            t = node.targets[0]
            obj, idx, val = self.visit(t.value), self.visit(t.slice), self.visit(node.value)
            call = ast.Call(func=ast.Name(id='_zx_si_', ctx=ast.Load()), args=[obj, idx, val], keywords=[])
            return ast.copy_location(ast.Expr(value=call), node)
        self.generic_visit(node)
        return node

    def visit_AugAssign(self, node):
        t = node.target
        if isinstance(t, ast.Subscript) and not isinstance(t.slice, ast.Slice) and self._simple(t.value) and self._simple(t.slice):
            import copy as _copy
            obj, idx = self.visit(_copy.deepcopy(t.value)), self.visit(_copy.deepcopy(t.slice))
            for n in ast.walk(obj):
                if hasattr(n, 'ctx'):
                    n.ctx = ast.Load()
            for n in ast.walk(idx):
                if hasattr(n, 'ctx'):
                    n.ctx = ast.Load()
            cur_ = ast.Call(func=ast.Name(id='_zx_gi_', ctx=ast.Load()), args=[_copy.deepcopy(obj), _copy.deepcopy(idx)], keywords=[])
            newv = self.visit_BinOp(ast.BinOp(left=cur_, op=node.op, right=self.visit(node.value))) if isinstance(node.op, ast.Mod) else \
                ast.BinOp(left=cur_, op=node.op, right=self.visit(node.value))
            call = ast.Call(func=ast.Name(id='_zx_si_', ctx=ast.Load()), args=[obj, idx, newv], keywords=[])
            return ast.copy_location(ast.Expr(value=call), node)
        self.generic_visit(node)
        return node

    def visit_Delete(self, node):
        if len(node.targets) == 1 and isinstance(node.targets[0], ast.Subscript) and not isinstance(node.targets[0].slice, ast.Slice):
            t = node.targets[0]
            call = ast.Call(func=ast.Name(id='_zx_di_', ctx=ast.Load()), args=[self.visit(t.value), self.visit(t.slice)], keywords=[])
            return ast.copy_location(ast.Expr(value=call), node)
        self.generic_visit(node)
        return node

    @staticmethod
    def _wrap_iter(e):
        return ast.copy_location(ast.Call(func=ast.Name(id='_zx_it_', ctx=ast.Load()), args=[e], keywords=[]), e)

    def visit_For(self, node):
        self.generic_visit(node)
        node.iter = self._wrap_iter(node.iter)
        return node

    def visit_comprehension(self, node):
        self.generic_visit(node)
        node.iter = self._wrap_iter(node.iter)
        return node

    def visit_SetComp(self, node):
        self.generic_visit(node)
        gen = ast.GeneratorExp(elt=node.elt, generators=node.generators)
        return ast.copy_location(ast.Call(func=ast.Name(id='_zx_setcomp_', ctx=ast.Load()), args=[gen], keywords=[]), node)

    def visit_DictComp(self, node):
        self.generic_visit(node)
        gen = ast.GeneratorExp(elt=ast.Tuple(elts=[node.key, node.value], ctx=ast.Load()), generators=node.generators)
        return ast.copy_location(ast.Call(func=ast.Name(id='_zx_dictcomp_', ctx=ast.Load()), args=[gen], keywords=[]), node)

    def visit_BinOp(self, node):
        self.generic_visit(node)
        if isinstance(node.op, ast.Mod):
            new = ast.Call(func=ast.Name(id='_zx_mod_', ctx=ast.Load()), args=[node.left, node.right], keywords=[])
            return ast.copy_location(new, node)
        return node


# ------------------------------------------------------------------ runtime helpers
_STR_ALWAYS = ('format', 'join')


def zx_cm(obj, name, *a, **k):
    t = type(obj)
    if t is str:
        if active():
            if name == 'format':
                return shims.zx_format(obj, a, k)
            if name == 'join':
                return shims.zx_join(obj, *a)
            if a and any(type(x) in (SStr, SInt, SBool) for x in a):
                return getattr(SStr([ord(c) for c in obj]), name)(*a, **k)
    elif t is bytes:
        if active():
            if name == 'join':
                return shims.zx_join(obj, *a)
            if a and any(type(x) in (SBytes, SInt, SBool) for x in a):
                return getattr(SBytes(list(obj)), name)(*a, **k)
    elif t is dict:
        if a and (_symkey(a[0]) or (_tainted(obj) and name in ('get', 'pop', 'setdefault'))):
            if name == 'get':
                for kk in obj:
                    if _dec_eq(kk, a[0]):
                        HASH_OK[0] = True
                        try:
                            return dict.__getitem__(obj, kk)
                        finally:
                            HASH_OK[0] = False
                return a[1] if len(a) > 1 else None
            if name == 'setdefault':
                for kk in obj:
                    if _dec_eq(kk, a[0]):
                        return zx_gi(obj, kk)
                zx_si(obj, a[0], a[1] if len(a) > 1 else None)
                return a[1] if len(a) > 1 else None
            if name == 'pop':
                for kk in list(obj):
                    if _dec_eq(kk, a[0]):
                        v = zx_gi(obj, kk)
                        zx_di(obj, kk)
                        return v
                if len(a) > 1:
                    return a[1]
                raise KeyError(a[0])
            raise ZXError('dict.%s with symbolic key' % name)
    elif t is list:
        if name == 'remove' and a and is_sym(a[0]):
            for i, x in enumerate(obj):
                if _dec_eq(x, a[0]):
                    del obj[i]
                    return None
            raise ValueError('list.remove(x): x not in list')
    elif t is set:
        if a and (_symkey(a[0]) or _tainted(obj)) and name in ('add', 'discard', 'remove'):
            hit = None
            for kk in list(obj):
                if _dec_eq(kk, a[0]):
                    hit = kk
                    break
            HASH_OK[0] = True
            try:
                if name == 'add':
                    if hit is None:
                        set.add(obj, a[0])
                        if _symkey(a[0]):
                            _taint(obj)
                    return None
                if hit is None:
                    if name == 'remove':
                        raise KeyError(a[0])
                    return None
                set.discard(obj, hit)
                return None
            finally:
                HASH_OK[0] = False
        if a and is_sym(a[0]):
            raise ZXError('set.%s with symbolic element' % name)
    return getattr(obj, name)(*a, **k)


HASH_OK = [False]


def _symkey(k):
    """a dict/set key that is symbolic, or a tuple with a symbolic member (e.g. a cache keyed by (host, family))"""
    if type(k) is tuple:
        return any(_symkey(x) for x in k)
    return type(k) in (SStr, SBytes, SInt) or is_sym(k)
_TAINT = {}      # id(container) -> container (kept alive so that ids are not reused)


def _tainted(c):
    return id(c) in _TAINT


def _taint(c):
    _TAINT[id(c)] = c


def reset_taint():
    _TAINT.clear()


def zx_si(obj, idx, val):
    if type(obj) is dict and (_symkey(idx) or _tainted(obj)):
        for kk in list(obj):
            if _dec_eq(kk, idx):
                dict.__setitem__(obj, kk, val)
                return
        HASH_OK[0] = True
        try:
            dict.__setitem__(obj, idx, val)
        finally:
            HASH_OK[0] = False
        if _symkey(idx):
            _taint(obj)
        return
    obj[idx] = val


def zx_di(obj, idx):
    if type(obj) is dict and (_symkey(idx) or _tainted(obj)):
        for kk in list(obj):
            if _dec_eq(kk, idx):
                HASH_OK[0] = True
                try:
                    dict.__delitem__(obj, kk)
                finally:
                    HASH_OK[0] = False
                return
        raise KeyError(idx)
    del obj[idx]


def _dec_eq(a, b):
    r = (a == b)
    return bool(r)


def zx_in(item, cont):
    tc = type(cont)
    if tc is range and type(item) is SInt:
        # membership in a range is arithmetic, not a walk over its elements
        if cont.step > 0:
            r = s_and(item >= cont.start, item < cont.stop)
            return bool(r if cont.step == 1 else s_and(r, (item - cont.start) % cont.step == 0))
        r = s_and(item <= cont.start, item > cont.stop)
        return bool(r if cont.step == -1 else s_and(r, (cont.start - item) % (-cont.step) == 0))
    if _symkey(item) or (tc in (dict, set) and _tainted(cont)):
        if tc in (dict, set, frozenset) or isinstance(cont, (type({}.keys()), type({}.values()))):
            for kk in cont:
                if _dec_eq(kk, item):
                    return True
            return False
        if tc is str:
            return item in SStr([ord(c) for c in cont])
        if tc is bytes:
            return item in SBytes(list(cont))
    return item in cont


def zx_not(x):
    return not x


def zx_gi(obj, idx):
    ti = type(idx)
    to = type(obj)
    if to is dict:
        if ti in (SStr, SBytes, SInt) or _tainted(obj) or (ti is tuple and _symkey(idx)):
            for kk in obj:
                if _dec_eq(kk, idx):
                    HASH_OK[0] = True
                    try:
                        return dict.__getitem__(obj, kk)
                    finally:
                        HASH_OK[0] = False
            raise KeyError(idx)
        return obj[idx]
    if ti is slice and (type(idx.start) is SInt or type(idx.stop) is SInt) and to in (bytes, str, list, tuple, bytearray):
        s, e, st = _slice_bounds(len(obj), idx)
        return obj[s:e:st]
    if ti is SInt and to in (bytes, str, list, tuple, bytearray):
        n = len(obj)
        import z3
        ex = cur()
        adj = z3.If(idx.e < 0, idx.e + n, idx.e)
        if ex.feasible(z3.Or(adj < 0, adj >= n)):
            if ex.decide(z3.Or(adj < 0, adj >= n)):
                raise IndexError('%s index out of range' % to.__name__)
        if to in (list, tuple, bytes, bytearray) and 8 < n <= 4096 and all(type(x) is int for x in obj):
            # constant integer table: lookup as an if-then-else chain over the index (no fork)
            from .core import mkint
            W = ex.W
            e = z3.BitVecVal(obj[0], W)
            for j in range(1, n):
                e = z3.If(adj == j, z3.BitVecVal(obj[j], W), e)
            return mkint(e, min(obj), max(obj))
        return obj[ex.concretize(adj, cap=n + 1)]
    return obj[idx]


def zx_mod(a, b):
    if type(a) is str:
        if active():
            return shims.zx_mod(a, b)
        return a % b
    if type(a) is SStr:
        return shims.zx_mod(a, b)
    return a % b


def zx_setcomp(gen):
    out = set()
    for e in gen:
        if _symkey(e) or _tainted(out):
            zx_cm(out, 'add', e)
        else:
            out.add(e)
    return out


def zx_dictcomp(gen):
    out = {}
    for k, v in gen:
        zx_si(out, k, v)
    return out


RUNTIME = {'_zx_it_': shims.set_order, '_zx_setcomp_': zx_setcomp, '_zx_dictcomp_': zx_dictcomp, '_zx_cm_': zx_cm, '_zx_in_': zx_in, '_zx_not_': zx_not, '_zx_gi_': zx_gi, '_zx_mod_': zx_mod, '_zx_si_': zx_si, '_zx_di_': zx_di}


# ------------------------------------------------------------------ loader
def transform_source(src, filename):
    tree = ast.parse(src, filename)
    tree = _Tx().visit(tree)
    ast.fix_missing_locations(tree)
    return compile(tree, filename, 'exec')


class _Finder(importlib.abc.MetaPathFinder, importlib.abc.Loader):
    def __init__(self, src_dir, overrides=None):
        self.src_dir = src_dir
        self.overrides = overrides or {}
        self.loaded = []

    def _path(self, fullname):
        parts = fullname.split('.')
        base = os.path.join(self.src_dir, *parts)
        if os.path.isdir(base):
            return os.path.join(base, '__init__.py'), True
        return base + '.py', False

    def find_spec(self, fullname, path, target=None):
        if fullname != PKG and not fullname.startswith(PKG + '.'):
            return None
        p, is_pkg = self._path(fullname)
        if not os.path.exists(p):
            return None
        spec = importlib.util.spec_from_loader(fullname, self, origin=p, is_package=is_pkg)
        if is_pkg:
            spec.submodule_search_locations = [os.path.dirname(p)]
        return spec

    def create_module(self, spec):
        return None

    def exec_module(self, module):
        p = module.__spec__.origin
        with open(p, 'r', encoding='utf-8') as f:
            src = f.read()
        code = transform_source(src, p)
        g = module.__dict__
        g['__file__'] = p
        g.update(RUNTIME)
        g.update(shims.BUILTIN_SHIMS)
        g['struct'] = shims.StructShim
        g['io'] = shims.IOShim
        g['binascii'] = shims.BinasciiShim
        g['re'] = rex.ReShim
        exec(code, g)
        self.loaded.append(module.__name__)


class ModuleSet:
    """attribute access to the modules of one copy of the package: M.readbuf.ReadBuf, M.ssh_audit.output"""

    def __init__(self, mods, kind):
        self._mods = mods
        self.kind = kind

    def __getattr__(self, name):
        try:
            return self._mods[PKG + '.' + name]
        except KeyError:
            raise AttributeError(name)

    def names(self):
        return sorted(self._mods)


ALL_MODULES = ['ssh_audit', 'dheat', 'gextest', 'hostkeytest', 'kexdh', 'policy', 'algorithms', 'software', 'banner',
               'readbuf', 'writebuf', 'ssh2_kex', 'ssh2_kexdb', 'ssh1_kexdb', 'ssh1_publickeymessage', 'ssh_socket',
               'utils', 'outputbuffer', 'auditconf', 'timeframe', 'algorithm', 'fingerprint', 'ssh1', 'ssh1_crc32',
               'builtin_policies', 'exitcodes', 'product', 'protocol', 'globals', 'ssh2_kexparty']


def _stash():
    st = {k: v for k, v in sys.modules.items() if k == PKG or k.startswith(PKG + '.')}
    for k in st:
        del sys.modules[k]
    return st


def _restore(st):
    for k in [k for k in sys.modules if k == PKG or k.startswith(PKG + '.')]:
        del sys.modules[k]
    sys.modules.update(st)


def load_instrumented(src_dir):
    st = _stash()
    finder = _Finder(src_dir)
    sys.meta_path.insert(0, finder)
    try:
        for m in ALL_MODULES:
            importlib.import_module(PKG + '.' + m)
        mods = {k: v for k, v in sys.modules.items() if k == PKG or k.startswith(PKG + '.')}
    finally:
        sys.meta_path.remove(finder)
        _restore(st)
    return ModuleSet(mods, 'instrumented')


def load_pristine(src_dir):
    st = _stash()
    sys.path.insert(0, src_dir)
    try:
        for m in ALL_MODULES:
            importlib.import_module(PKG + '.' + m)
        mods = {k: v for k, v in sys.modules.items() if k == PKG or k.startswith(PKG + '.')}
    finally:
        sys.path.remove(src_dir)
        _restore(st)
    return ModuleSet(mods, 'pristine')
