"""ZX regex shim: a backtracking matcher over SStr (concrete length, symbolic chars) that follows
CPython's `re` semantics for the subset of syntax used by the repo.  Character tests become solver
decisions; within one path the matcher behaves like the concrete engine (greedy/lazy order, leftmost
alternative), so captured groups are the ones `re` would return.  Unsupported constructs raise ZXError.
Concrete subjects are delegated to the real `re` module."""
import re as _re
import unicodedata
import z3

try:
    import re._parser as _sp
    import re._constants as _sc
except ImportError:  # pragma: no cover
    import sre_parse as _sp
    import sre_constants as _sc

from .core import ZXError, cur, active
from .seq import SStr, mkstr, _dec, _in_ranges, _disj, _conj, _neg, UNI_WS, to_els

_ND = None


def _nd_ranges():
    """Unicode decimal digits (category Nd) as ranges; computed from unicodedata once per process"""
    global _ND
    if _ND is None:
        r, start, prev = [], None, None
        for cp in range(0x110000):
            if unicodedata.category(chr(cp)) == 'Nd':
                if start is None:
                    start = cp
                elif cp != prev + 1:
                    r.append((start, prev))
                    start = cp
                prev = cp
        if start is not None:
            r.append((start, prev))
        _ND = r
    return _ND


def _cat(cat, c):
    n = str(cat)
    neg = 'NOT_' in n
    if n.endswith('DIGIT'):
        # ASCII first so that the common case gives a small term
        b = _in_ranges(c, _nd_ranges())
    elif n.endswith('SPACE'):
        b = _in_ranges(c, UNI_WS)
    else:
        raise ZXError('regex category %s not modelled' % n)
    return _neg(b) if neg else b


def _in_set(items, c):
    neg = False
    tests = []
    for op, av in items:
        if op is _sc.NEGATE:
            neg = True
        elif op is _sc.LITERAL:
            tests.append(c == av)
        elif op is _sc.RANGE:
            tests.append(_in_ranges(c, [av]))
        elif op is _sc.CATEGORY:
            tests.append(_cat(av, c))
        else:
            raise ZXError('regex set item %s not modelled' % op)
    b = _disj(tests)
    return _neg(b) if neg else b


class _M:
    def __init__(self, els, flags):
        self.s = els
        self.n = len(els)
        if flags & ~(_re.UNICODE):
            raise ZXError('regex flags %r not modelled' % flags)

    def seq(self, items, i, pos, groups, cont):
        if i == len(items):
            return cont(pos, groups)
        op, av = items[i]
        s, n = self.s, self.n
        nxt = lambda p, g: self.seq(items, i + 1, p, g, cont)
        if op is _sc.LITERAL:
            if pos < n and _dec(s[pos] == av):
                return nxt(pos + 1, groups)
            return None
        if op is _sc.NOT_LITERAL:
            if pos < n and _dec(_neg(s[pos] == av)):
                return nxt(pos + 1, groups)
            return None
        if op is _sc.ANY:
            if pos < n and _dec(_neg(s[pos] == 10)):
                return nxt(pos + 1, groups)
            return None
        if op is _sc.IN:
            if pos < n and _dec(_in_set(av, s[pos])):
                return nxt(pos + 1, groups)
            return None
        if op is _sc.CATEGORY:
            if pos < n and _dec(_cat(av, s[pos])):
                return nxt(pos + 1, groups)
            return None
        if op is _sc.AT:
            a = str(av)
            if a.endswith('AT_BEGINNING') or a.endswith('AT_BEGINNING_STRING'):
                return nxt(pos, groups) if pos == 0 else None
            if a.endswith('AT_END_STRING'):
                return nxt(pos, groups) if pos == n else None
            if a.endswith('AT_END'):
                if pos == n or (pos == n - 1 and _dec(s[pos] == 10)):
                    return nxt(pos, groups)
                return None
            raise ZXError('regex anchor %s not modelled' % a)
        if op is _sc.SUBPATTERN:
            gid, addf, delf, sub = av
            if addf or delf:
                raise ZXError('inline regex flags not modelled')

            def after(p, g, gid=gid, start=pos):
                if gid is not None:
                    g = dict(g)
                    g[gid] = (start, p)
                return nxt(p, g)
            return self.seq(list(sub), 0, pos, groups, after)
        if op is _sc.BRANCH:
            _, alts = av
            for alt in alts:
                r = self.seq(list(alt), 0, pos, groups, nxt)
                if r is not None:
                    return r
            return None
        if op in (_sc.MAX_REPEAT, _sc.MIN_REPEAT):
            lo, hi, sub = av
            sub = list(sub)
            greedy = op is _sc.MAX_REPEAT
            hi_inf = hi == _sc.MAXREPEAT

            def rep(count, p, g):
                def more():
                    if not hi_inf and count >= hi:
                        return None
                    return self.seq(sub, 0, p, g,
                                    lambda p2, g2: None if (p2 == p and count >= lo) else rep(count + 1, p2, g2))
                if greedy:
                    r = more()
                    if r is not None:
                        return r
                    return nxt(p, g) if count >= lo else None
                if count >= lo:
                    r = nxt(p, g)
                    if r is not None:
                        return r
                return more()
            return rep(0, pos, groups)
        if op is _sc.GROUPREF:
            if av not in groups:
                return None
            a, b = groups[av]
            ln = b - a
            if pos + ln > n:
                return None
            if _dec(_conj(s[pos + k] == s[a + k] for k in range(ln))):
                return nxt(pos + ln, groups)
            return None
        raise ZXError('regex op %s not modelled' % op)


class SMatch:
    def __init__(self, subject, els, start, end, groups, ngroups):
        self.string = subject
        self._els = els
        self._span = (start, end)
        self._g = groups
        self._n = ngroups

    def __bool__(self):
        return True

    def _grp(self, i):
        if i == 0:
            a, b = self._span
        else:
            if i > self._n:
                raise IndexError('no such group')
            if i not in self._g:
                return None
            a, b = self._g[i]
        return mkstr(self._els[a:b])

    def group(self, *idx):
        if not idx:
            return self._grp(0)
        if len(idx) == 1:
            return self._grp(idx[0])
        return tuple(self._grp(i) for i in idx)

    def groups(self, default=None):
        return tuple((self._grp(i) if i in self._g else default) for i in range(1, self._n + 1))

    def start(self, i=0):
        return self._span[0] if i == 0 else self._g.get(i, (-1, -1))[0]

    def end(self, i=0):
        return self._span[1] if i == 0 else self._g.get(i, (-1, -1))[1]

    def span(self, i=0):
        return (self.start(i), self.end(i))


class SPattern:
    def __init__(self, pattern, flags=0):
        if isinstance(pattern, SStr):
            raise ZXError('symbolic regex pattern')
        self.pattern = pattern
        self.flags = flags
        self._real = _re.compile(pattern, flags)
        self._parsed = None

    def _p(self):
        if self._parsed is None:
            self._parsed = _sp.parse(self.pattern, self.flags)
        return self._parsed

    @property
    def groups(self):
        return self._real.groups

    def _at(self, subject, els, pos, full=False):
        p = self._p()
        m = _M(els, self.flags & ~_re.UNICODE)
        cont = (lambda e, g: (e, g) if e == len(els) else None) if full else (lambda e, g: (e, g))
        r = m.seq(list(p), 0, pos, {}, cont)
        if r is None:
            return None
        return SMatch(subject, els, pos, r[0], r[1], self._real.groups)

    def match(self, s, pos=0):
        if not isinstance(s, SStr):
            return self._real.match(s, pos)
        return self._at(s, s.els, pos)

    def fullmatch(self, s):
        if not isinstance(s, SStr):
            return self._real.fullmatch(s)
        return self._at(s, s.els, 0, True)

    def search(self, s, pos=0):
        if not isinstance(s, SStr):
            return self._real.search(s, pos)
        for st in range(pos, len(s.els) + 1):
            r = self._at(s, s.els, st)
            if r is not None:
                return r
        return None

    def _iter(self, s):
        pos, n = 0, len(s.els)
        while pos <= n:
            r = None
            st = pos
            while st <= n:
                r = self._at(s, s.els, st)
                if r is not None:
                    break
                st += 1
            if r is None:
                return
            yield r
            pos = r.end() if r.end() > r.start() else r.end() + 1

    def finditer(self, s):
        if not isinstance(s, SStr):
            return self._real.finditer(s)
        return self._iter(s)

    def findall(self, s):
        if not isinstance(s, SStr):
            return self._real.findall(s)
        out = []
        for m in self._iter(s):
            if self._real.groups == 0:
                out.append(m.group(0))
            elif self._real.groups == 1:
                g = m.group(1)
                out.append('' if g is None else g)
            else:
                out.append(tuple('' if g is None else g for g in m.groups()))
        return out

    def sub(self, repl, s, count=0):
        if not isinstance(s, SStr) and not isinstance(repl, SStr):
            return self._real.sub(repl, s, count)
        if not isinstance(s, SStr):
            s = SStr(to_els(s))
        out, last, k = [], 0, 0
        prev_empty_at = -1
        for m in self._iter(s):
            if count and k >= count:
                break
            a, b = m.span()
            out.extend(s.els[last:a])
            out.extend(to_els(_expand(repl, m)))
            last = b
            k += 1
        out.extend(s.els[last:])
        return mkstr(out)

    def split(self, s, maxsplit=0):
        if not isinstance(s, SStr):
            return self._real.split(s, maxsplit)
        raise ZXError('re.split on symbolic str')


def _expand(repl, m):
    if callable(repl):
        return repl(m)
    if isinstance(repl, SStr):
        if any(c == 92 if isinstance(c, int) else True for c in repl.els):
            raise ZXError('symbolic replacement template')
        return repl
    if '\\' not in repl:
        return repl
    pieces = []
    i = 0
    while i < len(repl):
        c = repl[i]
        if c != '\\':
            pieces.append(c)
            i += 1
            continue
        mm = _re.match(r'\\g<(\d+)>|\\(\d{1,2})', repl[i:])
        if mm:
            g = m.group(int(mm.group(1) or mm.group(2)))
            pieces.append('' if g is None else g)
            i += mm.end()
            continue
        esc = {'n': '\n', 't': '\t', 'r': '\r', '\\': '\\'}
        if i + 1 < len(repl) and repl[i + 1] in esc:
            pieces.append(esc[repl[i + 1]])
            i += 2
            continue
        raise ZXError('replacement template escape not modelled: %r' % repl)
    from .shims import _cat as cat
    return cat(pieces)


_CACHE = {}


def _compile(p, flags=0):
    if isinstance(p, SPattern):
        return p
    if isinstance(p, _re.Pattern):
        p, flags = p.pattern, p.flags & ~_re.UNICODE
    k = (p, flags)
    if k not in _CACHE:
        _CACHE[k] = SPattern(p, flags)
    return _CACHE[k]


class ReShim:
    error = _re.error
    Pattern = _re.Pattern
    IGNORECASE = _re.IGNORECASE
    I = _re.I
    MULTILINE = _re.MULTILINE
    DOTALL = _re.DOTALL

    @staticmethod
    def compile(p, flags=0):
        return _compile(p, flags)

    @staticmethod
    def match(p, s, flags=0):
        return _compile(p, flags).match(s)

    @staticmethod
    def fullmatch(p, s, flags=0):
        return _compile(p, flags).fullmatch(s)

    @staticmethod
    def search(p, s, flags=0):
        return _compile(p, flags).search(s)

    @staticmethod
    def findall(p, s, flags=0):
        return _compile(p, flags).findall(s)

    @staticmethod
    def finditer(p, s, flags=0):
        return _compile(p, flags).finditer(s)

    @staticmethod
    def sub(p, repl, s, count=0, flags=0):
        return _compile(p, flags).sub(repl, s, count)

    @staticmethod
    def split(p, s, maxsplit=0, flags=0):
        return _compile(p, flags).split(s, maxsplit)

    @staticmethod
    def escape(s):
        return _re.escape(s)
