"""ZX core: path explorer + symbolic scalar proxies (SBool, SInt).

The real (AST-instrumented) ssh-audit functions are executed by the native
interpreter on proxy values.  Every branch on a proxy asks the Explorer, which
decides feasibility with z3 and explores all feasible branches by DFS with
deterministic re-execution (decision prefixes).

Control-flow exceptions derive from BaseException so that `except Exception`
handlers inside the code under test cannot swallow them.
"""
import time
import z3
from zx import ranges as _ranges


class ZXError(BaseException):
    """Harness/engine error (unsupported operation, unfaithful shim, ...). Never a pass."""


class BoundExceeded(ZXError):
    """A value may leave the ambient bit-width / an enumeration cap was hit."""


class Inconclusive(ZXError):
    """Solver returned unknown / time budget exhausted."""


class PathInfeasible(BaseException):
    """Current path has no models (assume(False) / exhausted enumeration)."""


class PathStop(BaseException):
    """Harness asked to stop the path early (e.g. after a cut)."""


_CUR = None  # the active Explorer


def cur():
    if _CUR is None:
        raise ZXError('no active explorer')
    return _CUR


def active():
    return _CUR is not None


class PathResult:
    __slots__ = ('prefix', 'status', 'value', 'model', 'exc', 'notes', 'violations', 'ndec')

    def __init__(self):
        self.prefix = None
        self.status = None
        self.value = None
        self.model = None
        self.exc = None
        self.notes = []
        self.violations = []
        self.ndec = 0


class Explorer:
    def __init__(self, width=64, query_timeout_ms=60000, max_paths=200000, deadline_s=None, enum_cap=80):
        self.W = width
        self.solver = z3.Solver()
        self.solver.set('timeout', query_timeout_ms)
        self.max_paths = max_paths
        self.deadline = (time.time() + deadline_s) if deadline_s else None
        self.enum_cap = enum_cap
        self.queries = 0
        self.solver_time = 0.0
        self.decisions = 0
        self.forks = 0
        self.paths = 0
        self.infeasible = 0
        self._prefix = []
        self._pos = 0
        self._pending = []
        self._model = None
        self._nvars = 0
        self._path = None
        self._trace = []
        self.var_log = []

    # ---- solver helpers -------------------------------------------------
    def _check(self, *assumptions):
        t0 = time.time()
        r = self.solver.check(*assumptions)
        self.solver_time += time.time() - t0
        self.queries += 1
        if r == z3.unknown:
            raise Inconclusive('solver unknown: %s' % self.solver.reason_unknown())
        return r == z3.sat

    def _get_model(self):
        if self._model is None:
            if not self._check():
                raise PathInfeasible()
            self._model = self.solver.model()
        return self._model

    def fresh(self, name, sort):
        self._nvars += 1
        n = '%s!%d' % (name, self._nvars)
        v = z3.Const(n, sort)
        self.var_log.append(v)
        return v

    # ---- path API -------------------------------------------------------
    def assume(self, cond):
        cond = _to_z3bool(cond)
        c = z3.simplify(cond)
        if z3.is_true(c):
            return
        if z3.is_false(c):
            raise PathInfeasible()
        self.solver.add(c)
        m = self._model
        if m is not None and z3.is_true(m.eval(c, model_completion=True)):
            return
        self._model = None
        if not self._check():
            raise PathInfeasible()
        self._model = self.solver.model()

    def decide(self, cond):
        """Branch on a z3 Bool; explores both sides when both are feasible."""
        c = z3.simplify(cond)
        if z3.is_true(c):
            return True
        if z3.is_false(c):
            return False
        # context-free interval pre-check (zx/ranges.py): a condition that holds / fails for every assignment is no decision at all
        # (only at ambient widths above 64 bits, where a solver query under a path condition with wide integers is expensive; at 64 bits the z3 API walk
        # of the pre-check costs more than the query it saves)
        iv = None
        if self.W > 64:
            try:
                iv = _ranges.truth(c)
            except Exception:   # noqa  (the pre-check is an optimisation only)
                iv = None
        if iv is not None:
            self.range_decided = getattr(self, 'range_decided', 0) + 1
            return iv
        self.decisions += 1
        if self._pos < len(self._prefix):
            choice = self._prefix[self._pos]
            if not isinstance(choice, bool):
                raise ZXError('replay misaligned: expected bool decision, got %r' % (choice,))
            self._pos += 1
            self._trace.append(choice)
            self.solver.add(c if choice else z3.Not(c))
            if self._model is not None and z3.is_true(self._model.eval(c, model_completion=True)) != choice:
                self._model = None
            return choice
        m = self._get_model()
        mv = z3.is_true(m.eval(c, model_completion=True))
        other = z3.Not(c) if mv else c
        other_ok = self._check(other)
        if other_ok:
            self.forks += 1
            self._pending.append(self._trace + [not mv])
        self._trace.append(mv)
        self._pos += 1
        self.solver.add(c if mv else z3.Not(c))
        return mv

    def concretize(self, e, cap=None):
        """Exhaustive finite case split on the value of a BV term (all feasible values are explored)."""
        e = z3.simplify(e)
        if z3.is_bv_value(e):
            return e.as_signed_long()
        cap = cap or self.enum_cap
        self.decisions += 1
        if self._pos < len(self._prefix):
            ent = self._prefix[self._pos]
            self._pos += 1
            if isinstance(ent, tuple) and ent[0] == 'v':
                v = ent[1]
                self.solver.add(e == v)
                self._trace.append(ent)
                if self._model is not None and not z3.is_true(self._model.eval(e == v, model_completion=True)):
                    self._model = None
                return v
            if isinstance(ent, tuple) and ent[0] == 'not':
                excl = ent[1]
                if len(excl) >= cap:
                    raise BoundExceeded('enumeration cap %d exceeded for %s' % (cap, e))
                for x in excl:
                    self.solver.add(e != x)
                self._model = None
                if not self._check():
                    raise PathInfeasible()
                self._model = self.solver.model()
                v = self._model.eval(e, model_completion=True).as_signed_long()
                if self._check(e != v):
                    self._pending.append(self._trace + [('not', excl + [v])])
                self.solver.add(e == v)
                self._trace.append(('v', v))
                return v
            raise ZXError('replay misaligned: expected value entry, got %r' % (ent,))
        m = self._get_model()
        v = m.eval(e, model_completion=True).as_signed_long()
        if self._check(e != v):
            self._pending.append(self._trace + [('not', [v])])
        self._trace.append(('v', v))
        self._pos += 1
        self.solver.add(e == v)
        return v

    def feasible(self, cond):
        """Is cond satisfiable together with the current path condition? (no fork)"""
        c = z3.simplify(_to_z3bool(cond))
        if z3.is_true(c):
            return True
        if z3.is_false(c):
            return False
        m = self._model
        if m is not None and z3.is_true(m.eval(c, model_completion=True)):
            return True
        return self._check(c)

    def witness(self, cond):
        """Model of path condition + cond, or None."""
        c = z3.simplify(_to_z3bool(cond))
        if z3.is_false(c):
            return None
        if self._check(c):
            return self.solver.model()
        return None

    def prove(self, cond, label=''):
        """Assertion: cond must hold for every model of the path.  Records a violation (with model) otherwise."""
        c = _to_z3bool(cond)
        m = self.witness(z3.Not(c))
        if m is not None:
            self._path.violations.append((label, m))
            return False
        return True

    def note(self, x):
        self._path.notes.append(x)

    # ---- driver ---------------------------------------------------------
    def explore(self, body, on_path=None):
        """Run body(self) along every feasible path.  Returns list of PathResult."""
        global _CUR
        results = []
        self._pending = [[]]
        prev = _CUR
        _CUR = self
        try:
            while self._pending:
                if self.paths >= self.max_paths:
                    raise BoundExceeded('max_paths %d exceeded' % self.max_paths)
                if self.deadline and time.time() > self.deadline:
                    raise Inconclusive('deadline exceeded after %d paths' % self.paths)
                self._prefix = self._pending.pop()
                self._pos = 0
                self._trace = []
                self._model = None
                self._nvars = 0
                self.var_log = []
                pr = PathResult()
                self._path = pr
                from . import instrument as _ins
                _ins.reset_taint()
                self.solver.push()
                try:
                    try:
                        pr.value = body(self)
                        pr.status = 'ok'
                    except PathInfeasible:
                        pr.status = 'infeasible'
                    except PathStop:
                        pr.status = 'stopped'
                    if pr.status != 'infeasible':
                        if self._pos < len(self._prefix):
                            raise ZXError('replay misaligned: %d unused prefix entries' % (len(self._prefix) - self._pos))
                        pr.model = self._get_model()
                        pr.prefix = list(self._trace)
                        pr.ndec = len(self._trace)
                        self.paths += 1
                        if on_path is not None:
                            on_path(pr)
                        results.append(pr)
                    else:
                        self.infeasible += 1
                finally:
                    self.solver.pop()
        finally:
            _CUR = prev
        return results

    # ---- model evaluation -----------------------------------------------
    def stats(self):
        return {'paths': self.paths, 'decisions': self.decisions, 'forks': self.forks, 'queries': self.queries,
                'solver_time_s': round(self.solver_time, 3), 'infeasible_prefixes': self.infeasible}


def _to_z3bool(x):
    if isinstance(x, SBool):
        return x.e
    if isinstance(x, bool):
        return z3.BoolVal(x)
    if z3.is_bool(x):
        return x
    raise ZXError('not a boolean: %r' % (x,))


# =====================================================================
class SBool:
    __slots__ = ('e',)

    def __init__(self, e):
        self.e = e

    def __bool__(self):
        return cur().decide(self.e)

    def __and__(self, o):
        return mkbool(z3.And(self.e, _to_z3bool(o)))
    __rand__ = __and__

    def __or__(self, o):
        return mkbool(z3.Or(self.e, _to_z3bool(o)))
    __ror__ = __or__

    def __invert__(self):
        return mkbool(z3.Not(self.e))

    def __eq__(self, o):
        return mkbool(self.e == _to_z3bool(o))

    def __ne__(self, o):
        return mkbool(self.e != _to_z3bool(o))

    def __hash__(self):
        raise ZXError('hash() of symbolic bool')

    def __repr__(self):
        return 'SBool(%s)' % self.e

    def __index__(self):
        return 1 if bool(self) else 0

    def __int__(self):
        return 1 if bool(self) else 0

    # bool is an int in Python: arithmetic on a symbolic bool goes through ite(b, 1, 0)
    def _i(self):
        return s_ite(self, 1, 0)

    def __add__(self, o): return self._i() + o
    def __radd__(self, o): return o + self._i()
    def __sub__(self, o): return self._i() - o
    def __rsub__(self, o): return o - self._i()
    def __mul__(self, o): return self._i() * o
    def __rmul__(self, o): return o * self._i()
    def __neg__(self): return -self._i()
    def __lt__(self, o): return self._i() < o
    def __le__(self, o): return self._i() <= o
    def __gt__(self, o): return self._i() > o
    def __ge__(self, o): return self._i() >= o


def mkbool(e):
    e = z3.simplify(e)
    if z3.is_true(e):
        return True
    if z3.is_false(e):
        return False
    return SBool(e)


def s_not(x):
    if isinstance(x, SBool):
        return mkbool(z3.Not(x.e))
    return not x


def s_and(*xs):
    return mkbool(z3.And(*[_to_z3bool(x) for x in xs])) if xs else True


def s_or(*xs):
    return mkbool(z3.Or(*[_to_z3bool(x) for x in xs])) if xs else False


def s_implies(a, b):
    return mkbool(z3.Implies(_to_z3bool(a), _to_z3bool(b)))


def s_ite(c, a, b):
    """if-then-else on ints (SInt/int) without forking."""
    if isinstance(c, bool):
        return a if c else b
    W = cur().W
    ea, eb = _bv(a, W), _bv(b, W)
    la, ha = _bounds(a)
    lb, hb = _bounds(b)
    lo = None if la is None or lb is None else min(la, lb)
    hi = None if ha is None or hb is None else max(ha, hb)
    return mkint(z3.If(c.e, ea, eb), lo, hi)


# =====================================================================
def _bounds(x):
    if isinstance(x, SInt):
        return x.lo, x.hi
    if isinstance(x, bool):
        return int(x), int(x)
    if isinstance(x, int):
        return x, x
    raise ZXError('not an int: %r' % (x,))


def _bv(x, W):
    if isinstance(x, SInt):
        return x.e
    if isinstance(x, SBool):
        return z3.If(x.e, z3.BitVecVal(1, W), z3.BitVecVal(0, W))
    if isinstance(x, (bool, int)):
        x = int(x)
        if not (-(1 << (W - 1)) <= x < (1 << (W - 1))):
            raise BoundExceeded('constant %d does not fit %d bits' % (x, W))
        return z3.BitVecVal(x, W)
    raise ZXError('not an int: %r' % (x,))


def mkint(e, lo=None, hi=None):
    e = z3.simplify(e)
    if z3.is_bv_value(e):
        return e.as_signed_long()
    return SInt(e, lo, hi)


def _isint(x):
    return isinstance(x, (int, SInt)) and not isinstance(x, SBool)


class SInt:
    """Python int as a signed bit-vector of the explorer's ambient width, with conservative
    interval bounds; an operation whose exact result may not fit raises BoundExceeded when the
    overflow is feasible (mathematical integers are never silently wrapped)."""
    __slots__ = ('e', 'lo', 'hi', 'digits')

    def __init__(self, e, lo=None, hi=None):
        self.e = e
        self.lo = lo
        self.hi = hi
        self.digits = None

    # -- guards
    def _fit(self, e, lo, hi, guard):
        W = cur().W
        mn, mx = -(1 << (W - 1)), (1 << (W - 1)) - 1
        if lo is not None and hi is not None and lo >= mn and hi <= mx:
            return mkint(e, lo, hi)
        # bounds unknown or too wide: ask the solver whether overflow is feasible
        if guard is not None and cur().feasible(z3.Not(guard)):
            raise BoundExceeded('integer overflow feasible at width %d' % W)
        return mkint(e, max(lo, mn) if lo is not None else None, min(hi, mx) if hi is not None else None)

    def _bin(self, o, op, rev=False):
        if not _isint(o) and not isinstance(o, SBool):
            return NotImplemented
        W = cur().W
        a, b = (o, self) if rev else (self, o)
        ea, eb = _bv(a, W), _bv(b, W)
        la, ha = _bounds(a) if not isinstance(a, SBool) else (0, 1)
        lb, hb = _bounds(b) if not isinstance(b, SBool) else (0, 1)
        known = None not in (la, ha, lb, hb)
        if op == '+':
            return self._fit(ea + eb, la + lb if known else None, ha + hb if known else None,
                             z3.And(z3.BVAddNoOverflow(ea, eb, True), z3.BVAddNoUnderflow(ea, eb)))
        if op == '-':
            return self._fit(ea - eb, la - hb if known else None, ha - lb if known else None,
                             z3.And(z3.BVSubNoOverflow(ea, eb), z3.BVSubNoUnderflow(ea, eb, True)))
        if op == '*':
            if known:
                c = [la * lb, la * hb, ha * lb, ha * hb]
                lo, hi = min(c), max(c)
            else:
                lo = hi = None
            return self._fit(ea * eb, lo, hi,
                             z3.And(z3.BVMulNoOverflow(ea, eb, True), z3.BVMulNoUnderflow(ea, eb)))
        raise ZXError('bad op')

    def __add__(self, o): return self._bin(o, '+')
    def __radd__(self, o): return self._bin(o, '+', True)
    def __sub__(self, o): return self._bin(o, '-')
    def __rsub__(self, o): return self._bin(o, '-', True)
    def __mul__(self, o):
        if isinstance(o, (list, tuple, str, bytes)):
            return o * self.__index__()
        return self._bin(o, '*')

    def __rmul__(self, o):
        if isinstance(o, (list, tuple, str, bytes)):
            return o * self.__index__()
        from . import seq
        if isinstance(o, (seq.SBytes, seq.SStr)):
            return o * self.__index__()
        return self._bin(o, '*', True)

    def __neg__(self):
        return 0 - self

    def __pos__(self):
        return self

    def __abs__(self):
        return s_ite(self < 0, -self, self)

    def _divmod(self, o, rev=False):
        """Python floor division / modulo."""
        if not _isint(o):
            return NotImplemented
        W = cur().W
        a, b = (o, self) if rev else (self, o)
        if isinstance(b, SInt):
            if cur().feasible(b.e == 0):
                # let the zero-divisor case surface as the Python exception on its own path
                if cur().decide(b.e == 0):
                    raise ZeroDivisionError('integer division or modulo by zero')
        elif b == 0:
            raise ZeroDivisionError('integer division or modulo by zero')
        ea, eb = _bv(a, W), _bv(b, W)
        # truncating quotient/remainder from z3 (signed), then fix to floor semantics
        q = ea / eb
        r = z3.SRem(ea, eb)
        adj = z3.And(r != 0, (r < 0) != (eb < 0))
        qf = z3.If(adj, q - 1, q)
        rf = z3.If(adj, r + eb, r)
        la, ha = _bounds(a)
        lb, hb = _bounds(b)
        qlo = qhi = rlo = rhi = None
        if None not in (la, ha, lb, hb) and lb > 0:
            qlo, qhi = min(la // lb, la // hb), max(ha // lb, ha // hb)
            if la >= 0:
                rlo, rhi = 0, min(hb - 1, ha)
            else:
                rlo, rhi = 0, hb - 1
        return mkint(qf, qlo, qhi), mkint(rf, rlo, rhi)

    def __floordiv__(self, o):
        r = self._divmod(o)
        return r if r is NotImplemented else r[0]

    def __rfloordiv__(self, o):
        r = self._divmod(o, True)
        return r if r is NotImplemented else r[0]

    def __mod__(self, o):
        r = self._divmod(o)
        return r if r is NotImplemented else r[1]

    def __rmod__(self, o):
        if isinstance(o, (str, bytes)):
            raise ZXError('native %-format reached a symbolic int')
        r = self._divmod(o, True)
        return r if r is NotImplemented else r[1]

    def __divmod__(self, o):
        return self._divmod(o)

    def __truediv__(self, o):
        if isinstance(o, int) and o > 0:
            return SRatio(self, o)
        raise ZXError('true division of symbolic int by %r' % (o,))

    def __lshift__(self, o):
        if isinstance(o, SInt):
            o = o.__index__()
        if not isinstance(o, int):
            return NotImplemented
        if o < 0:
            raise ValueError('negative shift count')
        W = cur().W
        if o >= W:
            if cur().feasible(self.e != 0):
                raise BoundExceeded('shift by %d exceeds width %d' % (o, W))
            return 0
        lo = None if self.lo is None else self.lo << o
        hi = None if self.hi is None else self.hi << o
        sh = self.e << o
        return self._fit(sh, lo, hi, (sh >> o) == self.e)

    def __rlshift__(self, o):
        k = self.__index__()
        return o << k

    def __rshift__(self, o):
        if isinstance(o, SInt):
            o = o.__index__()
        if not isinstance(o, int):
            return NotImplemented
        if o < 0:
            raise ValueError('negative shift count')
        W = cur().W
        lo = None if self.lo is None else self.lo >> o
        hi = None if self.hi is None else self.hi >> o
        if o >= W:
            return s_ite(self < 0, -1, 0)
        return mkint(self.e >> o, lo, hi)

    def __rrshift__(self, o):
        k = self.__index__()
        return o >> k

    def _bit(self, o, op):
        if not _isint(o):
            return NotImplemented
        W = cur().W
        ea, eb = self.e, _bv(o, W)
        lo = hi = None
        if op == '&':
            e = ea & eb
            lb, hb = _bounds(o)
            if lb is not None and lb >= 0:
                lo, hi = 0, hb
            elif self.lo is not None and self.lo >= 0:
                lo, hi = 0, self.hi
        elif op == '|':
            e = ea | eb
            lb, hb = _bounds(o)
            if None not in (self.lo, self.hi, lb, hb) and self.lo >= 0 and lb >= 0:
                lo, hi = 0, (1 << max(self.hi.bit_length(), hb.bit_length())) - 1
        else:
            e = ea ^ eb
            lb, hb = _bounds(o)
            if None not in (self.lo, self.hi, lb, hb) and self.lo >= 0 and lb >= 0:
                lo, hi = 0, (1 << max(self.hi.bit_length(), hb.bit_length())) - 1
        return mkint(e, lo, hi)

    def __and__(self, o): return self._bit(o, '&')
    __rand__ = __and__
    def __or__(self, o): return self._bit(o, '|')
    __ror__ = __or__
    def __xor__(self, o): return self._bit(o, '^')
    __rxor__ = __xor__

    def __invert__(self):
        return -self - 1

    def _cmp(self, o, op):
        if isinstance(o, SRatio):
            return NotImplemented
        if not _isint(o):
            if op == '==':
                return False
            if op == '!=':
                return True
            return NotImplemented
        W = cur().W
        ea, eb = self.e, _bv(o, W)
        lb, hb = _bounds(o)
        # cheap interval answers
        if None not in (self.lo, self.hi, lb, hb):
            if op == '<' and self.hi < lb: return True
            if op == '<' and self.lo >= hb: return False
            if op == '<=' and self.hi <= lb: return True
            if op == '<=' and self.lo > hb: return False
            if op == '>' and self.lo > hb: return True
            if op == '>' and self.hi <= lb: return False
            if op == '>=' and self.lo >= hb: return True
            if op == '>=' and self.hi < lb: return False
            if op == '==' and (self.hi < lb or self.lo > hb): return False
            if op == '!=' and (self.hi < lb or self.lo > hb): return True
        return mkbool({'<': ea < eb, '<=': ea <= eb, '>': ea > eb, '>=': ea >= eb, '==': ea == eb, '!=': ea != eb}[op])

    def __lt__(self, o): return self._cmp(o, '<')
    def __le__(self, o): return self._cmp(o, '<=')
    def __gt__(self, o): return self._cmp(o, '>')
    def __ge__(self, o): return self._cmp(o, '>=')
    def __eq__(self, o): return self._cmp(o, '==')
    def __ne__(self, o): return self._cmp(o, '!=')

    def __hash__(self):
        raise ZXError('hash() of symbolic int')

    def __bool__(self):
        return cur().decide(self.e != 0)

    def __index__(self):
        return cur().concretize(self.e)

    def __int__(self):
        raise ZXError('int() of a symbolic int reached natively (format site not instrumented?)')

    def __float__(self):
        raise ZXError('float() of a symbolic int')

    def __repr__(self):
        return 'SInt(%s)' % self.e

    def __str__(self):
        raise ZXError('str() of a symbolic int reached natively')

    def __format__(self, spec):
        raise ZXError('format() of a symbolic int reached natively')

    def bit_length(self):
        return s_bit_length(self)


class SRatio:
    """Result of `symbolic_int / positive_constant`; only `int()` of it is supported
    (exact for |num| < 2**53, which is guarded)."""
    __slots__ = ('num', 'den')

    def __init__(self, num, den):
        self.num = num
        self.den = den

    def to_int(self):
        n = self.num
        lim = 1 << 53
        if not (n.lo is not None and n.hi is not None and -lim < n.lo and n.hi < lim):
            if cur().feasible(z3.Or(n.e >= lim, n.e <= -lim)):
                raise BoundExceeded('float division operand may exceed 2**53')
        q = n // self.den
        # int() truncates toward zero; floor differs for negative non-multiples
        return s_ite(s_and(n < 0, (n % self.den) != 0), q + 1, q)


def s_bit_length(x):
    """bit_length of |x| as int/SInt (no fork)"""
    if isinstance(x, int):
        return x.bit_length()
    if x.lo is not None and x.hi is not None and (x.lo >= 0 or x.hi <= 0) and abs(x.lo).bit_length() == abs(x.hi).bit_length():
        return abs(x.lo).bit_length()
    W = cur().W
    a = z3.If(x.e < 0, -x.e, x.e)
    hi = W - 1
    if x.lo is not None and x.hi is not None:
        hi = min(hi, max(abs(x.lo), abs(x.hi)).bit_length())
    res = z3.BitVecVal(0, W)
    for k in range(hi):
        res = z3.If(z3.Extract(k, k, a) == 1, z3.BitVecVal(k + 1, W), res)
    return mkint(res, 0, hi)


def fresh_int(name, lo, hi):
    ex = cur()
    v = ex.fresh(name, z3.BitVecSort(ex.W))
    ex.assume(z3.And(v >= lo, v <= hi))
    return SInt(v, lo, hi)


def fresh_bool(name):
    ex = cur()
    return SBool(ex.fresh(name, z3.BoolSort()))


def is_sym(x):
    from . import seq
    return isinstance(x, (SInt, SBool, SRatio, seq.SBytes, seq.SStr))
