"""ZX shims: models of builtins / struct / io / binascii / string formatting for proxy values.
Each shim implements the documented library contract for proxy arguments and delegates to the
real function for concrete ones.  They are installed in the *module globals of the instrumented
copies* of the repo modules (never in the repo source)."""
import builtins
import io as _io
import re as _re
import string as _string
import struct as _struct
import binascii as _binascii
import z3

from .core import (cur, active, ZXError, BoundExceeded, SInt, SBool, SRatio, mkint, mkbool, s_ite, s_and, s_or,
                   s_bit_length, is_sym, _bv)
from .seq import SBytes, SStr, SHex, mkbytes, mkstr, CW, to_els, _dec, _rng, _conj, _disj, _in_ranges, _el_to_int, _int_to_el

PROXY_TYPES = (SInt, SBool, SRatio, SBytes, SStr, SHex)


# ---------------------------------------------------------------- text conversion
def _user_str(v):
    t = type(v)
    mod = getattr(t, '__module__', '')
    if mod.startswith('ssh_audit') or mod.startswith('zxh_'):
        for k in t.__mro__:
            if k is object or not getattr(k, '__module__', '').startswith(('ssh_audit', 'zxh_')):
                break
            if '__str__' in k.__dict__:
                return k.__dict__['__str__'](v)
    return None


def int_to_str(x):
    """decimal rendering of an int/SInt as str/SStr (case split on sign and digit count)"""
    if isinstance(x, bool):
        return str(x)
    if isinstance(x, int):
        return str(x)
    if isinstance(x, SBool):
        return 'True' if x else 'False'
    if x.digits is not None:
        return mkstr(list(x.digits))
    neg = bool(x < 0)
    a = -x if neg else x
    if isinstance(a, int):
        return str(-a if neg else a)
    k = 1
    while not bool(a < 10 ** k):
        k += 1
        if k > 80:
            raise BoundExceeded('too many digits')
    W = cur().W
    els = [45] if neg else []
    for i in range(k - 1, -1, -1):
        d = (a // (10 ** i)) % 10 if i else a % 10
        if isinstance(d, int):
            els.append(48 + d)
        else:
            els.append(z3.Extract(CW - 1, 0, d.e) + 48)
    return mkstr(els)


def hex_str(h):
    """lower-case hex text of a (symbolic) byte string, as bytes.hex() returns it"""
    out = []
    for e in to_els(h.src):
        if isinstance(e, int):
            out += [ord(c) for c in '%02x' % e]
            continue
        hi, lo = z3.ZeroExt(CW - 4, z3.Extract(7, 4, e)), z3.ZeroExt(CW - 4, z3.Extract(3, 0, e))
        hx = lambda n: z3.If(z3.ULT(n, 10), n + 48, n + 87)
        out += [hx(hi), hx(lo)]
    return mkstr(out)


def z_str(x='', *a):
    if a:
        if isinstance(x, SBytes):
            return x.decode(*a)
        return builtins.str(x, *a)
    if isinstance(x, SStr):
        return x
    if isinstance(x, (SInt, SBool)):
        return int_to_str(x)
    if isinstance(x, SHex):
        return hex_str(x)
    if isinstance(x, PROXY_TYPES):
        raise ZXError('str() of %s' % type(x).__name__)
    u = _user_str(x)
    if u is not None:
        return u
    if isinstance(x, BaseException) and _deep_sym(x.args):
        if len(x.args) == 1:
            return z_str(x.args[0])
        raise ZXError('str() of an exception with several symbolic args')
    if isinstance(x, (list, tuple, dict)) and _deep_sym(x):
        raise ZXError('str() of a container holding symbolic values')
    return builtins.str(x)


def bytes_repr(b):
    """exact model of repr(bytes) for symbolic bytes (forks per byte class)"""
    els = b.els
    has_sq = bool(_wrapb(_disj([_eqb(e, 39) for e in els])))
    has_dq = bool(_wrapb(_disj([_eqb(e, 34) for e in els]))) if has_sq else False
    quote = 34 if (has_sq and not has_dq) else 39
    out = [98, quote]
    for e in els:
        if _dec(_eqb(e, quote)) or _dec(_eqb(e, 92)):
            out += [92, e if isinstance(e, int) else z3.ZeroExt(CW - 8, e)]
        elif _dec(_eqb(e, 9)):
            out += [92, 116]
        elif _dec(_eqb(e, 10)):
            out += [92, 110]
        elif _dec(_eqb(e, 13)):
            out += [92, 114]
        elif _dec(_rng(e, 32, 126)):
            out.append(e if isinstance(e, int) else z3.ZeroExt(CW - 8, e))
        else:
            z = z3.BitVecVal(e, 8) if isinstance(e, int) else e
            hi, lo = z3.ZeroExt(CW - 4, z3.Extract(7, 4, z)), z3.ZeroExt(CW - 4, z3.Extract(3, 0, z))
            hx = lambda n: z3.If(z3.ULT(n, 10), n + 48, n + 87)
            out += [92, 120, hx(hi), hx(lo)]
    out.append(quote)
    return mkstr(out)


def str_repr(x):
    """repr(str) for symbolic text restricted to printable ASCII without quotes/backslash (anything else: outside the model)"""
    for c in x.els:
        ok = _conj([_rng(c, 32, 126), _neg_(_eqb(c, 39)), _neg_(_eqb(c, 34)), _neg_(_eqb(c, 92))])
        if not _dec(ok):
            raise ZXError('repr() of symbolic text with quotes/backslash/non-printable characters is outside the model')
    return mkstr([39] + list(x.els) + [39])


def _neg_(b):
    return (not b) if isinstance(b, bool) else z3.Not(b)


def _eqb(e, v):
    return (e == v) if isinstance(e, int) else (e == v)


def _wrapb(b):
    return b if isinstance(b, bool) else mkbool(b)


def z_repr(x):
    if isinstance(x, SBytes):
        return bytes_repr(x)
    if isinstance(x, (SInt, SBool)):
        return int_to_str(x)
    if isinstance(x, SStr):
        return str_repr(x)
    if isinstance(x, PROXY_TYPES):
        raise ZXError('repr() of symbolic value')
    if isinstance(x, (list, tuple, dict)) and _deep_sym(x):
        raise ZXError('repr() of a container holding symbolic values')
    # an object of the code under analysis: its own __repr__ may build a text with symbolic parts (builtins.repr would reject a non-str result)
    t = type(x)
    if getattr(t, '__module__', '').startswith(('ssh_audit', 'zxh_')):
        for k in t.__mro__:
            if k is object or not getattr(k, '__module__', '').startswith(('ssh_audit', 'zxh_')):
                break
            if '__repr__' in k.__dict__:
                return k.__dict__['__repr__'](x)
    return builtins.repr(x)


def _deep_sym(x, depth=0):
    if isinstance(x, PROXY_TYPES):
        return True
    if depth > 4:
        return False
    if isinstance(x, (list, tuple, set, frozenset)):
        return any(_deep_sym(y, depth + 1) for y in x)
    if isinstance(x, dict):
        return any(_deep_sym(k, depth + 1) or _deep_sym(v, depth + 1) for k, v in x.items())
    return False


class OpaqueStr:
    """text whose content is not modelled (the decimal rendering of an integer wider than the ambient width): it can be built into larger texts and handed
    on (a debug line that is never printed); any attempt to look at it makes the path inconclusive instead of guessing."""
    __slots__ = ()

    def _no(self, *a, **k):
        raise BoundExceeded('text that contains the decimal rendering of a wide integer was inspected')
    __eq__ = __ne__ = __lt__ = __le__ = __gt__ = __ge__ = __len__ = __iter__ = __getitem__ = __contains__ = __hash__ = __bool__ = _no
    __getattr__ = _no

    def __add__(self, o):
        return self
    __radd__ = __add__


def _big_decimal(v):
    """str() of a LazyBig.  CPython refuses int -> decimal str conversions of more than 4300 digits (ValueError), i.e. from 10**4300 (a little above 2**14284) on."""
    try:
        return int_to_str(v.val())
    except BoundExceeded:
        pass
    els = list(v.els)
    while els and isinstance(els[0], int) and els[0] == 0:
        els.pop(0)
    if not els:
        return '0'
    n = len(els)
    if isinstance(els[0], int):
        bl = 8 * (n - 1) + els[0].bit_length()
        if bl >= 14286:
            raise ValueError('Exceeds the limit (4300 digits) for integer string conversion; use sys.set_int_max_str_digits() to increase the limit')
        if bl <= 14284:
            return OpaqueStr()
    elif 8 * n <= 14284:
        return OpaqueStr()
    elif 8 * (n - 1) >= 14286:
        # whatever the leading byte is, a lower byte decides nothing: only an all-zero leading part would shorten it; split on the leading byte being zero
        if not bool(mkbool(els[0] == 0) if not isinstance(els[0], int) else els[0] == 0):
            raise ValueError('Exceeds the limit (4300 digits) for integer string conversion; use sys.set_int_max_str_digits() to increase the limit')
        return _big_decimal(LazyBig(els[1:]))
    raise BoundExceeded('decimal rendering of an integer whose size is around the 4300-digit limit')


# ---------------------------------------------------------------- % formatting
_PCT = _re.compile(r'%(?:\((?P<key>[^)]*)\))?(?P<flags>[-#0 +]*)(?P<width>\*|\d+)?(?:\.(?P<prec>\*|\d+))?[hlL]?(?P<conv>[diouxXeEfFgGcrsa%])')


def zx_mod(fmt, args):
    if isinstance(fmt, (bytes, SBytes)):
        raise ZXError('bytes %-format')
    if not isinstance(fmt, str):
        if isinstance(fmt, SStr):
            if not fmt.is_concrete():
                raise ZXError('symbolic format string')
            fmt = ''.join(chr(c) for c in fmt.els)
    pieces = []
    pos = 0
    if isinstance(args, tuple):
        argl, mapping = list(args), None
    elif isinstance(args, dict):
        argl, mapping = [args], args
    else:
        argl, mapping = [args], None
    ai = 0
    any_sym = False
    for m in _PCT.finditer(fmt):
        if m.start() > pos:
            lit = fmt[pos:m.start()]
            if '%' in lit:
                raise ValueError('unsupported format character')
            pieces.append(lit)
        pos = m.end()
        conv = m.group('conv')
        if conv == '%':
            pieces.append('%')
            continue
        if m.group('key') is not None:
            if mapping is None:
                raise TypeError('format requires a mapping')
            v = mapping[m.group('key')]
        else:
            if m.group('width') == '*' or m.group('prec') == '*':
                raise ZXError('* width in format')
            if ai >= len(argl):
                raise TypeError('not enough arguments for format string')
            v = argl[ai]
            ai += 1
        spec = '%' + (m.group('flags') or '') + (m.group('width') or '') + ('.' + m.group('prec') if m.group('prec') else '') + conv
        plain = spec == '%' + conv
        if isinstance(v, LazyBig) and conv in 'diusr':
            pieces.append(_big_decimal(v))
            continue
        if isinstance(v, OpaqueStr) and conv == 's':
            pieces.append(v)
            continue
        if isinstance(v, PROXY_TYPES) or (_user_str(v) is not None and conv == 's'):
            if conv == 's':
                t = z_str(v)
            elif conv == 'r' and isinstance(v, (SInt, SBool)):
                t = int_to_str(v)
            elif conv == 'r' and isinstance(v, SStr):
                t = str_repr(v)
            elif conv == 'r' and isinstance(v, SBytes):
                t = bytes_repr(v)
            elif conv in 'diu':
                if isinstance(v, (SStr, SBytes)):
                    raise TypeError('%%%s format: a real number is required, not str' % conv)
                if isinstance(v, SRatio):
                    raise ZXError('%d of ratio')
                t = int_to_str(v)
            else:
                raise ZXError('format %s of symbolic value' % spec)
            if not plain and is_sym(t):
                raise ZXError('format %s with flags/width on a symbolic value' % spec)
            if not plain:
                t = spec.replace(conv, 's') % (t,)
            pieces.append(t)
            any_sym = any_sym or is_sym(t)
        else:
            if conv in 'sr' and isinstance(v, (list, tuple, dict)) and _deep_sym(v):
                raise ZXError('%%%s of container with symbolic values' % conv)
            pieces.append(spec % (v,))
    if pos < len(fmt):
        lit = fmt[pos:]
        if '%' in lit:
            raise ValueError('incomplete format')
        pieces.append(lit)
    if mapping is None and ai < len(argl):
        raise TypeError('not all arguments converted during string formatting')
    return _cat(pieces)


def _cat(pieces):
    els = []
    sym = False
    if any(isinstance(p, OpaqueStr) for p in pieces):
        return OpaqueStr()
    for p in pieces:
        if isinstance(p, SStr):
            sym = True
            els.extend(p.els)
        elif isinstance(p, str):
            els.extend(ord(c) for c in p)
        else:
            raise ZXError('cannot concatenate %r' % (type(p),))
    if not sym:
        return ''.join(chr(c) for c in els)
    return mkstr(els)


_FMT = _string.Formatter()


def zx_format(fmt, a, k):
    if isinstance(fmt, SStr):
        if not fmt.is_concrete():
            return _format_symbolic_template(fmt, a, k)
        fmt = ''.join(chr(c) for c in fmt.els)
    pieces = []
    auto = 0
    for lit, field, spec, conv in _FMT.parse(fmt):
        if lit:
            pieces.append(lit)
        if field is None:
            continue
        if field == '':
            field = str(auto)
            auto += 1
        elif field.isdigit():
            pass
        if '{' in (spec or ''):
            raise ZXError('nested format spec')
        v, _ = _FMT.get_field(field, a, k)
        if conv == 'r':
            pieces.append(z_repr(v))
            continue
        if conv == 's':
            v = z_str(v)
        spec = spec or ''
        if isinstance(v, PROXY_TYPES):
            if isinstance(v, SStr) and spec in ('', 's'):
                pieces.append(v)
            elif isinstance(v, (SInt, SBool)) and spec in ('', 'd'):
                pieces.append(int_to_str(v))
            else:
                raise ZXError('format spec %r on symbolic %s' % (spec, type(v).__name__))
        else:
            u = _user_str(v) if spec == '' else None
            if u is not None:
                pieces.append(u)
            else:
                if isinstance(v, (list, tuple, dict)) and _deep_sym(v):
                    raise ZXError('format of container with symbolic values')
                pieces.append(format(v, spec))
    return _cat(pieces)


def _format_symbolic_template(fmt, a, k):
    """str.format on a template that contains symbolic characters (text of the peer used as a format string).  Case split: if none of the symbolic characters
    is a brace they are literal text - the template is formatted with private-use sentinels in their place, which are put back afterwards; otherwise the
    template is concretised (finite case split) and formatted for real, which may raise ValueError / KeyError / IndexError like the real str.format."""
    sym = [i for i, c in enumerate(fmt.els) if not isinstance(c, int)]
    has_brace = s_or(*[mkbool(z3.Or(fmt.els[i] == 123, fmt.els[i] == 125)) for i in sym])
    if bool(has_brace):
        return zx_format(concretize_str(fmt), a, k)
    chars = []
    back = {}
    for i, c in enumerate(fmt.els):
        if isinstance(c, int):
            chars.append(chr(c))
        else:
            sent = chr(0xF0000 + len(back))
            back[sent] = c
            chars.append(sent)
    res = zx_format(''.join(chars), a, k)
    els = []
    for c in (res.els if isinstance(res, SStr) else [ord(x) for x in res]):
        if isinstance(c, int) and chr(c) in back:
            els.append(back[chr(c)])
        else:
            els.append(c)
    return mkstr(els)


def set_order(x):
    """iteration order of a set under an unknown hash seed: when the explorer opts in (`permute_sets`), every order of a set of up to 4 elements is explored
    (solver-driven case split); larger sets: every choice of first element, remaining elements forwards or backwards.  Anything else is returned unchanged."""
    if type(x) not in (set, frozenset) or not active() or not getattr(cur(), 'permute_sets', False):
        return x
    base = builtins.list(x)
    n = len(base)
    if n < 2:
        return base
    ex = cur()

    def choose(k, tag):
        v = ex.fresh('setorder_%s' % tag, z3.BitVecSort(ex.W))
        ex.assume(z3.And(v >= 0, v < k))
        return ex.concretize(v)
    ex.set_orders = getattr(ex, 'set_orders', 0) + 1
    if n <= 4:
        out, rest = [], builtins.list(base)
        while len(rest) > 1:
            out.append(rest.pop(choose(len(rest), 'pick')))
        return out + rest
    i = choose(n, 'first')
    rest = base[:i] + base[i + 1:]
    if choose(2, 'rev'):
        rest.reverse()
    return [base[i]] + rest


def z_list(x=()):
    return builtins.list(set_order(x))


def z_tuple(x=()):
    return builtins.tuple(set_order(x))


def z_enumerate(x, start=0):
    return builtins.enumerate(set_order(x), start)


def zx_join(sep, it):
    items = list(set_order(it))
    if isinstance(sep, (bytes, SBytes)):
        els = []
        for i, x in enumerate(items):
            if i:
                els.extend(to_els(sep))
            if not isinstance(x, (bytes, bytearray, SBytes)):
                raise TypeError('sequence item %d: expected a bytes-like object' % i)
            els.extend(to_els(x))
        return mkbytes(els)
    els = []
    for i, x in enumerate(items):
        if i:
            els.extend(to_els(sep))
        if not isinstance(x, (str, SStr)):
            raise TypeError('sequence item %d: expected str instance, %s found' % (i, type(x).__name__))
        els.extend(to_els(x))
    return mkstr(els)


# ---------------------------------------------------------------- int / ord / chr / bin / len / isinstance
class SBin:
    __slots__ = ('x',)

    def __init__(self, x):
        self.x = x


def z_bin(x):
    if isinstance(x, SInt):
        return SBin(x)
    return builtins.bin(x)


def z_len(x):
    if isinstance(x, SBin):
        return s_ite(x.x < 0, 3, 2) + s_ite(x.x == 0, 1, s_bit_length(x.x))
    return builtins.len(x)


def bytes_to_int(els, signed=False):
    """big-endian integer value of a list of byte elements"""
    if all(isinstance(e, int) for e in els):
        return int.from_bytes(bytes(els), 'big', signed=signed)
    W = cur().W
    n = len(els)
    # drop leading concrete zeros
    while not signed and els and isinstance(els[0], int) and els[0] == 0:
        els = els[1:]
    n = len(els)
    if n == 0:
        return 0
    if 8 * n > (W if signed else W - 1):
        # leading bytes must be provably zero (unsigned) for the value to fit
        raise BoundExceeded('%d-byte integer does not fit ambient width %d' % (n, W))
    bv = [z3.BitVecVal(e, 8) if isinstance(e, int) else e for e in els]
    e = z3.Concat(*bv) if n > 1 else bv[0]
    if 8 * n < W:
        e = z3.SignExt(W - 8 * n, e) if signed else z3.ZeroExt(W - 8 * n, e)
    if signed:
        return mkint(e, -(1 << (8 * n - 1)), (1 << (8 * n - 1)) - 1)
    return mkint(e, 0, (1 << (8 * n)) - 1)


def z_int(x=0, base=None):
    if isinstance(x, SInt):
        return x
    if isinstance(x, SBool):
        return s_ite(x, 1, 0)
    if isinstance(x, SRatio):
        return x.to_int()
    if isinstance(x, SHex):
        if base != 16:
            raise ZXError('int(hex, base=%r)' % base)
        if len(x.src) == 0:
            raise ValueError("invalid literal for int() with base 16: b''")
        els = to_els(x.src)
        if all(isinstance(e, int) for e in els):
            return builtins.int.from_bytes(builtins.bytes(els), 'big')
        try:
            return bytes_to_int(els)
        except BoundExceeded:
            return LazyBig(els)
    if isinstance(x, (SStr, SBytes)):
        if base not in (None, 10):
            raise ZXError('int(symbolic str, base=%r)' % base)
        return _parse_int(x)
    if base is None:
        return builtins.int(x)
    return builtins.int(x, base)


def _parse_int(x):
    """int(str) for a symbolic str/bytes, CPython grammar: [ws] [sign] digit ('_'? digit)* [ws]  (ASCII; a non-ASCII char is outside
    the modelled domain and raises ZXError, never a silent mis-model)"""
    err = ValueError('invalid literal for int() with base 10')
    if isinstance(x, SBytes):
        x = mkstr([e if isinstance(e, int) else z3.ZeroExt(CW - 8, e) for e in x.els])
        if isinstance(x, str):
            return builtins.int(x)
    # non-ASCII decimal digits (Unicode category Nd) are accepted by int(): map them to their ASCII digit first (Nd code points come in runs of ten)
    from .rex import _nd_ranges
    mapped = []
    for c in x.els:
        if isinstance(c, int):
            if c >= 128:
                import unicodedata
                ch = chr(c)
                if unicodedata.category(ch) == 'Nd':
                    c = 48 + unicodedata.digit(ch)
            mapped.append(c)
            continue
        if cur().feasible(z3.UGE(c, 128)) and cur().decide(z3.UGE(c, 128)):
            nd = [r for r in _nd_ranges() if r[0] >= 128]
            if cur().decide(_in_ranges(c, nd)):
                e = c
                for lo, hi in nd:
                    e = z3.If(z3.And(z3.UGE(c, lo), z3.ULE(c, hi)), z3.URem(c - lo, 10) + 48, e)
                mapped.append(z3.simplify(e))
            else:
                mapped.append(c)      # neither digit nor (after strip) whitespace -> ValueError below
            continue
        mapped.append(c)
    x = mkstr(mapped)
    if isinstance(x, str):
        return builtins.int(x)
    t = x.strip()
    els = to_els(t)
    if not els:
        raise err
    neg = False
    if _dec(_in_ranges(els[0], [(43, 43), (45, 45)])):
        neg = _dec(els[0] == 45 if isinstance(els[0], int) else els[0] == 45)
        els = els[1:]
    if not els:
        raise err
    W = cur().W
    total, digs, prev_digit = 0, [], False
    for i, c in enumerate(els):
        if _dec(_rng(c, 48, 57)):
            d = c - 48 if isinstance(c, int) else mkint(z3.ZeroExt(W - CW, c) - 48, 0, 9)
            total = total * 10 + d
            digs.append(c)
            prev_digit = True
            continue
        if prev_digit and i + 1 < len(els) and _dec(c == 95 if isinstance(c, int) else c == 95):
            prev_digit = False
            continue
        raise err
    if not prev_digit:
        raise err
    if neg:
        total = -total
    elif isinstance(total, SInt) and len(digs) == len(x.els):
        lead0 = (digs[0] == 48) if isinstance(digs[0], int) else cur().feasible(digs[0] == 48)
        total.digits = list(digs) if (len(digs) == 1 or not lead0) else None
    return total


def _is_char(c, v):
    return isinstance(c, int) and c == v


class LazyBig:
    """int(hexlify(bytes), 16): a big non-negative integer given by big-endian bytes.  Materialised
    as SInt only if it fits the ambient width; otherwise only length-based observations work."""
    __slots__ = ('els', '_v')

    def __init__(self, els):
        self.els = els
        self._v = None

    def val(self):
        if self._v is None:
            self._v = bytes_to_int(self.els)
        return self._v

    def _no(self, *a, **k):
        raise BoundExceeded('%d-byte integer used arithmetically but does not fit the ambient width' % len(self.els))
    __add__ = __radd__ = __sub__ = __rsub__ = __mul__ = __rmul__ = __floordiv__ = __rfloordiv__ = _no
    __mod__ = __rmod__ = __lt__ = __le__ = __gt__ = __ge__ = __eq__ = __ne__ = __bool__ = __index__ = _no
    __and__ = __or__ = __xor__ = __lshift__ = __rshift__ = __neg__ = __int__ = __hash__ = _no


def force(x):
    return x.val() if isinstance(x, LazyBig) else x


def z_ord(c):
    if isinstance(c, SStr):
        if len(c) != 1:
            raise TypeError('ord() expected a character, but string of length %d found' % len(c))
        return _el_to_int(c.els[0], CW)
    if isinstance(c, SBytes):
        if len(c) != 1:
            raise TypeError('ord() expected a character, but string of length %d found' % len(c))
        return _el_to_int(c.els[0], 8)
    return builtins.ord(c)


def z_chr(i):
    if isinstance(i, SInt):
        if bool(s_or(i < 0, i > 0x10FFFF)):
            raise ValueError('chr() arg not in range(0x110000)')
        return mkstr([z3.Extract(CW - 1, 0, i.e)])
    return builtins.chr(i)


_TMAP = {str: (SStr,), bytes: (SBytes,), int: (SInt, SBool), bool: (SBool,)}


def z_isinstance(x, t):
    ts = t if isinstance(t, tuple) else (t,)
    ts = tuple(_UNSHIM.get(tt, tt) if callable(tt) and not isinstance(tt, type) else tt for tt in ts)
    t = ts if isinstance(t, tuple) else ts[0]
    if isinstance(x, PROXY_TYPES + (SByteArray,)):
        for tt in ts:
            if tt is bytearray and isinstance(x, SByteArray):
                return True
            if isinstance(x, _TMAP.get(tt, ())):
                return True
        return False
    return builtins.isinstance(x, t)


class SByteArray:
    """mutable byte buffer model (append/extend/decode/len/index)"""

    def __init__(self, src=b'', enc=None, errors='strict'):
        if isinstance(src, (str, SStr)):
            if enc is None:
                raise TypeError('string argument without an encoding')
            src = src.encode(enc, errors) if isinstance(src, SStr) else builtins.bytes(src, enc, errors)
        if isinstance(src, int):
            src = builtins.bytes(src)
        self.els = to_els(src) if not isinstance(src, list) else [(_int_to_el(e, 8, 'byte')) for e in src]

    def append(self, v):
        if isinstance(v, SInt):
            if bool(s_or(v < 0, v > 255)):
                raise ValueError('byte must be in range(0, 256)')
        elif not 0 <= v <= 255:
            raise ValueError('byte must be in range(0, 256)')
        self.els.append(_int_to_el(v, 8, 'byte'))

    def extend(self, o):
        self.els.extend(to_els(o) if not isinstance(o, SByteArray) else o.els)

    def __len__(self):
        return len(self.els)

    def decode(self, *a, **k):
        b = mkbytes(self.els)
        return b.decode(*a, **k)

    def freeze(self):
        return mkbytes(self.els)


def z_bytearray(*a):
    if a and (is_sym(a[0]) or (isinstance(a[0], list) and _deep_sym(a[0]))):
        return SByteArray(*a)
    if not a and active():
        return SByteArray()
    return builtins.bytearray(*a)


def z_bytes(*a):
    if not a:
        return b''
    x = a[0]
    if isinstance(x, SBytes):
        return x
    if isinstance(x, SByteArray):
        return x.freeze()
    if isinstance(x, SStr):
        return x.encode(*a[1:])
    if isinstance(x, (list, tuple)) and _deep_sym(x):
        return mkbytes([_int_to_el(e, 8, 'byte') for e in x])
    return builtins.bytes(*a)


def z_print(*a, **k):
    if active():
        sink = getattr(cur(), 'stdout', None)
        if sink is not None:
            sink.append((a, k))
            return
        if any(is_sym(x) for x in a):
            raise ZXError('print() of symbolic value without a capture sink')
    builtins.print(*a, **k)


def z_pow(a, b, c=None):
    if is_sym(a) or is_sym(b) or is_sym(c) or isinstance(a, LazyBig) or isinstance(c, LazyBig) or isinstance(b, LazyBig):
        h = getattr(cur(), 'pow_hook', None)
        if h is None:
            raise ZXError('pow() with symbolic operands and no hook')
        return h(a, b, c)
    return builtins.pow(a, b) if c is None else builtins.pow(a, b, c)


class _TypeShim:
    """callable stand-in for a builtin type name (int/str/bytes/bytearray) in instrumented module globals: calling it runs the model, every other
    attribute (int.from_bytes, bytes.fromhex, str.maketrans, ...) is taken from the real type unless a proxy-aware version is registered"""

    def __init__(self, fn, real, extra=None):
        self._fn, self._real = fn, real
        self.__name__ = real.__name__
        for k, v in (extra or {}).items():
            setattr(self, k, v)

    def __call__(self, *a, **k):
        return self._fn(*a, **k)

    def __getattr__(self, name):
        return getattr(self._real, name)


def _int_from_bytes(b, byteorder='big', *, signed=False):
    if isinstance(b, SByteArray):
        b = b.freeze()
    if isinstance(b, SBytes):
        els = list(b.els) if byteorder == 'big' else list(reversed(b.els))
        return bytes_to_int(els, signed) if els else 0
    return builtins.int.from_bytes(b, byteorder, signed=signed)


class SDec:
    """float(<decimal text with symbolic digits>): an exact decimal num / 10**k.  Only comparisons are modelled; they agree with IEEE double comparison
    because distinct decimals of at most 15 significant digits round to distinct doubles and rounding is monotone.  bool()/int() are modelled too."""
    __slots__ = ('num', 'k')

    def __init__(self, num, k):
        self.num, self.k = num, k

    def _pair(self, o):
        if isinstance(o, SDec):
            k = max(self.k, o.k)
            return self.num * (10 ** (k - self.k)), o.num * (10 ** (k - o.k))
        if isinstance(o, (builtins.int, SInt)) and not isinstance(o, builtins.bool):
            return self.num, o * (10 ** self.k)
        if isinstance(o, builtins.float):
            from fractions import Fraction
            fr = Fraction(repr(o))
            if (fr * 10 ** 15).denominator != 1:
                raise ZXError('SDec compared with a float of more than 15 decimals')
            k = max(self.k, 15)
            return self.num * (10 ** (k - self.k)), builtins.int(fr * 10 ** k)
        raise ZXError('SDec compared with %s' % type(o).__name__)

    def __lt__(self, o): a, b = self._pair(o); return a < b
    def __le__(self, o): a, b = self._pair(o); return a <= b
    def __gt__(self, o): a, b = self._pair(o); return a > b
    def __ge__(self, o): a, b = self._pair(o); return a >= b

    def __eq__(self, o):
        if o is None:
            return False
        a, b = self._pair(o)
        return a == b

    def __ne__(self, o):
        if o is None:
            return True
        a, b = self._pair(o)
        return a != b
    __hash__ = None

    def __bool__(self):
        return builtins.bool(self.num != 0)


def z_float(x=0.0):
    if isinstance(x, SStr):
        els = x.els
        dots = [i for i, c in enumerate(els) if isinstance(c, builtins.int) and c == 46]
        sym = [c for c in els if not isinstance(c, builtins.int)]
        conc_ok = all(48 <= c <= 57 or c == 46 for c in els if isinstance(c, builtins.int))
        if conc_ok and len(dots) <= 1 and 0 < len(els) - len(dots) <= 15 and \
           all(cur().witness(z3.Not(z3.And(z3.UGE(c, 48), z3.ULE(c, 57)))) is None for c in sym):
            ip = els[:dots[0]] if dots else els
            fp = els[dots[0] + 1:] if dots else []
            if ip or fp:
                num = (_z_int_fn(mkstr(ip)) if ip else 0) * (10 ** len(fp)) + (_z_int_fn(mkstr(fp)) if fp else 0)
                return SDec(num, len(fp))
        return builtins.float(concretize_str(x))
    if isinstance(x, SInt):
        return SDec(x, 0)
    if isinstance(x, SDec):
        return x
    return builtins.float(x)


_z_int_fn, _z_str_fn, _z_bytes_fn, _z_bytearray_fn = z_int, z_str, z_bytes, z_bytearray
z_int = _TypeShim(_z_int_fn, builtins.int, {'from_bytes': _int_from_bytes})
z_str = _TypeShim(_z_str_fn, builtins.str)
z_bytes = _TypeShim(_z_bytes_fn, builtins.bytes)
z_bytearray = _TypeShim(_z_bytearray_fn, builtins.bytearray)
_z_float_fn = z_float
z_float = _TypeShim(_z_float_fn, builtins.float)
_z_list_fn, _z_tuple_fn = z_list, z_tuple
z_list = _TypeShim(_z_list_fn, builtins.list)
z_tuple = _TypeShim(_z_tuple_fn, builtins.tuple)
_UNSHIM = {z_int: int, z_str: str, z_bytes: bytes, z_bytearray: bytearray, z_float: float, z_list: list, z_tuple: tuple}
_TMAP[float] = (SDec,)

BUILTIN_SHIMS = {
    'int': z_int, 'str': z_str, 'repr': z_repr, 'ord': z_ord, 'chr': z_chr, 'bin': z_bin, 'len': z_len,
    'isinstance': z_isinstance, 'bytearray': z_bytearray, 'bytes': z_bytes, 'print': z_print, 'pow': z_pow, 'float': z_float, 'list': z_list, 'tuple': z_tuple, 'enumerate': z_enumerate,
}


# ---------------------------------------------------------------- struct
_CODES = {'B': (1, False), 'b': (1, True), 'H': (2, False), 'h': (2, True), 'I': (4, False), 'i': (4, True),
          'L': (4, False), 'l': (4, True), 'Q': (8, False), 'q': (8, True)}


def concretize_str(x):
    """exhaustive case split on the characters of a symbolic str (finite enumeration)"""
    if isinstance(x, str):
        return x
    out = []
    for c in x.els:
        out.append(c if isinstance(c, int) else cur().concretize(z3.ZeroExt(8, c)))
    return ''.join(chr(c) for c in out)


def _parse_fmt(fmt):
    if isinstance(fmt, SStr):
        fmt = concretize_str(fmt)
    order = '@'
    if fmt and fmt[0] in '@=<>!':
        order, fmt = fmt[0], fmt[1:]
    items = []
    for m in _re.finditer(r'(\d*)([A-Za-z?])', fmt):
        cnt = int(m.group(1)) if m.group(1) else 1
        code = m.group(2)
        if code not in _CODES:
            raise ZXError('struct code %r not modelled' % code)
        items += [_CODES[code]] * cnt
    if order not in '>!' and any(sz > 1 for sz, _ in items):
        raise ZXError('only big-endian struct formats are modelled')
    return items


class StructShim:
    error = _struct.error

    @staticmethod
    def calcsize(fmt):
        return _struct.calcsize(fmt)

    @staticmethod
    def pack(fmt, *vals):
        if isinstance(fmt, SStr):
            fmt = concretize_str(fmt)
        if not any(is_sym(v) for v in vals):
            return _struct.pack(fmt, *vals)
        items = _parse_fmt(fmt)
        if len(items) != len(vals):
            raise _struct.error('pack expected %d items for packing (got %d)' % (len(items), len(vals)))
        W = cur().W
        out = []
        for (sz, signed), v in zip(items, vals):
            if isinstance(v, SBool):
                v = s_ite(v, 1, 0)
            if isinstance(v, LazyBig):
                v = v.val()
            if not isinstance(v, (int, SInt)):
                raise _struct.error('required argument is not an integer')
            lo, hi = (-(1 << (8 * sz - 1)), (1 << (8 * sz - 1)) - 1) if signed else (0, (1 << (8 * sz)) - 1)
            if bool(s_or(v < lo, v > hi)):
                raise _struct.error('argument out of range')
            if isinstance(v, int):
                out.extend(v.to_bytes(sz, 'big', signed=signed))
                continue
            if 8 * sz <= W:
                for k in range(sz - 1, -1, -1):
                    out.append(z3.Extract(8 * k + 7, 8 * k, v.e))
            else:
                ext = z3.SignExt(8 * sz - W, v.e)
                for k in range(sz - 1, -1, -1):
                    out.append(z3.Extract(8 * k + 7, 8 * k, ext))
        return mkbytes(out)

    @staticmethod
    def unpack(fmt, data):
        if isinstance(data, SByteArray):
            data = data.freeze()
        if isinstance(fmt, SStr):
            fmt = concretize_str(fmt)
        if not isinstance(data, SBytes):
            return _struct.unpack(fmt, data)
        items = _parse_fmt(fmt)
        need = sum(sz for sz, _ in items)
        if len(data) != need:
            raise _struct.error('unpack requires a buffer of %d bytes' % need)
        out, p = [], 0
        for sz, signed in items:
            out.append(bytes_to_int(data.els[p:p + sz], signed))
            p += sz
        return tuple(out)


# ---------------------------------------------------------------- io.BytesIO
class SBytesIO:
    def __init__(self, data=None):
        self.els = to_els(data) if data is not None else []
        self.pos = 0

    def tell(self):
        return self.pos

    def seek(self, off, whence=0):
        if isinstance(off, SInt):
            off = off.__index__()
        if whence == 0:
            self.pos = off
        elif whence == 1:
            self.pos += off
        else:
            self.pos = len(self.els) + off
        if self.pos < 0:
            raise ValueError('negative seek value')
        return self.pos

    def read(self, n=-1):
        rest = max(len(self.els) - self.pos, 0)
        if n is None:
            n = -1
        if isinstance(n, SInt):
            ex = cur()
            W = ex.W
            cl = z3.If(n.e < 0, z3.BitVecVal(rest, W), z3.If(n.e > rest, z3.BitVecVal(rest, W), n.e))
            n = ex.concretize(cl, cap=rest + 2)
        elif n < 0 or n > rest:
            n = rest
        r = self.els[self.pos:self.pos + n]
        self.pos += n
        return mkbytes(r)

    def readline(self):
        i = self.pos
        n = len(self.els)
        while i < n:
            c = self.els[i]
            i += 1
            if _dec(c == 10 if isinstance(c, int) else c == 10):
                break
        r = self.els[self.pos:i]
        self.pos = i
        return mkbytes(r)

    def write(self, data):
        d = to_els(data) if not isinstance(data, SByteArray) else list(data.els)
        if self.pos > len(self.els):
            self.els.extend([0] * (self.pos - len(self.els)))
        self.els[self.pos:self.pos + len(d)] = d
        self.pos += len(d)
        return len(d)

    def getvalue(self):
        return mkbytes(self.els)

    def truncate(self, n=None):
        if n is None:
            n = self.pos
        del self.els[n:]
        return n


class IOShim:
    BytesIO = SBytesIO
    StringIO = _io.StringIO


class BinasciiShim:
    Error = _binascii.Error

    @staticmethod
    def hexlify(x):
        if isinstance(x, SBytes):
            return SHex(x)
        if active():
            return SHex(x)
        return _binascii.hexlify(x)

    @staticmethod
    def unhexlify(x):
        return _binascii.unhexlify(x)
