"""ZX: native execution of the (AST-instrumented) real code on z3-backed proxies."""
import z3
from .core import (Explorer, ZXError, BoundExceeded, Inconclusive, PathInfeasible, PathStop, SInt, SBool, SRatio,
                   cur, active, mkint, mkbool, s_not, s_and, s_or, s_implies, s_ite, s_bit_length,
                   fresh_int, fresh_bool, is_sym)
from .seq import SBytes, SStr, SHex, mkbytes, mkstr, fresh_bytes, fresh_str, to_els, CW
from .shims import LazyBig, SByteArray, SBytesIO, int_to_str, bytes_to_int, force
from .instrument import load_instrumented, load_pristine, ModuleSet


def ev(model, x):
    """evaluate a (possibly nested) value containing proxies under a z3 model -> plain Python value"""
    if isinstance(x, SInt):
        return model.eval(x.e, model_completion=True).as_signed_long()
    if isinstance(x, SBool):
        return z3.is_true(model.eval(x.e, model_completion=True))
    if isinstance(x, SBytes):
        return bytes(e if isinstance(e, int) else model.eval(e, model_completion=True).as_long() for e in x.els)
    if isinstance(x, SStr):
        return ''.join(chr(e if isinstance(e, int) else model.eval(e, model_completion=True).as_long()) for e in x.els)
    if isinstance(x, SByteArray):
        return bytearray(e if isinstance(e, int) else model.eval(e, model_completion=True).as_long() for e in x.els)
    if isinstance(x, LazyBig):
        return int.from_bytes(bytes(e if isinstance(e, int) else model.eval(e, model_completion=True).as_long() for e in x.els), 'big')
    if isinstance(x, SRatio):
        return ev(model, x.num) / x.den
    if isinstance(x, list):
        return [ev(model, y) for y in x]
    if isinstance(x, tuple):
        return tuple(ev(model, y) for y in x)
    if isinstance(x, dict):
        return {ev(model, k): ev(model, v) for k, v in x.items()}
    if isinstance(x, set):
        return {ev(model, y) for y in x}
    return x
