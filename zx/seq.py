"""ZX sequences: SBytes / SStr with CONCRETE length and symbolic elements."""
import z3
from .core import (cur, ZXError, BoundExceeded, SInt, SBool, mkbool, mkint, s_and, s_or, _to_z3bool, _bv)

CW = 24  # char width (code points 0..0x10FFFF)
UNI_WS = [(0x09, 0x0D), (0x1C, 0x20), (0x85, 0x85), (0xA0, 0xA0), (0x1680, 0x1680), (0x2000, 0x200A),
          (0x2028, 0x2029), (0x202F, 0x202F), (0x205F, 0x205F), (0x3000, 0x3000)]
ASCII_WS = [(0x09, 0x0D), (0x20, 0x20)]


def _eq(a, b):
    """element equality -> python bool or z3 Bool"""
    if isinstance(a, int) and isinstance(b, int):
        return a == b
    return a == b  # z3 overloads (int is coerced to the BV sort)


def _in_ranges(c, ranges):
    if isinstance(c, int):
        return any(lo <= c <= hi for lo, hi in ranges)
    return z3.Or(*[z3.And(z3.UGE(c, lo), z3.ULE(c, hi)) if lo != hi else c == lo for lo, hi in ranges])


def _dec(b):
    """branch on python bool / z3 Bool"""
    if isinstance(b, bool):
        return b
    return cur().decide(b)


def _conj(bs):
    bs = list(bs)
    if any(b is False for b in bs):
        return False
    zs = [b for b in bs if b is not True]
    if not zs:
        return True
    return z3.And(*zs) if len(zs) > 1 else zs[0]


def _disj(bs):
    bs = list(bs)
    if any(b is True for b in bs):
        return True
    zs = [b for b in bs if b is not False]
    if not zs:
        return False
    return z3.Or(*zs) if len(zs) > 1 else zs[0]


def _neg(b):
    return (not b) if isinstance(b, bool) else z3.Not(b)


def _wrap(b):
    return b if isinstance(b, bool) else mkbool(b)


def _el_to_int(e, width):
    """element -> int | SInt (zero-extended to ambient width)"""
    if isinstance(e, int):
        return e
    W = cur().W
    return mkint(z3.ZeroExt(W - width, e), 0, (1 << width) - 1)


def _int_to_el(x, width, what):
    """int | SInt -> element of `width` bits; range is the caller's responsibility"""
    if isinstance(x, int):
        return x
    if isinstance(x, SInt):
        return z3.simplify(z3.Extract(width - 1, 0, x.e))
    raise ZXError('bad %s element %r' % (what, x))


def _slice_bounds(n, sl):
    """Resolve a slice with possibly symbolic bounds into concrete (start, stop) by an exhaustive
    case split over Python's clamped values.  Only step 1/None supported for symbolic bounds."""
    start, stop, step = sl.start, sl.stop, sl.step
    if isinstance(step, SInt):
        step = step.__index__()
    if isinstance(start, SInt) or isinstance(stop, SInt):
        if step not in (None, 1):
            raise ZXError('symbolic slice bounds with step')
        ex = cur()
        W = ex.W

        def clamp(v, default):
            if v is None:
                return default
            if isinstance(v, int):
                return max(v + n, 0) if v < 0 else min(v, n)
            e = v.e
            adj = z3.If(e < 0, e + n, e)
            cl = z3.If(adj < 0, z3.BitVecVal(0, W), z3.If(adj > n, z3.BitVecVal(n, W), adj))
            return ex.concretize(cl, cap=n + 2)
        s = clamp(start, 0)
        e = clamp(stop, n)
        return s, e, 1
    return slice(start, stop, step).indices(n)


class _SSeq:
    __slots__ = ('els',)
    WIDTH = 8

    def __len__(self):
        return len(self.els)

    def __hash__(self):
        # Symbolic keys are supported only through the instrumented dict/set operations (linear scans with ==, see instrument.zx_si).  A constant
        # hash per length keeps symbolic keys comparable among themselves; containers holding one are marked tainted so that instrumented reads
        # never rely on hashing.  Outside an instrumented store this is still an error.
        from . import instrument
        if not instrument.HASH_OK[0]:
            raise ZXError('hash() of symbolic %s (dict/set keyed by a symbolic value outside an instrumented store?)' % type(self).__name__)
        return 0x5EED0000 + len(self.els)

    def __bool__(self):
        return len(self.els) > 0

    def _coerce(self, o):
        raise NotImplementedError

    def _mk(self, els):
        raise NotImplementedError

    def __getitem__(self, i):
        if isinstance(i, slice):
            s, e, st = _slice_bounds(len(self.els), i)
            return self._mk(self.els[s:e:st])
        if isinstance(i, SInt):
            n = len(self.els)
            ex = cur()
            adj = z3.If(i.e < 0, i.e + n, i.e)
            if ex.feasible(z3.Or(adj < 0, adj >= n)):
                if ex.decide(z3.Or(adj < 0, adj >= n)):
                    raise IndexError('index out of range')
            i = ex.concretize(adj, cap=n + 1)
        return self._item(self.els[i])

    def __iter__(self):
        for e in self.els:
            yield self._item(e)

    def _eq_els(self, o):
        if len(o) != len(self.els):
            return False
        return _conj(_eq(a, b) for a, b in zip(self.els, o))

    def __eq__(self, o):
        o = self._coerce(o)
        if o is None:
            return False
        return _wrap(self._eq_els(o))

    def __ne__(self, o):
        o = self._coerce(o)
        if o is None:
            return True
        return _wrap(_neg(self._eq_els(o)))

    def _lt_els(self, a, b, or_equal):
        """lexicographic a < b (or <=) as z3/python bool, no forking"""
        n = min(len(a), len(b))
        terms = []
        pre = []
        for i in range(n):
            x, y = a[i], b[i]
            lt = (x < y) if isinstance(x, int) and isinstance(y, int) else z3.ULT(self._z(x), self._z(y))
            terms.append(_conj(pre + [lt]))
            pre = pre + [_eq(x, y)]
        tail = (len(a) <= len(b)) if or_equal else (len(a) < len(b))
        terms.append(_conj(pre + [tail]))
        return _disj(terms)

    def _z(self, x):
        return z3.BitVecVal(x, self.WIDTH) if isinstance(x, int) else x

    def _ord(self, o, swap, or_equal):
        o = self._coerce(o)
        if o is None:
            return NotImplemented
        a, b = (o, self.els) if swap else (self.els, o)
        return _wrap(self._lt_els(a, b, or_equal))

    def __lt__(self, o): return self._ord(o, False, False)
    def __le__(self, o): return self._ord(o, False, True)
    def __gt__(self, o): return self._ord(o, True, False)
    def __ge__(self, o): return self._ord(o, True, True)

    def __add__(self, o):
        o = self._coerce(o)
        if o is None:
            return NotImplemented
        return self._mk(self.els + o)

    def __radd__(self, o):
        o = self._coerce(o)
        if o is None:
            return NotImplemented
        return self._mk(o + self.els)

    def __mul__(self, k):
        if isinstance(k, SInt):
            k = k.__index__()
        if not isinstance(k, int):
            return NotImplemented
        return self._mk(self.els * k)
    __rmul__ = __mul__

    def _match_at(self, i, pat):
        if i < 0 or i + len(pat) > len(self.els):
            return False
        return _conj(_eq(self.els[i + j], p) for j, p in enumerate(pat))

    def startswith(self, pat, start=0):
        if isinstance(pat, tuple):
            return _wrap(_disj(self._match_at(start, self._req(p)) for p in pat))
        return _wrap(self._match_at(start, self._req(pat)))

    def endswith(self, pat):
        if isinstance(pat, tuple):
            return _wrap(_disj(self._match_at(len(self.els) - len(self._req(p)), self._req(p)) for p in pat))
        pat = self._req(pat)
        return _wrap(self._match_at(len(self.els) - len(pat), pat))

    def _req(self, o):
        r = self._coerce(o)
        if r is None:
            raise TypeError('wrong operand type %r for %s' % (type(o), type(self).__name__))
        return r

    def __contains__(self, pat):
        if isinstance(pat, (int, SInt)) and self.WIDTH == 8:
            pe = _int_to_el(pat, 8, 'byte')
            return _dec(_disj(_eq(e, pe) for e in self.els))
        pat = self._req(pat)
        if len(pat) == 0:
            return True
        return _dec(_disj(self._match_at(i, pat) for i in range(len(self.els) - len(pat) + 1)))

    def find(self, pat, start=0, end=None):
        pat = self._req(pat)
        n = len(self.els) if end is None else min(end, len(self.els))
        for i in range(start, n - len(pat) + 1):
            if _dec(self._match_at(i, pat)):
                return i
        return -1

    def rfind(self, pat):
        pat = self._req(pat)
        for i in range(len(self.els) - len(pat), -1, -1):
            if _dec(self._match_at(i, pat)):
                return i
        return -1

    def index(self, pat, start=0):
        r = self.find(pat, start)
        if r < 0:
            raise ValueError('substring not found')
        return r

    def rindex(self, pat):
        r = self.rfind(pat)
        if r < 0:
            raise ValueError('substring not found')
        return r

    def count(self, pat):
        pat = self._req(pat)
        if len(pat) == 0:
            return len(self.els) + 1
        i, c = 0, 0
        while i <= len(self.els) - len(pat):
            if _dec(self._match_at(i, pat)):
                c += 1
                i += len(pat)
            else:
                i += 1
        return c

    def split(self, sep=None, maxsplit=-1):
        if sep is None:
            raise ZXError('split() on whitespace not supported for symbolic values')
        sep = self._req(sep)
        if len(sep) == 0:
            raise ValueError('empty separator')
        out, curr, i, n = [], [], 0, len(self.els)
        while i < n:
            if (maxsplit < 0 or len(out) < maxsplit) and _dec(self._match_at(i, sep)):
                out.append(self._mk(curr))
                curr = []
                i += len(sep)
            else:
                curr.append(self.els[i])
                i += 1
        out.append(self._mk(curr))
        return out

    def _strip(self, chars, left, right):
        els = self.els
        if chars is None:
            test = lambda c: _in_ranges(c, self.WS)
        else:
            cs = self._req(chars)
            test = lambda c: _disj(_eq(c, x) for x in cs)
        a, b = 0, len(els)
        if left:
            while a < b and _dec(test(els[a])):
                a += 1
        if right:
            while b > a and _dec(test(els[b - 1])):
                b -= 1
        return self._mk(els[a:b])

    def strip(self, chars=None): return self._strip(chars, True, True)
    def lstrip(self, chars=None): return self._strip(chars, True, False)
    def rstrip(self, chars=None): return self._strip(chars, False, True)

    def replace(self, old, new, count=-1):
        old, new = self._req(old), self._req(new)
        if len(old) == 0:
            raise ZXError('replace with empty pattern on symbolic value')
        out, i, n, k = [], 0, len(self.els), 0
        while i < n:
            if (count < 0 or k < count) and _dec(self._match_at(i, old)):
                out.extend(new)
                i += len(old)
                k += 1
            else:
                out.append(self.els[i])
                i += 1
        return self._mk(out)

    def is_concrete(self):
        return all(isinstance(e, int) for e in self.els)


# ---------------------------------------------------------------------
class SBytes(_SSeq):
    __slots__ = ()
    WIDTH = 8
    WS = ASCII_WS

    def __init__(self, els):
        self.els = list(els)

    def _mk(self, els):
        return mkbytes(els)

    def _item(self, e):
        return _el_to_int(e, 8)

    def _coerce(self, o):
        if isinstance(o, SBytes):
            return o.els
        if isinstance(o, (bytes, bytearray)):
            return list(o)
        return None

    def __repr__(self):
        return 'SBytes(len=%d)' % len(self.els)

    def __str__(self):
        raise ZXError('str() of symbolic bytes reached natively')

    def __bytes__(self):
        raise ZXError('bytes() of symbolic bytes reached natively')

    def hex(self):
        return hex_of(self)

    def decode(self, enc='utf-8', errors='strict'):
        enc = enc.lower().replace('_', '-')
        if enc == 'ascii':
            out = []
            for i, b in enumerate(self.els):
                if _dec(b >= 0x80 if isinstance(b, int) else z3.UGE(b, 0x80)):
                    if errors == 'strict':
                        raise UnicodeDecodeError('ascii', b'?', i, i + 1, 'ordinal not in range(128)')
                    if errors == 'replace':
                        out.append(0xFFFD)
                    elif errors != 'ignore':
                        raise ZXError('decode errors=%s' % errors)
                else:
                    out.append(b if isinstance(b, int) else z3.ZeroExt(CW - 8, b))
            return mkstr(out)
        if enc in ('utf-8', 'utf8'):
            return utf8_decode(self.els, errors)
        raise ZXError('decode(%s) of symbolic bytes' % enc)


def mkbytes(els):
    els = [z3.simplify(e) if not isinstance(e, int) else e for e in els]
    els = [e.as_long() if (not isinstance(e, int) and z3.is_bv_value(e)) else e for e in els]
    if all(isinstance(e, int) for e in els):
        return bytes(els)
    return SBytes(els)


def _rng(b, lo, hi):
    if isinstance(b, int):
        return lo <= b <= hi
    return z3.And(z3.UGE(b, lo), z3.ULE(b, hi))


def utf8_decode(els, errors):
    """Exact UTF-8 decoder (CPython semantics incl. 'replace' of maximal invalid subparts),
    forking on byte classes."""
    if errors not in ('strict', 'replace', 'ignore', 'surrogateescape'):
        raise ZXError('decode errors=%s' % errors)
    out = []
    i, n = 0, len(els)

    def bad(start, end, reason):
        if errors == 'strict':
            raise UnicodeDecodeError('utf-8', b'?', start, end, reason)
        if errors == 'replace':
            out.append(0xFFFD)
        if errors == 'surrogateescape':
            for k in range(start, end):
                b = els[k]
                out.append(0xDC00 + b if isinstance(b, int) else z3.ZeroExt(CW - 8, b) + 0xDC00)

    def ext(b):
        return b if isinstance(b, int) else z3.ZeroExt(CW - 8, b)

    while i < n:
        b0 = els[i]
        if _dec(_rng(b0, 0x00, 0x7F)):
            out.append(ext(b0))
            i += 1
            continue
        # determine lead class
        if _dec(_rng(b0, 0xC2, 0xDF)):
            need, lo1, hi1 = 1, 0x80, 0xBF
        elif _dec(_rng(b0, 0xE0, 0xE0)):
            need, lo1, hi1 = 2, 0xA0, 0xBF
        elif _dec(_disj([_rng(b0, 0xE1, 0xEC), _rng(b0, 0xEE, 0xEF)])):
            need, lo1, hi1 = 2, 0x80, 0xBF
        elif _dec(_rng(b0, 0xED, 0xED)):
            need, lo1, hi1 = 2, 0x80, 0x9F
        elif _dec(_rng(b0, 0xF0, 0xF0)):
            need, lo1, hi1 = 3, 0x90, 0xBF
        elif _dec(_rng(b0, 0xF1, 0xF3)):
            need, lo1, hi1 = 3, 0x80, 0xBF
        elif _dec(_rng(b0, 0xF4, 0xF4)):
            need, lo1, hi1 = 3, 0x80, 0x8F
        else:
            bad(i, i + 1, 'invalid start byte')
            i += 1
            continue
        # continuation bytes
        got = [b0]
        j = i + 1
        ok = True
        for k in range(need):
            if j >= n:
                ok = False
                break
            lo, hi = (lo1, hi1) if k == 0 else (0x80, 0xBF)
            if not _dec(_rng(els[j], lo, hi)):
                ok = False
                break
            got.append(els[j])
            j += 1
        if not ok:
            bad(i, j, 'invalid continuation byte' if j < n else 'unexpected end of data')
            i = j if j > i + 1 else i + 1
            continue
        g = [ext(x) for x in got]
        if need == 1:
            cp = ((g[0] & 0x1F) << 6) | (g[1] & 0x3F)
        elif need == 2:
            cp = ((g[0] & 0x0F) << 12) | ((g[1] & 0x3F) << 6) | (g[2] & 0x3F)
        else:
            cp = ((g[0] & 0x07) << 18) | ((g[1] & 0x3F) << 12) | ((g[2] & 0x3F) << 6) | (g[3] & 0x3F)
        out.append(cp)
        i = j
    return mkstr(out)


class SHex:
    """result of binascii.hexlify(x) / bytes.hex(); only int(_, 16), len and == '' style uses supported"""
    __slots__ = ('src',)

    def __init__(self, src):
        self.src = src

    def __len__(self):
        return 2 * len(self.src)


def hex_of(b):
    return SHex(b)


# ---------------------------------------------------------------------
class SStr(_SSeq):
    __slots__ = ()
    WIDTH = CW
    WS = UNI_WS

    def __init__(self, els):
        self.els = list(els)

    def _mk(self, els):
        return mkstr(els)

    def _item(self, e):
        return mkstr([e])

    def _coerce(self, o):
        if isinstance(o, SStr):
            return o.els
        if isinstance(o, str):
            return [ord(c) for c in o]
        return None

    def __repr__(self):
        return 'SStr(len=%d)' % len(self.els)

    def __str__(self):
        raise ZXError('str() of a symbolic str reached natively (uninstrumented format/join/print site?)')

    def __format__(self, spec):
        raise ZXError('format() of a symbolic str reached natively')

    def __mod__(self, args):
        from .shims import zx_mod
        return zx_mod(self, args)

    def format(self, *a, **k):
        from .shims import zx_format
        return zx_format(self, a, k)

    def join(self, it):
        from .shims import zx_join
        return zx_join(self, it)

    def lower(self):
        out = []
        for c in self.els:
            if isinstance(c, int):
                lc = chr(c).lower()
                if len(lc) != 1:
                    raise ZXError('lower() changes length')
                out.append(ord(lc))
                continue
            if cur().decide(z3.UGE(c, 128)):
                raise ZXError('lower()/casefold() of symbolic non-ASCII char: restrict the domain')
            out.append(z3.If(z3.And(z3.UGE(c, 65), z3.ULE(c, 90)), c + 32, c))
        return mkstr(out)

    casefold = lower

    def upper(self):
        out = []
        for c in self.els:
            if isinstance(c, int):
                out.append(ord(chr(c).upper()))
                continue
            if cur().decide(z3.UGE(c, 128)):
                raise ZXError('upper() of symbolic non-ASCII char')
            out.append(z3.If(z3.And(z3.UGE(c, 97), z3.ULE(c, 122)), c - 32, c))
        return mkstr(out)

    def zfill(self, width):
        n = len(self.els)
        if width <= n:
            return self
        pad = [48] * (width - n)
        # a leading sign stays in front of the padding (decided per path)
        if n and _dec(_in_ranges(self.els[0], [(43, 43), (45, 45)])):
            return mkstr([self.els[0]] + pad + list(self.els[1:]))
        return mkstr(pad + list(self.els))

    def rjust(self, width, fill=' '):
        n = len(self.els)
        return self if width <= n else mkstr([ord(fill)] * (width - n) + list(self.els))

    def ljust(self, width, fill=' '):
        n = len(self.els)
        return self if width <= n else mkstr(list(self.els) + [ord(fill)] * (width - n))

    def isdigit(self):
        if not self.els:
            return False
        return _dec(_conj(_in_ranges(c, [(48, 57)]) for c in self.els))

    def encode(self, enc='utf-8', errors='strict'):
        enc = enc.lower().replace('_', '-')
        out = []
        for i, c in enumerate(self.els):
            if _dec(_rng(c, 0, 0x7F)):
                out.append(c if isinstance(c, int) else z3.Extract(7, 0, c))
                continue
            if enc == 'ascii':
                if errors == 'strict':
                    raise UnicodeEncodeError('ascii', '?', i, i + 1, 'ordinal not in range(128)')
                if errors == 'replace':
                    out.append(63)
                    continue
                raise ZXError('encode errors=%s' % errors)
            if enc not in ('utf-8', 'utf8'):
                raise ZXError('encode(%s)' % enc)
            z = c if not isinstance(c, int) else z3.BitVecVal(c, CW)
            x8 = lambda e: z3.Extract(7, 0, e)
            if _dec(_rng(c, 0x80, 0x7FF)):
                out += [x8(0xC0 | z3.LShR(z, 6)), x8(0x80 | (z & 0x3F))]
            elif _dec(_rng(c, 0xD800, 0xDFFF)):
                if errors == 'strict':
                    raise UnicodeEncodeError('utf-8', '?', i, i + 1, 'surrogates not allowed')
                raise ZXError('encode errors=%s with surrogates' % errors)
            elif _dec(_rng(c, 0x800, 0xFFFF)):
                out += [x8(0xE0 | z3.LShR(z, 12)), x8(0x80 | (z3.LShR(z, 6) & 0x3F)), x8(0x80 | (z & 0x3F))]
            else:
                out += [x8(0xF0 | z3.LShR(z, 18)), x8(0x80 | (z3.LShR(z, 12) & 0x3F)),
                        x8(0x80 | (z3.LShR(z, 6) & 0x3F)), x8(0x80 | (z & 0x3F))]
        return mkbytes(out)

    def splitlines(self, keepends=False):
        raise ZXError('splitlines on symbolic str')


def mkstr(els):
    els = [z3.simplify(e) if not isinstance(e, int) else e for e in els]
    els = [e.as_long() if (not isinstance(e, int) and z3.is_bv_value(e)) else e for e in els]
    if all(isinstance(e, int) for e in els):
        return ''.join(chr(e) for e in els)
    return SStr(els)


# ---------------------------------------------------------------------
def fresh_bytes(name, n):
    ex = cur()
    return mkbytes([ex.fresh('%s_%d' % (name, i), z3.BitVecSort(8)) for i in range(n)])


def fresh_str(name, n, ranges=((0, 0x10FFFF),), exclude=()):
    """symbolic str of n chars, each within `ranges` (inclusive) and different from `exclude` code points;
    surrogates are always excluded (they cannot occur in decoded text)."""
    ex = cur()
    els = []
    for i in range(n):
        c = ex.fresh('%s_%d' % (name, i), z3.BitVecSort(CW))
        ex.assume(z3.And(_in_ranges(c, list(ranges)), z3.Not(_in_ranges(c, [(0xD800, 0xDFFF)])),
                         *[c != x for x in exclude]))
        els.append(c)
    return mkstr(els)


def to_els(x):
    if isinstance(x, (SStr, SBytes)):
        return list(x.els)
    if isinstance(x, str):
        return [ord(c) for c in x]
    if isinstance(x, (bytes, bytearray)):
        return list(x)
    raise ZXError('not a sequence: %r' % (x,))
