"""Which properties are claimed, with the level text for MANIFEST.json."""
ZXT = 'solver-based bounded symbolic execution of the real source (z3), all paths within stated bounds, counterexamples replayed'

CLAIMED = {
    'C10': {
        'engines': 'ZX+P2Z',
        'technique': 'symbolic execution of the real codec/framing functions on z3 bit-vector proxies (all values per bit-length/shape) + SMT-LIB translation of the padding arithmetic (unbounded) + inductive CRC step lemma',
        'text': 'For every value within the stated shapes (all integers of each listed bit length, all byte/str contents of each listed length) '
                'the solver shows encode/decode round trips, canonical mpint form, RFC 4253 framing and CRC agreement with a bitwise '
                'reference; the send_packet/read_packet length arithmetic is proved for every payload length (linear integer SMT, z3+cvc5); '
                'CRC-32 == reference for every length by an inductive step from an arbitrary 32-bit state.',
        'note': 'Bounded by shape lists in props/c10.py META; Python ints modelled as signed bit-vectors (width = bits+80) with overflow guards; '
                'struct/io/binascii replaced by pure-Python models validated on every path against the pristine code; trusted: CPython, z3, cvc5.',
    },
}

NOT_APPLICABLE = {
}
