"""Which properties are claimed, with the level text for MANIFEST.json."""
ZXT = 'solver-based bounded symbolic execution of the real source (z3), all paths within stated bounds, counterexamples replayed'

CLAIMED = {
    'C10': {
        'engines': 'ZX+P2Z',
        'technique': 'symbolic execution of the real codec/framing functions on z3 bit-vector proxies (all values per bit-length/shape) + SMT-LIB translation of the padding arithmetic (unbounded) + inductive CRC step lemma',
        'text': 'For every value within the stated shapes (all integers of each listed bit length, all byte/str contents of each listed length) '
                'the solver shows encode/decode round trips, canonical mpint form, RFC 4253 framing and CRC agreement with a bitwise '
                'reference; the send_packet/read_packet length arithmetic is proved for every payload length (linear integer SMT, z3+cvc5); '
                'CRC-32 == reference for every length by an inductive step from an arbitrary 32-bit state.',
        'note': 'Bounded by shape lists in props/c10.py META; Python ints modelled as signed bit-vectors (width = bits+80) with overflow guards; '
                'struct/io/binascii replaced by pure-Python models validated on every path against the pristine code; trusted: CPython, z3, cvc5.',
    },
}

CLAIMED['C14'] = {
    'engines': 'ZX',
    'technique': 'symbolic execution of the real compare_version / Timeframe code and of the availability filter of get_recommendations over version strings with symbolic digits (regex model), oracle = component-wise numeric order',
    'text': 'For all version strings of the listed shapes (components x digits, every digit value) and each product, z3 shows that the verdict equals the '
            'component-wise numeric order, is antisymmetric and transitive, that the compatibility time frame takes numeric min/max, and that the real recommendation pass treats a synthetic row as available exactly when server version >= first version. The same availability verdict holds when the version is identified from the banner text and when another server of the product was assessed just before; one-digit versions with patch suffixes are ordered numerically.',
    'note': 'Bounded by version shapes in props/c14.py; regex engine replaced by a backtracking model validated per path; leading zeros and non-numeric versions outside.',
}
CLAIMED['C16'] = {
    'engines': 'ZX',
    'technique': 'symbolic execution of Banner.parse / get_banner / Software.parse over strings and byte streams with symbolic characters (regex model), all paths per shape',
    'text': 'For every banner line generated from the grammar within the length bounds (all printable characters), every arbitrary string of <=3..4 code points, '
            'every header/banner stream of the listed shapes and chunkings, the solver shows acceptance, exact part recovery, round-trip stability, '
            'sanitising, header separation (also through the whole audit() with reconnecting probes) and product/version extraction. The report carries the non-ASCII flag line for protocol 1.5, 1.99 and 2.0 alike; header text is shown in printable ASCII only and never appears in the report of the peer audited next.',
    'note': 'Bounded by shapes in props/c16.py META; socket replaced by scripted chunks; regex/bytearray/io models validated per path.',
}
CLAIMED['C09'] = {
    'engines': 'ZX',
    'technique': 'symbolic execution of the real parsers and of the whole audit() against a scripted network whose bytes are solver variables; exception classes leaving each stage compared with what call sites catch',
    'text': 'For every byte string within the bounds at every stage (banner loop, packet reader, KEXINIT/PKM parsers, KEX reply, GEX group, and the real audit() with '
            'arbitrary first-connection bytes, arbitrary probe replies, arbitrary version text after a recognised product name, a KEXINIT cut inside its padding) z3 explores all paths: only documented end states occur, loops consume input '
            '(recv calls <= chunks+1), malformed handshakes give status 1 without report, probe misbehaviour leaves a complete report. A KEXINIT lacking its last 1..5 payload bytes is not a handshake; every connection the tool opens starts with a well-framed KEXINIT; a group-exchange modulus above 8192 bits is refused before any exponentiation.',
    'note': 'Bounded stream lengths (props/c09.py META); wall-clock replaced by progress bound + OS timeout contract; randrange/pow/CRC stubs as listed; rate-test phase in C19.',
}

CLAIMED['C06'] = {
    'engines': 'ZX',
    'technique': 'symbolic execution of the real Policy.evaluate over symbolic policy/peer lists, flags and sizes; equivalence with an independent specification decided by z3',
    'text': 'For all policy/peer lists of 0..3 names (symbolic characters, strict-kex markers placed), both allow_* flags, optional host keys, all sizes of the '
            'listed digit counts and CA type combinations, z3 shows verdict == specification, passed iff no errors, errors name exactly the failing fields '
            'with expected/actual values, field interactions are conjunctions, and the monotonicity clauses. A deep copy of the configuration (as each worker task makes it) evaluates like the original policy; a policy file in the deprecated size-directive format loads and every size comes from its own line.',
    'note': 'Bounded list lengths/name lengths (props/c06.py META); every evaluation starts from an empty error list: checked through two worker tasks sharing one configuration (O10).',
}

CLAIMED['C05'] = {
    'engines': 'ZX',
    'technique': 'symbolic execution of Policy.create -> Policy(policy_data) -> evaluate over peers with symbolic names/sizes; single-perturbation drift harnesses; finite exhaustive run over the built-in table',
    'text': 'For every peer within the bounds (names over the whole RFC 4251 alphabet, sizes of the listed digit counts, both roles) z3 shows the generated '
            'policy loads, reproduces every field, passes on the same peer (also with empty name-lists), and fails naming the field for every single-position perturbation; an arbitrary '
            'built-in-shaped policy and every current built-in pass on the peer mirrored from them; the whole tool run twice through main() (-M, then -P on the captured file) passes on the same '
            'scripted server and fails after one list or the group-exchange modulus drifted.',
    'note': 'json replaced by a token-preserving stub in the symbolic run (real json in the per-path pristine run); -M file writing outside.',
}

CLAIMED['C03'] = {
    'engines': 'ZX',
    'technique': 'symbolic execution of output_algorithm / build_struct / algorithm_lookup / output() on an arbitrary table row with symbolic notes and on symbolic unknown and gss-* names; three views compared against the row by z3',
    'text': 'For an ARBITRARY row of the documented shape (absent/empty/1-2 notes per level with symbolic texts, eight version forms) z3 shows text notes == JSON notes == '
            'lookup notes == row content (also for a row whose NAME is symbolic over both letter cases, digits and punctuation), table unchanged, independent of padding/batch/verbose/prior status; symbolic unknown names are flagged in text and JSON and never '
            'rendered good; gss-<base>-<token> uses the wildcard row in text and JSON; a known name keeps its notes at every position among symbolic neighbours in both roles. A name listed twice gets the row\'s notes on both JSON entries and rendering leaves the table row unchanged; --lookup of an instantiated gss name uses the wildcard row.',
    'note': 'Note texts are 1 symbolic char, names <=3 symbolic chars (props/c03.py META); json.dumps captured, its text rendering trusted; rows of the real table have the quantified shape by C17.',
}
CLAIMED['C01'] = {
    'engines': 'ZX',
    'technique': 'symbolic execution of SSH2_Kex.parse on an independently encoded KEXINIT and of the real output()/build_struct on peers with symbolic names; all 2^64 SSH-1 mask pairs through the decoder',
    'text': 'For all name-lists within the bounds z3 shows: wire -> ten lists field by field; text report and JSON document list per category exactly the advertised '
            'non-empty names in order (unknown symbolic names, table names, duplicates, empty lists), compression and banner as sent, role key; SSH-1 masks decode to '
            'exactly the set bits and are shown in text and JSON; a name of arbitrary (non-UTF-8) bytes is never shortened and leaves its neighbours intact; a client audit '
            'shows the same advertised direction in text and JSON; through the whole audit() with reconnecting probes the names and compression methods stay as sent.',
    'note': 'Bounded list/name lengths (props/c01.py META); client-to-server lists are not reported by the tool (documented source is server-to-client); json.dumps captured.',
}

CLAIMED['C02'] = {
    'engines': 'ZX',
    'technique': 'symbolic execution of the real output()/audit()/evaluate_policy on severity mixes with symbolic unknown names, symbolic output options, scripted broken handshakes and a symbolic policy',
    'text': 'For every ordering of failure/warning/clean/unknown algorithms within the bounds and all output options z3 shows status == fold of the rendered severities and '
            'independence from batch/verbose/JSON/level; seventeen broken-handshake stages give status 1 and no report (no JSON document listing algorithms) in single and target-list mode; policy mode maps verdict to 0/3; '
            'the status also counts the failure/warning lines of the general section (SSH-1 reports, 1.99 banners, non-ASCII banners). The status equals the fold of every failure/warning-level line of the report, also in the presence of a 1.99 banner together with a non-ASCII banner or the -2 option.',
    'note': 'Severity classes are recomputed from the current table; unknown names are 2 symbolic chars; socket and json.dumps stubbed; C09 covers further malformed input.',
}
CLAIMED['C15'] = {
    'engines': 'ZX',
    'technique': 'symbolic execution of two/three renderings of the same peer under symbolic option vectors and of OutputBuffer call sequences; equality of status/findings and the subsequence property decided per path',
    'text': 'For an arbitrary row with symbolic notes and a symbolic neighbour, all batch/verbose pairs and minimum levels: status identical, findings identical at level info, '
            'a higher level yields a subsequence that keeps every line at or above it; JSON notes == text findings for table-known names (also for one name in two categories), one JSON document; '
            'the real main() with -j/-jj under symbolic -v/-b/-l prints exactly one JSON document and both forms parse to the same value; OutputBuffer keeps '
            'exactly the calls at or above the level.',
    'note': 'Byte-identity under different hash seeds is decided through a model of what a seed can change - the iteration order of sets (every order for sets of <= 4 elements) - and a '
            'difference is confirmed natively under real PYTHONHASHSEED values before it is reported; CPython string hashing itself is not modelled. '
            'Compact-vs-indented equality is checked on the concrete documents of each explored path (json library trusted). Colours disabled in harnesses.',
}

CLAIMED['C04'] = {
    'engines': 'ZX',
    'technique': 'symbolic execution of the real post_process_findings and output() on cipher/MAC lists instantiated with table names and symbolic tokens of vulnerable and near-miss shape; table diff against the pristine master table; oracle = published boolean rule',
    'text': 'For role x marker x cipher forms x MAC forms within the bounds z3 shows: without the role\'s marker exactly the ChaCha20 / (CBC and EtM) table names get exactly one '
            'Terrapin warning and no other row of any category changes; with the marker no row changes and one advisory names exactly those algorithms; disabled class members '
            'are suppressed and never recommended; text and JSON show the note on exactly those names, in server and client audits; the advisory note is shown also for a peer without other findings. A name listed twice carries the warning once and is named once in the advisory note.',
    'note': 'Token alphabet [a-z0-9-@], one symbolic token per name; decoy lists on the other direction make role confusion visible; decoys sit on the unreported (client-to-server) direction in both roles; known finding: unknown names of vulnerable shape cannot carry the note.',
}

CLAIMED['C13'] = {
    'engines': 'ZX',
    'technique': 'symbolic execution of the real report (output -> post-processing -> get_recommendations) for banners with symbolic version digits; the recommendation set is compared clause by clause with the ratings shown in the same document; availability oracle = numeric version comparison',
    'text': 'For every version of the listed shapes of each recognised product (and unrecognised/no software), four advertised server sets plus a symbolic unknown cipher, z3 explores '
            'all version-dependent paths of the real pass over the whole current table: removals are advertised and rated; rated-and-known algorithms are recommended for removal; '
            'critical iff failure; additions are clean, unadvertised, not cert/sk/pseudo and available; nothing twice; no additions for unrecognised software. SSH-1 reports (all 128 cipher masks): every rated cipher known for servers is recommended for removal and nothing else is.',
    'note': 'Advertised sets are concrete (4 sets), versions symbolic; relies on C14 (order) and C03 (ratings == rows); <10 warnings per row checked over the table.',
}

CLAIMED['C17'] = {
    'engines': 'TAB+z3',
    'technique': 'tables of the current tree extracted after import and asserted into z3 as finite-domain facts (String equalities, an uninterpreted failure-count function); negated consistency formulas checked unsat, sat models name the offending entry',
    'text': 'Exhaustive over the current tables: every name referenced by a built-in policy, the host-key probe table, the DH attack tables and the AST-harvested probe maps is a key of '
            'the right category; no built-in policy names an algorithm with a failure; every entry containing a branded primitive token carries a failure; every row has the '
            'documented shape; a peer configured per each built-in policy renders without a [fail] line (real output()).',
    'note': 'The bound is the tables as they stand; brand tokens are a candidate list filtered by the table itself; known findings: SSH-1 table entries 3des/blowfish/idea carry no failure.',
}

CLAIMED['C18'] = {
    'engines': 'ZX',
    'technique': 'symbolic execution of parse_host_and_port, process_commandline (argparse stubbed, option values symbolic), SSH_Socket._resolve/connect under an arbitrary resolver answer, and the target labels',
    'text': 'For every spelling within the bounds (symbolic host characters, IPv6-like groups, port digits) z3 shows the parsed pair equals the spelling\'s meaning; command line and '
            'targets file yield exactly those pairs, ports outside 1..65535 are rejected before any socket exists; for every resolver answer of <=3 entries and every preference '
            'only requested families are dialled, in order, with exactly (host, port); text and JSON labels denote the same pair; the real main() resolves and dials, in target order, exactly the targets as written (command line incl. -p with host:port / [IPv6], targets files mixing line forms); a port outside 1..65535 in any line is rejected before any connection; a listed SSH-1-only target keeps its label. The connection-rate phase picks the address the scan itself would dial first for every preference setting.',
    'note': 'argparse replaced by a stub returning the declared options; OS resolver replaced by FakeNet; label obligation uses 4 concrete host classes; O5 runs the real main() from the (stubbed) option namespace to the dialled endpoint.',
}

CLAIMED['C11'] = {
    'engines': 'ZX+P2Z',
    'technique': 'symbolic execution of KexDH.recv_reply on well-formed replies with symbolic field contents, of HostKeyTest.perform_test with symbolic measured sizes, and of the reporting code; SMT-LIB translation of __adjust_key_size (unbounded)',
    'text': 'For every content of well-formed replies of the listed layouts/lengths the recorded key size, CA type and CA size equal the presented ones and the blob is returned '
            'unchanged; __adjust_key_size is proved for every byte length; for all measured sizes of the listed digit counts the table edits equal the 2048/3072 (224/256 ECC) '
            'threshold rule on every RSA-family member and no other row; suffixes, JSON fields and fingerprint entry rules match. Through the whole audit() with an answered probe the JSON document reports the key size on every advertised RSA name, one ssh-rsa fingerprint pair equal to hashlib\'s fingerprints of the presented blob, and the threshold notes.',
    'note': 'Field lengths from a shape list (moduli 65..513 bytes quick); stub socket/key-exchange objects in perform_test; hashlib trusted (concrete blobs); off-grid moduli outside.',
}
CLAIMED['C12'] = {
    'engines': 'ZX',
    'technique': 'symbolic execution of the real GEXTest.run against a server model whose moduli set is a symbolic 9-bit have-set (four selection styles), of send_init_gex/get_dh_modulus_size on moduli of exact bit length, and of the OpenSSH-2048 post-processing',
    'text': 'For ALL 512 subsets of the nine standard sizes x 4 monotone selection styles (strict, round-up, OpenSSH fallback, nearest-size with out-of-range replies) x sha1/sha256 x OpenSSH/other: recorded size == smallest modulus handed out over the fixed '
            'probe sequence (OpenSSH 2048: the follow-up reply plus note), failure < 2048, warning 2048..3071, nothing from 3072, sha1 keeps a failure, <= 9 probes, no other row '
            'touched; measured size == bit length for all moduli of the listed bit lengths; note/suppression iff OpenSSH and 2048 and sha256 advertised; with the real _send_init and group object an answered request reports the size and a following unanswered one reports none. MSG_DEBUG followed by a refusal yields no size; unpadded moduli with the top bit set are measured as unsigned numbers.',
    'note': 'the DH group object (and in the Loop variant GEXTest._send_init) replaced by the symbolic server model, LoopReal runs the real _send_init/reconnect; non-monotone servers outside (property quantifies over monotone policies); randrange/pow stubbed.',
}

CLAIMED['C19'] = {
    'engines': 'ZX',
    'technique': 'symbolic execution of the real probe drivers and of DHEat._dh_rate_test with socket/select/time replaced by symbolic models: the clock is a solver variable (arbitrary non-decreasing instants), every per-connection outcome vector is explored',
    'text': 'For all outcome vectors within the bounds: host-key phase opens at most one connection per advertised probed type (also when the list repeats names), never two at once, one KEXINIT and one key-exchange '
            'request per connection; GEX phase <= 9 connections per algorithm, one request each, all closed; audit() runs the rate check exactly when not skipped with limits '
            '(1.5 s, 38, 3), never the DoS features, closes every socket and retries over SSH-1 at most once whatever each connection answers; the rate-check loop under a symbolic clock keeps concurrent sockets <= limit, attempts <= max + '
            'concurrent, closes everything and terminates; at the SHIPPED limits (1.5 s, 38, 3) the same follows for runs of any length from solver-checked inductive steps of the three loops of _dh_rate_test '
            '(invariant: attempts <= 38, tracked <= 3, opened + tracked <= attempts, open == tracked; progress in a well-founded order). For every combination of the ordinary options the DoS / flood features stay off and --skip-rate-test reaches the per-target configuration.',
    'note': 'Whole runs of the rate loop are explored for small parameter values (max 1..2, concurrent 1..2, 0.2 s) and <= 8 select rounds; the shipped parameters are covered by the inductive steps (composition is a paper argument, base case syntactic); select contract: an empty result blocked for the timeout; probe sockets/key-exchange groups are stubs.',
}

CLAIMED['C07'] = {
    'engines': 'ZX',
    'technique': 'reduction of the schedule quantifier to two solver-checked lemmas over the real code: a footprint lemma (recording map, symbolic presence pattern of three thread ids) and an inductive worker step on a reused thread (archetype pairs incl. a status-0 target and answered host-key / group-exchange probes, with a symbolic name riding along), plus configuration isolation and the real main() target loop',
    'text': 'Footprint: every table access of get_db/thread_exit and of all six in-place editors uses only the calling thread\'s key, other threads\' tables unchanged, for every '
            'presence pattern. Step: a worker task that follows any archetype on the same thread renders the next target exactly as a fresh run (status, text, JSON) and leaves no '
            'table behind. Config: a shared policy/configuration is untouched by tasks. Disjoint keys + GIL-atomic dict operations => interleavings commute to sequential histories. After a task every process-wide container of the tool equals a fresh process\'s state (state diff), the task\'s configuration equals the shared configuration in every setting, and the reference run of the step is made after a full reset so that no cache can hide a stale entry.',
    'note': 'Real thread scheduling is NOT executed; the commutation argument is reasoning by reading, stated in DESIGN.md; socket/json/get_ident stubbed; three archetypes.',
}
CLAIMED['C08'] = {
    'engines': 'ZX',
    'technique': 'symbolic execution of the real main() aggregation loop with symbolic worker results and chosen completion orders, of target_worker_thread under every escape class, and of main()->worker->audit() on a scripted network with one failing target',
    'text': 'For N <= 3 targets with symbolic statuses/texts and every completion order: one block per target, exit status = highest ranked code, JSON stdout = bracketed join; '
            'the worker returns a pair for every ordinary exception class; with a healthy and a failing target (ten archetypes, both positions) both yield a block in text mode and one JSON array element naming its target in JSON mode; an unreachable target is a connection error, not an internal error; nothing is printed outside the per-target blocks.',
    'note': 'ThreadPoolExecutor/as_completed replaced by a stub (each task once, chosen order); the two defects first recorded here (SystemExit from the packet reader, raw error text inside the JSON array) are repaired by fix: commits.',
}

# additions of the closing hours (sixth seeding round and its side remarks), appended to the texts above
_EXTRA = {
    'C07': 'The state comparison includes mutable default arguments of every function and method; a target whose group-exchange probes get no answer shows no size of an earlier target.',
    'C05': 'The round trip also holds for client audits (-c -M, then -c -P) through the real listening socket path.',
    'C02': 'Client audits fold the same way; a policy audit of an out-dated built-in policy still maps passed/failed to 0/3.',
    'C03': 'A name that lives in two categories is looked up in both with each category\'s notes; unknown names of Terrapin-relevant shape stay unknown in every view.',
    'C04': 'With the whole table advertised at once exactly the rule\'s rows change (no row edited through another row).',
    'C08': 'Through the real command line a targets file of 1..3 lines yields one JSON array with one element per line; a host name that cannot be IDNA-encoded is a connection error; JSON carries no terminal colour codes; nothing a peer sends (packet text, pre-banner lines) can pass for the ruler between two blocks or for a target line; with the completion order reversed every error element names the target it is about.',
    'C09': 'SSH-1 masks with arbitrary unknown bits still give a complete report; a client audit whose client stalls at any stage terminates (the accepted socket carries the configured timeout); algorithm names reach the terminal in printable ASCII only, in the recommendation lines too; debug packets in front of arbitrary first-connection bytes change nothing.',
    'C10': 'A packet is sent completely when the OS accepts only n bytes per call.',
    'C11': 'ECDSA host keys and certificates of the three NIST curves are measured by their own layout (256/384/521 bits) with CA type and size; RSA keys and CAs up to 16384 bits; a blob whose length fields exceed the received data is rejected; a failed first RSA probe falls back to the next family name; the master table is untouched.',
    'C12': 'If one probe of the sequence (any position) gets no answer the reported size is still the smallest modulus actually handed out, or none; moduli of 8191/8192 bits are measured.',
    'C13': 'The text report recommends exactly what the JSON report recommends; a second server with the same software and another configuration gets its own recommendations.',
    'C14': 'A portable OpenSSH release X.YpN (any digit N) is never older than release X.Y.',
    'C15': 'The exit status with -j/-jj equals the text report\'s (also for general-section findings); stdout stays one JSON document when the probe phases run into refused, silent or reset connections.',
    'C17': 'Lift: the real Policy.evaluate of every built-in policy rejects a peer that offers one extra algorithm rated as a failure (every such name, category and position).',
    'C18': 'Every spelling of the IP-version options (long, short, bundled, mixed) yields the requested order; the target label is shown at every output level, in policy reports too.',
    'C19': 'Probe connections that are reset, closed or silent before the banner, and names resolving to several addresses, keep the connection bounds; a socket whose shutdown() fails is still closed; a rate-check socket whose connect is refused at once is closed on the spot.',
}
for _k, _v in _EXTRA.items():
    CLAIMED[_k]['text'] = CLAIMED[_k]['text'].rstrip() + ' ' + _v

NOT_APPLICABLE = {
}
