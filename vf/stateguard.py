"""Process-state guard: every explored path / pristine run starts from the module state of a freshly started process.

All mutable class-level attributes (dict / list / set) of the classes of the repo's modules and all mutable module-level globals are snapshotted right
after loading and restored before each run.  This is what makes 'a fresh single-target invocation' a meaningful reference inside one checker process, and it
turns caches that survive between audits into observable differences (run A then B without reset vs. B after reset)."""
import copy
import types

_SNAP = {}


def _targets(M):
    for name in M.names():
        mod = M._mods[name]
        for k, v in list(vars(mod).items()):
            if k.startswith('__') or isinstance(v, (types.ModuleType, types.FunctionType, type)):
                continue
            if isinstance(v, (dict, list, set)):
                yield (mod, k, v)
        for k, cls in list(vars(mod).items()):
            if isinstance(cls, type) and getattr(cls, '__module__', None) == mod.__name__:
                for a, v in list(vars(cls).items()):
                    if a.startswith('__') and a.endswith('__'):
                        continue
                    if isinstance(v, (dict, list, set)):
                        yield (cls, a, v)


def _fn_defaults(M):
    """mutable default argument values of the functions and methods of the repo's modules (a default dict/list/set is process-wide state, too)"""
    seen = set()
    for name in M.names():
        mod = M._mods[name]
        fns = []
        for k, v in list(vars(mod).items()):
            if isinstance(v, types.FunctionType) and getattr(v, '__module__', None) == mod.__name__:
                fns.append((k, v))
            elif isinstance(v, type) and getattr(v, '__module__', None) == mod.__name__:
                for a, m in list(vars(v).items()):
                    f = m.__func__ if isinstance(m, (staticmethod, classmethod)) else m
                    if isinstance(f, types.FunctionType):
                        fns.append(('%s.%s' % (k, a), f))
        for qn, f in fns:
            if id(f) in seen:
                continue
            seen.add(id(f))
            for i, d in enumerate(f.__defaults__ or ()):
                if isinstance(d, (dict, list, set)):
                    yield ('%s.%s' % (getattr(mod, '__name__', name), qn), f, i, d)
            for kk, d in (f.__kwdefaults__ or {}).items():
                if isinstance(d, (dict, list, set)):
                    yield ('%s.%s' % (getattr(mod, '__name__', name), qn), f, kk, d)


_DSNAP = {}


def snapshot(M):
    _DSNAP[M.kind] = [(qn, f, i, copy.deepcopy(d)) for qn, f, i, d in _fn_defaults(M)]
    snap = []
    for owner, attr, val in _targets(M):
        try:
            snap.append((owner, attr, copy.deepcopy(val)))
        except Exception:   # noqa
            pass
    _SNAP[M.kind] = snap


def restore(M):
    cur_defaults = {(id(f), i): d for _, f, i, d in _fn_defaults(M)}
    for qn, f, i, val in _DSNAP.get(M.kind, []):
        d = cur_defaults.get((id(f), i))
        fresh = copy.deepcopy(val)
        if isinstance(d, dict):
            d.clear()
            d.update(fresh)
        elif isinstance(d, list):
            d[:] = fresh
        elif isinstance(d, set):
            d.clear()
            d.update(fresh)
    for owner, attr, val in _SNAP.get(M.kind, []):
        cur = owner.__dict__.get(attr) if isinstance(owner, type) else getattr(owner, attr, None)
        fresh = copy.deepcopy(val)
        # keep object identity where possible (other modules may hold a reference to the same container)
        if isinstance(cur, dict) and isinstance(fresh, dict):
            cur.clear()
            cur.update(fresh)
        elif isinstance(cur, list) and isinstance(fresh, list):
            cur[:] = fresh
        elif isinstance(cur, set) and isinstance(fresh, set):
            cur.clear()
            cur.update(fresh)
        else:
            setattr(owner, attr, fresh)
    # attributes that did not exist at load time (a cache created lazily on a class) are removed
    known = {(id(o), a) for o, a, _ in _SNAP.get(M.kind, [])}
    for owner, attr, val in list(_targets(M)):
        if (id(owner), attr) not in known and isinstance(owner, type):
            try:
                delattr(owner, attr)
            except Exception:   # noqa
                pass


def diff(M, ignore=()):
    """names of the process-wide containers (module globals, class attributes) whose content differs from the state of a freshly started process, plus containers
    that did not exist then"""
    out = []
    known = set()
    for owner, attr, val in _SNAP.get(M.kind, []):
        known.add((id(owner), attr))
        name = '%s.%s' % (getattr(owner, '__name__', str(owner)), attr)
        if name in ignore:
            continue
        cur = owner.__dict__.get(attr) if isinstance(owner, type) else getattr(owner, attr, None)
        try:
            same = (cur == val)
        except Exception:   # noqa
            same = False
        if not same:
            out.append(name)
    for owner, attr, val in list(_targets(M)):
        if (id(owner), attr) not in known:
            out.append('%s.%s (new)' % (getattr(owner, '__name__', str(owner)), attr))
    cur_defaults = {(id(f), i): d for _, f, i, d in _fn_defaults(M)}
    for qn, f, i, val in _DSNAP.get(M.kind, []):
        name = '%s(default %s)' % (qn, i)
        if name in ignore:
            continue
        try:
            same = cur_defaults.get((id(f), i)) == val
        except Exception:   # noqa
            same = False
        if not same:
            out.append(name)
    return sorted(out)
