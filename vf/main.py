"""check driver:  check <PROPERTY> [--tier quick|thorough] [--replay FILE] [--only SUBSTR] [--jobs N]

exit 0  all obligations discharged (only listed known findings seen)
exit 1  VIOLATION property=<id> replay=<path>   (replayed on the pristine code, not listed)
exit 2  inconclusive / harness error (never counted as success)
"""
import argparse
import importlib
import json
import multiprocessing as mp
import os
import random
import sys
import time

ROOT = os.path.dirname(os.path.dirname(os.path.abspath(__file__)))
sys.path.insert(0, ROOT)
sys.setrecursionlimit(20000)

from vf import harness as H  # noqa: E402

_TASKS = []


def _work(i):
    t = _TASKS[i]
    try:
        if isinstance(t, H.Harness):
            return H.run_zx(t)
        return t()  # callable task (P2Z / TAB / XH obligations) returning a result dict
    except BaseException as e:  # noqa
        import traceback
        return {'harness': getattr(t, 'fullname', getattr(t, '__name__', str(t))), 'ob': getattr(t, 'oid', '?'), 'status': 'harness_error',
                'error': 'worker crashed: %s: %s' % (type(e).__name__, e), 'trace': traceback.format_exc()[-3000:],
                'violations': [], 'paths': 0, 'decisions': 0, 'queries': 0, 'solver_time_s': 0, 'xval': 0, 'replayed': 0,
                'asserts': 0, 'sample': None}


def load_known():
    p = os.path.join(ROOT, 'known_findings.json')
    if not os.path.exists(p):
        return []
    with open(p) as f:
        return json.load(f).get('findings', [])


def match_known(v, known):
    for k in known:
        if k.get('status') != 'known':
            continue
        if k['property'] == v['ob'].split('/')[0] and k['ob'] == v['ob'] and k['label'] == v['label'] and k['class'] == v['class']:
            return k
    return None


def main(argv=None):
    ap = argparse.ArgumentParser()
    ap.add_argument('prop')
    ap.add_argument('--tier', default=os.environ.get('VERIF_TIER', 'quick'), choices=['quick', 'thorough'])
    ap.add_argument('--replay')
    ap.add_argument('--only')
    ap.add_argument('--jobs', type=int, default=int(os.environ.get('VERIF_JOBS', '16')))
    ap.add_argument('--no-evidence', action='store_true')
    ap.add_argument('-v', action='store_true')
    a = ap.parse_args(argv)
    pid = a.prop.upper()
    seed = int(os.environ.get('VERIF_SEED', '0') or 0)
    mod = importlib.import_module('props.' + pid.lower())

    if a.replay:
        return do_replay(mod, pid, a.replay)

    t0 = time.time()
    H.mods()  # regenerate instrumented + pristine modules from /repo's current tree (before fork)
    tasks = list(mod.tasks(a.tier))
    if a.only:
        tasks = [t for t in tasks if a.only in getattr(t, 'fullname', getattr(t, '__name__', ''))]
    random.Random(seed).shuffle(tasks)   # seed only permutes scheduling order
    # long tasks first when they say so
    tasks.sort(key=lambda t: -getattr(t, 'cost', 1))
    global _TASKS
    _TASKS = tasks
    results = []
    if a.jobs <= 1 or len(tasks) <= 1:
        for i in range(len(tasks)):
            results.append(_work(i))
    else:
        ctx = mp.get_context('fork')
        with ctx.Pool(min(a.jobs, len(tasks))) as pool:
            for r in pool.imap_unordered(_work, range(len(tasks)), chunksize=1):
                results.append(r)
                if a.v:
                    print('  [%s] %s paths=%s viol=%d %.1fs %s' % (r['status'], r['harness'], r.get('paths'), len(r['violations']),
                                                               r.get('wall_s', 0), r.get('error') or ''), flush=True)
    results.sort(key=lambda r: r['harness'])
    wall = time.time() - t0
    return report(mod, pid, a, seed, results, wall)


def report(mod, pid, a, seed, results, wall):
    known = load_known()
    bad = [r for r in results if r['status'] != 'ok']
    viols = [v for r in results for v in r['violations']]
    unlisted, listed = [], {}
    for v in viols:
        k = match_known(v, known)
        if k is None:
            unlisted.append(v)
        else:
            listed.setdefault((k['ob'], k['label'], k['class']), (k, v))
    for (ob, label, cls), (k, v) in sorted(listed.items()):
        print('KNOWN-FINDING: property=%s %s [%s %s/%s]' % (pid, k['what'], ob, label, cls))
    rc = 0
    replay_paths = []
    if unlisted:
        rc = 1
        d = os.path.join(ROOT, 'replays', pid)
        os.makedirs(d, exist_ok=True)
        seen = set()
        for v in unlisted:
            key = (v['ob'], v['label'], v['class'])
            if key in seen:
                continue
            seen.add(key)
            p = os.path.join(d, '%s-%s-%s.json' % (v['ob'].replace('/', '_'), v['label'], H.witness_hash(v['witness'])))
            with open(p, 'w') as f:
                json.dump({'property': pid, 'ob': v['ob'], 'harness': v['harness'], 'params': v['params'], 'label': v['label'],
                           'class': v['class'], 'witness': v['witness']}, f, indent=1, sort_keys=True)
            replay_paths.append(p)
            print('VIOLATION property=%s replay=%s' % (pid, p))
            print('  obligation=%s label=%s class=%s witness=%s' % (v['ob'], v['label'], v['class'], json.dumps(v['witness'], default=str)[:600]))
    for r in bad:
        print('INCONCLUSIVE obligation=%s status=%s reason=%s' % (r['harness'], r['status'], r.get('error')))
        if r.get('trace') and (a.v or os.environ.get('VERIF_TRACE')):
            print(r['trace'])
    if bad and rc == 0:
        rc = 2
    meta = getattr(mod, 'META', {})
    nob = len(results)
    ndis = len([r for r in results if r['status'] == 'ok' and not [v for v in r['violations'] if match_known(v, known) is None]])
    samples = [dict(harness=r['harness'], **(r['sample'] or {})) for r in results if r.get('sample')][:12]
    if not samples:
        samples = [{'harness': r['harness'], 'note': r.get('note', 'no sample')} for r in results[:5]]
    ev = {
        'property_id': pid, 'tier': a.tier, 'seed': seed, 'level': 'model_checking',
        'coverage': {
            'states': max(1, sum(r.get('paths', 0) for r in results)),
            'transitions': max(1, sum(r.get('decisions', 0) for r in results)),
            'traces_validated_against_impl': sum(r.get('xval', 0) + r.get('replayed', 0) for r in results),
            'samples': samples,
            'obligations': nob, 'discharged': ndis, 'inconclusive': len(bad),
            'queries': sum(r.get('queries', 0) for r in results),
            'solver_time_s': round(sum(r.get('solver_time_s', 0) for r in results), 2),
            'assertions_reached': sum(r.get('asserts', 0) for r in results),
            'functions_encoded': meta.get('functions', []),
            'bounds': (meta.get('bounds', {}).get(a.tier, meta.get('bounds', {})) if isinstance(meta.get('bounds', {}), dict) else meta.get('bounds')),
            'outside_claim': meta.get('outside', []),
            'stubs': meta.get('stubs', []),
            'engines': meta.get('engines', ['ZX']),
            'exhaustive': False,
            'per_obligation': [{'harness': r['harness'], 'status': r['status'], 'paths': r.get('paths', 0), 'queries': r.get('queries', 0),
                                'solver_time_s': r.get('solver_time_s', 0), 'wall_s': r.get('wall_s', 0), 'violations': len(r['violations']),
                                **({'note': r['note']} if r.get('note') else {})} for r in results],
            'known_findings_seen': [{'ob': ob, 'label': label, 'class': cls} for (ob, label, cls) in sorted(listed)],
            'explanation': 'Real functions executed on z3-backed proxies (ZX) over the instrumented current source; every branch on '
                           'symbolic data decided by the solver, all feasible paths explored within the stated bounds; states=paths, '
                           'transitions=solver branch decisions; every path cross-validated against the pristine code.',
        },
        'assumptions': meta.get('assumptions', []),
        'wall_s': round(wall, 2),
        'violations': len(unlisted),
    }
    if not a.no_evidence and not a.only:
        os.makedirs(os.path.join(ROOT, 'evidence'), exist_ok=True)
        with open(os.path.join(ROOT, 'evidence', pid + '.json'), 'w') as f:
            json.dump(ev, f, indent=1, sort_keys=True, default=str)
    print('%s tier=%s obligations=%d discharged=%d inconclusive=%d paths=%d queries=%d solver=%.1fs wall=%.1fs known=%d violations=%d -> exit %d'
          % (pid, a.tier, nob, ndis, len(bad), ev['coverage']['states'], ev['coverage']['queries'], ev['coverage']['solver_time_s'], wall,
             len(listed), len(unlisted), rc))
    return rc


def do_replay(mod, pid, path):
    with open(path) as f:
        rec = json.load(f)
    h = mod.harness_by_name(rec['harness'], rec.get('params') or {})
    failed, desc = H.replay_native(h, rec['witness']['inputs'])
    print('replay %s on pristine /repo: oracle labels failing = %s' % (rec['harness'], failed))
    print(json.dumps(desc, default=str)[:2000])
    if rec['label'] in failed:
        print('VIOLATION property=%s replay=%s' % (pid, path))
        return 1
    print('not reproduced')
    return 0


if __name__ == '__main__':
    sys.exit(main())
