"""Harvest, from the CURRENT source, which exception classes each call site of a parser catches."""
import ast
import os
from . import harness as H

FILES = ['ssh_audit.py', 'hostkeytest.py', 'gextest.py', 'kexdh.py', 'ssh_socket.py', 'dheat.py']


def _handlers_of(try_node):
    out = set()
    for h in try_node.handlers:
        if h.type is None:
            out.add('BaseException')
        elif isinstance(h.type, ast.Tuple):
            for e in h.type.elts:
                out.add(ast.unparse(e).split('.')[-1])
        else:
            out.add(ast.unparse(h.type).split('.')[-1])
    return out


def call_sites(callee_suffix, files=None):
    """[(file, function, lineno, caught:set)] for every call whose dotted name ends with callee_suffix;
    `caught` is the union of handler classes of all enclosing try-bodies within the same function."""
    res = []
    for f in files or FILES:
        p = os.path.join(H.SRC, 'ssh_audit', f)
        tree = ast.parse(open(p).read())
        for fn in ast.walk(tree):
            if not isinstance(fn, (ast.FunctionDef, ast.AsyncFunctionDef)):
                continue

            def visit(node, caught):
                for ch in ast.iter_child_nodes(node):
                    if isinstance(ch, (ast.FunctionDef, ast.AsyncFunctionDef, ast.ClassDef)):
                        continue
                    if isinstance(ch, ast.Try):
                        inner = caught | _handlers_of(ch)
                        for st in ch.body:
                            visit_stmt(st, inner)
                        for part in (ch.handlers, ch.orelse, ch.finalbody):
                            for st in part:
                                visit(st, caught) if not isinstance(st, ast.ExceptHandler) else visit(st, caught)
                        continue
                    visit_stmt(ch, caught)

            def visit_stmt(node, caught):
                if isinstance(node, ast.Call) and ast.unparse(node.func).endswith(callee_suffix):
                    res.append((f, fn.name, node.lineno, frozenset(caught)))
                visit(node, caught)
            visit(fn, set())
    # de-duplicate (nested function walk may see a call twice)
    seen, out = set(), []
    for r in res:
        k = (r[0], r[2])
        if k in seen:
            continue
        seen.add(k)
        out.append(r)
    return out


def allowed(callee_suffix, files=None):
    """exception class names that EVERY call site catches ('Exception' means all ordinary exceptions)."""
    sites = call_sites(callee_suffix, files)
    if not sites:
        return None, []
    inter = None
    for s in sites:
        inter = set(s[3]) if inter is None else (inter & set(s[3])) if 'Exception' not in s[3] and 'Exception' not in inter \
            else (set(s[3]) if 'Exception' in inter else inter) if 'Exception' not in s[3] else inter
    return inter, sites


def is_allowed(exc_type_name, inter):
    if inter is None:
        return False
    if 'Exception' in inter or 'BaseException' in inter:
        return exc_type_name not in ('SystemExit', 'KeyboardInterrupt') or 'BaseException' in inter
    # struct.error's class name is 'error'
    names = set(inter)
    if 'error' in names or 'struct.error' in names:
        names.add('error')
    return exc_type_name in names
