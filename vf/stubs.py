"""Environment stubs shared by harnesses.  Each is part of the claim (listed in evidence)."""
import socket as _socket


class Hang(SystemExit):
    """the tool sits in a blocking call that nothing will ever end (a recv() on a stalled connection whose timeout was never set): reported as a run that
    does not terminate.  Derived from SystemExit so that no 'except Exception' of the tool swallows it."""

    def __init__(self, what):
        SystemExit.__init__(self, 'HANG: ' + what)


class ScriptSock:
    """socket stub: recv(n) delivers the scripted chunks in order (each at most n bytes is the harness's
    responsibility), then the scripted end event: 'close' -> b'', 'timeout' -> socket.timeout,
    'reset' -> ConnectionResetError.  send/sendall capture."""

    def __init__(self, chunks, end='close'):
        self.chunks = list(chunks)
        self.end = end
        self.sent = []
        self.recv_calls = 0
        self.closed = False
        self.timeout = None

    def recv(self, n):
        self.recv_calls += 1
        if self.recv_calls > 10000:
            raise RuntimeError('recv called more than 10000 times: no progress')
        if self.chunks:
            c = self.chunks.pop(0)
            if len(c) > n:
                self.chunks.insert(0, c[n:])
                c = c[:n]
            return c
        if self.end == 'close':
            return b''
        if self.end == 'timeout':
            # a stalled peer: the read ends with socket.timeout only on a socket that HAS a timeout; a blocking socket would wait for ever
            if getattr(self, 'needs_timeout', False) and self.timeout is None:
                raise Hang('recv() on a stalled connection without a timeout')
            raise _socket.timeout('timed out')
        if self.end == 'reset':
            raise ConnectionResetError(104, 'Connection reset by peer')
        raise RuntimeError('bad end event')

    def send(self, data):
        self.sent.append(data)
        return len(data)

    sendall = send

    def settimeout(self, t):
        self.timeout = t

    def shutdown(self, how):
        pass

    def close(self):
        self.closed = True


def ssh_socket(M, chunks, end='close', host='h', port=22):
    """a real SSH_Socket whose OS socket is the scripted stub (constructed directly; connect() not used)"""
    out = M.outputbuffer.OutputBuffer()
    s = M.ssh_socket.SSH_Socket(out, host, port)
    ss = ScriptSock(chunks, end)
    setattr(s, '_SSH_Socket__sock', ss)
    return s, ss, out
