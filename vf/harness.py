"""Harness abstraction and the ZX runner (explore, per-path cross-validation, counterexample replay)."""
import json
import hashlib
import time
import traceback

import zx
from zx.core import ZXError, Inconclusive, BoundExceeded

import os as _os
# /repo/src unless VERIF_REPO_SRC points at another checkout (used only by tools/seedcheck.py to test seeded changes in a scratch worktree)
SRC = _os.environ.get('VERIF_REPO_SRC', '/repo/src')
_MODS = {}


def mods():
    """(instrumented, pristine) module sets, regenerated from /repo's current source once per process"""
    if 'I' not in _MODS:
        from . import stateguard
        _MODS['I'] = zx.load_instrumented(SRC)
        _MODS['P'] = zx.load_pristine(SRC)
        stateguard.snapshot(_MODS['I'])
        stateguard.snapshot(_MODS['P'])
    return _MODS['I'], _MODS['P']


def fresh_process_state(M):
    """module/class level state as in a freshly started process"""
    from . import stateguard
    stateguard.restore(M)


class Exc:
    """observation of an exception leaving the code under test"""

    def __init__(self, e):
        self.type = type(e).__name__
        self.mod = type(e).__module__
        self.msg = None

    def __eq__(self, o):
        return isinstance(o, Exc) and o.type == self.type

    def __repr__(self):
        return 'Exc(%s)' % self.type


def guarded(fn, *a, **k):
    """run fn; return its value or Exc(...) for any Exception / SystemExit leaving it"""
    try:
        return fn(*a, **k)
    except Exception as e:  # noqa
        return Exc(e)
    except SystemExit as e:
        x = Exc(e)
        x.msg = e.code
        return x


class Harness:
    """One obligation instance (obligation x shape).

    inputs()            -> dict of symbolic inputs (called inside an exploration)
    run(M, inp)         -> observation; executes REAL code taken from module set M (instrumented or pristine)
    check(inp, obs)     -> iterable of (label, condition) ; condition is bool or SBool
    classify(inp, obs, label) -> short witness-class string used to match known findings
    """
    prop = None
    ob = None        # obligation id, e.g. 'O2'
    name = None      # instance name (shape)
    width = 64
    deadline_s = 600
    max_paths = 200000
    enum_cap = 80
    xval = True      # per-path cross validation against pristine code
    expect_paths_min = 1

    def params(self):
        return {}

    def inputs(self):
        raise NotImplementedError

    def run(self, M, inp):
        raise NotImplementedError

    def check(self, inp, obs):
        return []

    def classify(self, inp, obs, label):
        return label

    def obs_key(self, obs):
        """normalised, comparable form of an observation (for cross-validation)"""
        return obs

    def describe(self, inp, obs):
        return {'inputs': _jsonable(inp), 'observation': _jsonable(self.obs_key(obs))}

    @property
    def oid(self):
        return '%s/%s' % (self.prop, self.ob)

    @property
    def fullname(self):
        return '%s/%s:%s' % (self.prop, self.ob, self.name)


def _jsonable(x, depth=0):
    if isinstance(x, (bytes, bytearray)):
        return {'hex': bytes(x).hex()}
    if isinstance(x, (str, int, float, bool)) or x is None:
        return x
    if isinstance(x, Exc):
        return {'exception': x.type}
    if isinstance(x, (list, tuple)):
        return [_jsonable(y, depth + 1) for y in x]
    if isinstance(x, dict):
        return {str(k): _jsonable(v, depth + 1) for k, v in x.items()}
    if isinstance(x, set):
        return sorted(_jsonable(y) for y in x)
    return repr(x)


def _unjson(x):
    if isinstance(x, dict) and set(x.keys()) == {'hex'}:
        return bytes.fromhex(x['hex'])
    if isinstance(x, list):
        return [_unjson(y) for y in x]
    if isinstance(x, dict):
        return {k: _unjson(v) for k, v in x.items()}
    return x


def _eval_checks(h, inp, obs):
    """native evaluation of the oracle on concrete values -> list of failed labels"""
    failed = []
    for label, cond in h.check(inp, obs):
        if zx.is_sym(cond):
            raise ZXError('oracle returned a symbolic condition on concrete inputs')
        if not cond:
            failed.append(label)
    return failed


def run_zx(h):
    """Explore harness h.  Returns a result dict (JSON-able)."""
    MI, MP = mods()
    t0 = time.time()
    res = {'harness': h.fullname, 'ob': h.oid, 'params': h.params(), 'status': 'ok', 'violations': [], 'paths': 0,
           'decisions': 0, 'queries': 0, 'solver_time_s': 0.0, 'xval': 0, 'asserts': 0, 'sample': None, 'error': None,
           'replayed': 0}
    ex = zx.Explorer(width=h.width, deadline_s=h.deadline_s, max_paths=h.max_paths, enum_cap=h.enum_cap)
    nassert = [0]

    def body(e):
        fresh_process_state(MI)
        inp = h.inputs()
        obs = h.run(MI, inp)
        for label, cond in h.check(inp, obs):
            nassert[0] += 1
            if isinstance(cond, bool):
                if not cond:
                    e._path.violations.append((label, None))
            else:
                e.prove(cond, label)
        return inp, obs

    seen_viol = set()

    def on_path(pr):
        inp, obs = pr.value
        # (1) fidelity: pristine code on the model's concrete inputs must give the instantiated observation
        if h.xval:
            cinp = zx.ev(pr.model, inp)
            sym_obs = h.obs_key(zx.ev(pr.model, obs))
            fresh_process_state(MP)
            real_obs = h.obs_key(h.run(MP, cinp))
            if sym_obs != real_obs:
                raise ZXError('cross-validation mismatch in %s: inputs=%r symbolic=%r pristine=%r'
                              % (h.fullname, _jsonable(cinp), _jsonable(sym_obs), _jsonable(real_obs)))
            res['xval'] += 1
            if res['sample'] is None:
                res['sample'] = h.describe(cinp, real_obs)
        # (2) counterexamples: replay on pristine code, oracle evaluated natively
        for label, vm in pr.violations:
            m = vm if vm is not None else pr.model
            cinp = zx.ev(m, inp)
            fresh_process_state(MP)
            cobs = h.run(MP, cinp)
            failed = _eval_checks(h, cinp, cobs)
            res['replayed'] += 1
            if label not in failed:
                raise ZXError('counterexample for %s/%s did not reproduce on pristine code: %r'
                              % (h.fullname, label, _jsonable(cinp)))
            cls = h.classify(cinp, cobs, label)
            key = (label, cls)
            if key in seen_viol:
                continue
            seen_viol.add(key)
            res['violations'].append({'ob': h.oid, 'harness': h.fullname, 'label': label, 'class': cls,
                                      'params': h.params(), 'witness': h.describe(cinp, cobs)})
        pr.value = None
        pr.model = None
        pr.violations = []

    try:
        ex.explore(body, on_path=on_path)
        if ex.paths < h.expect_paths_min or nassert[0] == 0:
            res['status'] = 'inconclusive'
            res['error'] = 'vacuous: %d paths, %d assertions reached' % (ex.paths, nassert[0])
    except (Inconclusive, BoundExceeded) as e:
        res['status'] = 'inconclusive'
        res['error'] = '%s: %s' % (type(e).__name__, e)
    except ZXError as e:
        res['status'] = 'harness_error'
        res['error'] = '%s: %s' % (type(e).__name__, e)
        res['trace'] = traceback.format_exc()[-3000:]
    except Exception as e:  # harness bug
        res['status'] = 'harness_error'
        res['error'] = 'uncaught %s: %s' % (type(e).__name__, e)
        res['trace'] = traceback.format_exc()[-3000:]
    st = ex.stats()
    res.update(paths=st['paths'], decisions=st['decisions'], queries=st['queries'], solver_time_s=st['solver_time_s'],
               asserts=nassert[0], wall_s=round(time.time() - t0, 3))
    return res


def replay_native(h, winp):
    """re-run a stored witness against the pristine code; returns failed labels"""
    MI, MP = mods()
    cinp = _unjson(winp)
    fresh_process_state(MP)
    cobs = h.run(MP, cinp)
    return _eval_checks(h, cinp, cobs), h.describe(cinp, cobs)


def witness_hash(v):
    return hashlib.sha1(json.dumps(v, sort_keys=True, default=str).encode()).hexdigest()[:12]
