"""Extraction of a loop body (or statement range) of a function of the CURRENT source as a callable,
so that one iteration can be executed from an arbitrary symbolic pre-state (inductive step).
The extracted code is compiled twice: instrumented (for ZX) in the instrumented module's globals, and
verbatim in the pristine module's globals (for cross-validation / replay)."""
import ast
import os

from zx.instrument import _Tx
from . import harness as H

_CACHE = {}


class Drift(Exception):
    pass


def _find_fn(tree, qualname):
    node = tree
    for p in qualname.split('.'):
        nxt = None
        for ch in ast.iter_child_nodes(node):
            if isinstance(ch, (ast.ClassDef, ast.FunctionDef)) and ch.name == p:
                nxt = ch
                break
        if nxt is None:
            raise Drift('cannot find %s' % qualname)
        node = nxt
    return node


def loop_body(M, module, qualname, loop_no, args, results, kind=(ast.For, ast.While)):
    """callable f(**args) -> dict(results) executing ONE iteration body of the loop_no-th loop (document order)
    of module.qualname.  `args` are the names bound on entry (including the loop variable)."""
    key = (M.kind, module, qualname, loop_no, tuple(args), tuple(results))
    if key in _CACHE:
        return _CACHE[key]
    path = os.path.join(H.SRC, 'ssh_audit', module + '.py')
    tree = ast.parse(open(path).read())
    fn = _find_fn(tree, qualname)
    loops = [n for n in ast.walk(fn) if isinstance(n, kind)]
    loops.sort(key=lambda n: (n.lineno, n.col_offset))
    if loop_no >= len(loops):
        raise Drift('%s has only %d loops' % (qualname, len(loops)))
    lp = loops[loop_no]
    body = [s for s in lp.body]
    ret = ast.Return(value=ast.Dict(keys=[ast.Constant(r) for r in results], values=[ast.Name(id=r, ctx=ast.Load()) for r in results]))
    # `continue` / `break` inside a single extracted iteration end the iteration
    class _CB(ast.NodeTransformer):
        def visit_Continue(self, node):
            return ast.copy_location(ret, node)

        def visit_Break(self, node):
            return ast.copy_location(ret, node)

        def visit_For(self, node):
            return node

        def visit_While(self, node):
            return node
    body = [_CB().visit(s) for s in body]
    f = ast.FunctionDef(name='_extracted', args=ast.arguments(posonlyargs=[], args=[ast.arg(arg=a) for a in args], kwonlyargs=[],
                                                             kw_defaults=[], defaults=[]), body=body + [ret], decorator_list=[],
                        type_params=[])
    mod = ast.Module(body=[f], type_ignores=[])
    cls = qualname.split('.')[0] if '.' in qualname else None
    if cls:
        # manual private-name mangling (the extracted code is compiled outside the class body)
        class _Mg(ast.NodeTransformer):
            def visit_Attribute(self, node):
                self.generic_visit(node)
                if node.attr.startswith('__') and not node.attr.endswith('__'):
                    node.attr = '_' + cls.lstrip('_') + node.attr
                return node
        mod = _Mg().visit(mod)
    if M.kind == 'instrumented':
        mod = _Tx().visit(mod)
    ast.fix_missing_locations(mod)
    g = getattr(M, module).__dict__
    ns = {}
    exec(compile(mod, path + ':<extracted %s loop %d>' % (qualname, loop_no), 'exec'), g, ns)
    _CACHE[key] = ns['_extracted']
    return ns['_extracted']
