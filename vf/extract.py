"""Extraction of a loop body (or statement range) of a function of the CURRENT source as a callable,
so that one iteration can be executed from an arbitrary symbolic pre-state (inductive step).
The extracted code is compiled twice: instrumented (for ZX) in the instrumented module's globals, and
verbatim in the pristine module's globals (for cross-validation / replay)."""
import ast
import os

from zx.instrument import _Tx
from . import harness as H

_CACHE = {}


class Drift(Exception):
    pass


def _find_fn(tree, qualname):
    node = tree
    for p in qualname.split('.'):
        nxt = None
        for ch in ast.iter_child_nodes(node):
            if isinstance(ch, (ast.ClassDef, ast.FunctionDef)) and ch.name == p:
                nxt = ch
                break
        if nxt is None:
            raise Drift('cannot find %s' % qualname)
        node = nxt
    return node


def _loops(module, qualname, kind=(ast.For, ast.While)):
    path = os.path.join(H.SRC, 'ssh_audit', module + '.py')
    tree = ast.parse(open(path).read())
    fn = _find_fn(tree, qualname)
    loops = [n for n in ast.walk(fn) if isinstance(n, kind)]
    loops.sort(key=lambda n: (n.lineno, n.col_offset))
    return path, fn, loops


def find_loop(module, qualname, pred):
    """index (document order) of the first loop of module.qualname whose unparsed source satisfies pred(header_text, body_text)"""
    _, _, loops = _loops(module, qualname)
    for i, lp in enumerate(loops):
        head = ast.unparse(lp.test) if isinstance(lp, ast.While) else (ast.unparse(lp.target) + ' in ' + ast.unparse(lp.iter))
        if pred(head, '\n'.join(ast.unparse(x) for x in lp.body)):
            return i
    raise Drift('no loop of %s matches' % qualname)


def _compile(M, module, qualname, mod, path, tag):
    cls = qualname.split('.')[0] if '.' in qualname else None
    if cls:
        # manual private-name mangling (the extracted code is compiled outside the class body)
        class _Mg(ast.NodeTransformer):
            def visit_Attribute(self, node):
                self.generic_visit(node)
                if node.attr.startswith('__') and not node.attr.endswith('__'):
                    node.attr = '_' + cls.lstrip('_') + node.attr
                return node
        mod = _Mg().visit(mod)
    if M.kind == 'instrumented':
        mod = _Tx().visit(mod)
    ast.fix_missing_locations(mod)
    g = getattr(M, module).__dict__
    ns = {}
    exec(compile(mod, path + ':<extracted %s %s>' % (qualname, tag), 'exec'), g, ns)
    return ns


def loop_test(M, module, qualname, loop_no, args):
    """callable f(**args) -> value of the loop condition of the loop_no-th loop (a `while`)"""
    key = (M.kind, module, qualname, loop_no, tuple(args), 'test')
    if key in _CACHE:
        return _CACHE[key]
    path, fn, loops = _loops(module, qualname)
    lp = loops[loop_no]
    if not isinstance(lp, ast.While):
        raise Drift('loop %d of %s is not a while loop' % (loop_no, qualname))
    f = ast.FunctionDef(name='_extracted', args=ast.arguments(posonlyargs=[], args=[ast.arg(arg=a) for a in args], kwonlyargs=[], kw_defaults=[], defaults=[]),
                        body=[ast.Return(value=lp.test)], decorator_list=[], type_params=[])
    ns = _compile(M, module, qualname, ast.Module(body=[f], type_ignores=[]), path, 'loop %d test' % loop_no)
    _CACHE[key] = ns['_extracted']
    return ns['_extracted']


def nested_def(M, module, qualname, name):
    """the function `name` defined inside module.qualname, compiled stand-alone in the module's globals (it must not use the enclosing function's locals)"""
    key = (M.kind, module, qualname, name, 'nested')
    if key in _CACHE:
        return _CACHE[key]
    path, fn, _ = _loops(module, qualname)
    defs = [n for n in fn.body if isinstance(n, ast.FunctionDef) and n.name == name]
    if not defs:
        raise Drift('%s has no nested function %s' % (qualname, name))
    ns = _compile(M, module, qualname, ast.Module(body=[defs[0]], type_ignores=[]), path, 'nested ' + name)
    _CACHE[key] = ns[name]
    return ns[name]


def loop_body(M, module, qualname, loop_no, args, results, kind=(ast.For, ast.While), break_flag=None, replace=None):
    """callable f(**args) -> dict(results) executing ONE iteration body of the loop_no-th loop (document order)
    of module.qualname.  `args` are the names bound on entry (including the loop variable).
    break_flag: name of an extra result that is True when the iteration ended in `break`.
    replace: {loop index: (callable arg name, [input names], [output names])} - a nested loop replaced by `outs = fn(ins)` (its summary)."""
    key = (M.kind, module, qualname, loop_no, tuple(args), tuple(results), break_flag, repr(replace))
    if key in _CACHE:
        return _CACHE[key]
    path, fn, loops = _loops(module, qualname, kind)
    if loop_no >= len(loops):
        raise Drift('%s has only %d loops' % (qualname, len(loops)))
    lp = loops[loop_no]
    body = [s for s in lp.body]

    def mkret(broke):
        keys = [ast.Constant(r) for r in results]
        vals = [ast.Name(id=r, ctx=ast.Load()) for r in results]
        if break_flag:
            keys.append(ast.Constant(break_flag))
            vals.append(ast.Constant(broke))
        return ast.Return(value=ast.Dict(keys=keys, values=vals))
    ret = mkret(False)
    repl_nodes = {id(loops[i]): spec for i, spec in (replace or {}).items()}

    # `continue` / `break` inside a single extracted iteration end the iteration
    class _CB(ast.NodeTransformer):
        def visit_Continue(self, node):
            return ast.copy_location(mkret(False), node)

        def visit_Break(self, node):
            return ast.copy_location(mkret(True), node)

        def _nested(self, node):
            if id(node) in repl_nodes:
                fname, ins, outs = repl_nodes[id(node)]
                call = ast.Call(func=ast.Name(id=fname, ctx=ast.Load()), args=[ast.Name(id=x, ctx=ast.Load()) for x in ins], keywords=[])
                tgt = ast.Name(id=outs[0], ctx=ast.Store()) if len(outs) == 1 else ast.Tuple(elts=[ast.Name(id=x, ctx=ast.Store()) for x in outs], ctx=ast.Store())
                return ast.copy_location(ast.Assign(targets=[tgt], value=call), node)
            return node

        def visit_For(self, node):
            return self._nested(node)

        def visit_While(self, node):
            return self._nested(node)
    body = [_CB().visit(s) for s in body]
    f = ast.FunctionDef(name='_extracted', args=ast.arguments(posonlyargs=[], args=[ast.arg(arg=a) for a in args], kwonlyargs=[],
                                                             kw_defaults=[], defaults=[]), body=body + [ret], decorator_list=[],
                        type_params=[])
    ns = _compile(M, module, qualname, ast.Module(body=[f], type_ignores=[]), path, 'loop %d' % loop_no)
    _CACHE[key] = ns['_extracted']
    return ns['_extracted']
