"""Scripted network environment for running the REAL audit() (and probe drivers) end to end.

FakeNet replaces the `socket` module inside ssh_audit.ssh_socket (module-global rebinding on the module set M,
restored afterwards).  Every socket() call hands out the next scripted connection.  All wire encoders here are
independent of the repo (RFC 4253 section 6 / 7.1 written from the RFC)."""
import contextlib
import io
import socket as _socket
import sys

from .stubs import ScriptSock


def u32(n):
    return n.to_bytes(4, 'big')


def sshstr(b):
    return u32(len(b)) + b


def frame(payload):
    """RFC 4253 s.6 binary packet without MAC: payload may be bytes or symbolic bytes (concrete length)."""
    n = len(payload)
    pad = 8 - ((n + 5) % 8)
    if pad < 4:
        pad += 8
    return u32(n + pad + 1) + bytes([pad]) + payload + b'\x00' * pad


def kexinit_payload(kex, key, enc, mac, comp=('none',), lang=(), enc_c=None, mac_c=None, comp_c=None, follows=False):
    """SSH_MSG_KEXINIT payload (type byte included); name lists are python lists of str (concrete) or bytes"""
    def nl(names):
        if isinstance(names, (bytes, bytearray)):
            return sshstr(bytes(names))
        if hasattr(names, 'els') and not isinstance(names, str):     # symbolic bytes: a raw name-list body
            return u32(len(names)) + names
        if names and any(not isinstance(x, str) for x in names):
            # symbolic names: join manually
            out = b''
            for i, x in enumerate(names):
                if i:
                    out = out + b','
                out = out + (x.encode('utf-8') if not isinstance(x, bytes) else x)
            return u32(len(out)) + out
        return sshstr(','.join(names).encode())
    enc_c = enc if enc_c is None else enc_c
    mac_c = mac if mac_c is None else mac_c
    comp_c = comp if comp_c is None else comp_c
    return (bytes([20]) + b'\x11' * 16 + nl(kex) + nl(key) + nl(enc_c) + nl(enc) + nl(mac_c) + nl(mac) + nl(comp_c) + nl(comp)
            + nl(lang) + nl(lang) + bytes([1 if follows else 0]) + u32(0))


class Conn(ScriptSock):
    def __init__(self, chunks, end='close', refuse=False):
        super().__init__(chunks, end)
        self.refuse = refuse
        self.connected_to = None
        self.shut = False

    def connect(self, addr):
        if self.refuse:
            raise ConnectionRefusedError(111, 'Connection refused')
        self.connected_to = addr

    def shutdown(self, how):
        # a connection that the peer has reset is no longer connected: shutdown() fails with ENOTCONN (close() is still required to release it)
        if self.end == 'reset' and not self.chunks and self.recv_calls > 0:
            raise OSError(107, 'Transport endpoint is not connected')
        self.shut = True

    def close(self):
        self.closed = True


class FakeNet:
    """stand-in for the socket module inside ssh_socket"""
    AF_INET = _socket.AF_INET
    AF_INET6 = _socket.AF_INET6
    AF_UNSPEC = _socket.AF_UNSPEC
    SOCK_STREAM = _socket.SOCK_STREAM
    SHUT_RDWR = _socket.SHUT_RDWR
    SOL_SOCKET = _socket.SOL_SOCKET
    SO_REUSEADDR = _socket.SO_REUSEADDR
    IPPROTO_IPV6 = _socket.IPPROTO_IPV6
    IPV6_V6ONLY = _socket.IPV6_V6ONLY
    error = _socket.error
    timeout = _socket.timeout
    gaierror = _socket.gaierror

    def __init__(self, conns, addrinfo=None, default_end='close'):
        self.script = list(conns)
        self.made = []
        self.addrinfo = addrinfo
        self.resolved = []
        self.default = default_end

    def socket(self, family=_socket.AF_INET, type=_socket.SOCK_STREAM, *a):
        if self.script:
            c = self.script.pop(0)
        else:
            c = Conn([], self.default)   # unscripted connection: peer says nothing
        c.family = family
        c.needs_timeout = True         # a stalled read ends only if the tool gave this socket a timeout (stubs.Hang otherwise)
        self.made.append(c)
        return c

    def getaddrinfo(self, host, port, family=0, stype=0, *a):
        self.resolved.append((host, port, family))
        if self.addrinfo is not None:
            r = self.addrinfo
            if isinstance(r, Exception):
                raise r
            return [x for x in r if family in (0, x[0])]
        return [(_socket.AF_INET, _socket.SOCK_STREAM, 6, '', (host, port))]


class Listener:
    """a listening socket of ListenNet: accept() hands out the scripted client connection; as in CPython, the accepted socket does NOT inherit the listener's
    timeout (it starts blocking) - a stalled client then needs settimeout() on the ACCEPTED socket."""
    _fd = 100

    def __init__(self, net, family):
        self.net, self.family = net, family
        Listener._fd += 1
        self.fd = Listener._fd
        self.timeout = None
        self.closed = False

    def setsockopt(self, *a):
        pass

    def bind(self, addr):
        if self.family == _socket.AF_INET6 and not self.net.v6:
            raise OSError(97, 'Address family not supported by protocol')
        self.bound = addr

    def listen(self, *a):
        pass

    def fileno(self):
        return self.fd

    def settimeout(self, t):
        self.timeout = t

    def accept(self):
        c = self.net.client
        c.needs_timeout = True
        c.timeout = None
        self.net.made.append(c)
        return c, ('192.0.2.33', 40000)

    def shutdown(self, how):
        pass

    def close(self):
        self.closed = True


class ListenNet(FakeNet):
    """socket-module stand-in for client audits (listen_and_accept): one scripted client connects"""

    def __init__(self, client, v6=True):
        FakeNet.__init__(self, [])
        self.client, self.v6 = client, v6
        self.listeners = []

    def socket(self, family=_socket.AF_INET, type=_socket.SOCK_STREAM, *a):
        l = Listener(self, family)
        self.listeners.append(l)
        return l


class SelectStub:
    """select stand-in: the first listening socket is readable at once (a client is waiting)"""
    @staticmethod
    def select(r, w, x, timeout=None):
        r = list(r)
        return (r[:1], [], [])


class ConcJson:
    """json stand-in for text that may carry symbolic characters: the symbolic parts are case-split exhaustively (finite), then the real library runs."""
    import json as _json
    JSONDecodeError = _json.JSONDecodeError

    @classmethod
    def _conc(cls, o):
        import zx
        if isinstance(o, dict):
            return {cls._conc(k): cls._conc(v) for k, v in o.items()}
        if isinstance(o, (list, tuple)):
            return [cls._conc(v) for v in o]
        if isinstance(o, (str, bytes, int, float, bool)) or o is None:
            return o
        if isinstance(o, zx.SStr):
            return zx.shims.concretize_str(o)
        if isinstance(o, zx.SInt):
            return zx.cur().concretize(o.e)
        if isinstance(o, zx.SBool):
            return bool(o)
        return o

    @classmethod
    def dumps(cls, obj, **kw):
        return cls._json.dumps(cls._conc(obj), **kw)

    @classmethod
    def loads(cls, s, **kw):
        return cls._json.loads(cls._conc(s), **kw)


class IpShim:
    """ipaddress stand-in for symbolic host text: text without a colon (resp. dot) is never an IPv6 (IPv4) literal - decided by the solver on the
    symbolic characters; anything else is concretised and handed to the real module."""
    import ipaddress as _ip
    AddressValueError = _ip.AddressValueError

    @classmethod
    def _conc(cls, a, ch, real):
        import zx
        if isinstance(a, str):
            return real(a)
        from zx.instrument import zx_in
        if not bool(zx_in(ch, a)):
            raise cls._ip.AddressValueError('no %r in address' % ch)
        return real(zx.shims.concretize_str(a))

    @classmethod
    def IPv6Address(cls, a):
        return cls._conc(a, ':', cls._ip.IPv6Address)

    @classmethod
    def IPv4Address(cls, a):
        return cls._conc(a, '.', cls._ip.IPv4Address)


@contextlib.contextmanager
def patched(obj, **kw):
    old = {k: getattr(obj, k) for k in kw}
    for k, v in kw.items():
        setattr(obj, k, v)
    try:
        yield
    finally:
        for k, v in old.items():
            setattr(obj, k, v)


def run_audit(M, conns, host='target', port=22, json=False, ssh1=True, ssh2=True, skip_rate=True, target_list=(), client_audit=False,
              policy=None, level='info', batch=False, verbose=False, net=None, extra=None, print_target=False):
    """Run the real audit() against the scripted network.  Returns dict(ret|exc, lines, net)."""
    from .harness import guarded, Exc
    net = net or FakeNet(conns)
    aconf = M.auditconf.AuditConf(host, port)
    aconf.json = json
    aconf.ssh1, aconf.ssh2 = ssh1, ssh2
    aconf.skip_rate_test = skip_rate
    aconf.batch, aconf.verbose, aconf.level = batch, verbose, level
    aconf.colors = False
    if target_list:
        aconf.target_list = list(target_list)
    if client_audit:
        aconf.client_audit = True
    if policy is not None:
        aconf.policy = policy
    if extra:
        for k, v in extra.items():
            setattr(aconf, k, v)
    out = M.outputbuffer.OutputBuffer()
    out.use_colors = False
    # the per-thread rating tables are fresh for every audit (single-target process model)
    M.ssh2_kexdb.SSH2_KexDB.DB_PER_THREAD.clear()
    M.ssh1_kexdb.SSH1_KexDB.DB_PER_THREAD.clear()
    cap = io.StringIO()
    more = {'select': SelectStub} if isinstance(net, ListenNet) else {}
    import time as _time
    slept = []
    # no real waiting inside the checker: a sleep is recorded and returns at once
    with patched(M.ssh_socket, socket=net, **more), patched(_time, sleep=lambda t: slept.append(t)):
        with contextlib.redirect_stdout(cap):
            r = guarded(M.ssh_audit.audit, out, aconf, None, print_target)
    lines = list(out.buffer) + list(out.section)
    return {'ret': r, 'lines': lines, 'net': net, 'stdout': cap.getvalue(), 'out': out, 'slept': slept}
