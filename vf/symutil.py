"""shared builders for symbolic inputs"""
import zx
from zx.shims import z_int

DIG = ((48, 57),)


def sym_size(name, ndigits):
    """non-negative integer given by `ndigits` symbolic decimal digits (no leading zero when ndigits > 1).  Its decimal rendering is the
    digit string itself (cached), so '%d' % size / str(size) need no division in the solver."""
    d = zx.fresh_str(name, ndigits, DIG)
    if ndigits > 1:
        zx.cur().assume(zx.s_not(d.startswith('0')))
    return z_int(d)
