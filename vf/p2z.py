"""P2Z: AST -> SMT for loop-free integer kernels of the current source (unbounded Int claims).

The function's statements are interpreted symbolically over z3 Int: Assign / AugAssign / If (merged by
ite) / arithmetic / comparisons.  `len(x)` and selected calls are replaced by named Int symbols; a branch that
ends in sys.exit()/raise contributes the negation of its guard to the path assumptions.  The claim
(pre AND assumptions => post) is negated and checked unsat by z3, then the same SMT-LIB text is re-checked by
the cvc5 binary.  If the expected variables cannot be found (pattern drift) the result is inconclusive.
The encoding is validated against concrete runs of the real function when a validator is supplied."""
import ast
import os
import subprocess
import tempfile
import time
import z3

from . import harness as H


class Drift(Exception):
    pass


class _Interp:
    def __init__(self, sym_len, sym_call, consts, stop_at, cls):
        self.env = {}
        self.sym_len = sym_len or {}
        self.sym_call = dict(sym_call or {})
        self.call_count = {}
        self.consts = consts or {}
        self.stop_at = stop_at
        self.assume = []
        self.stopped = False
        self.opaque = 0
        self.syms = {}
        self.cls = cls

    def sym(self, name):
        if name not in self.syms:
            self.syms[name] = z3.Int(name)
        return self.syms[name]

    def fresh(self, hint):
        self.opaque += 1
        return ('opaque', z3.Int('opaque_%s_%d' % (hint, self.opaque)))

    def key(self, node):
        return ast.unparse(node)

    def ev(self, node):
        """-> z3 ArithRef | z3 BoolRef | ('opaque', var)"""
        if isinstance(node, ast.Constant):
            if isinstance(node.value, bool):
                return z3.BoolVal(node.value)
            if isinstance(node.value, int):
                return z3.IntVal(node.value)
            return self.fresh('const')
        k = self.key(node)
        if k in self.consts:
            v = self.consts[k]
            return z3.BoolVal(v) if isinstance(v, bool) else z3.IntVal(v)
        if isinstance(node, (ast.Name, ast.Attribute)):
            if k in self.env:
                return self.env[k]
            return self.fresh(k.replace('.', '_'))
        if isinstance(node, ast.Call):
            f = self.key(node.func)
            if f == 'len' and len(node.args) == 1 and self.key(node.args[0]) in self.sym_len:
                return self.sym(self.sym_len[self.key(node.args[0])])
            if f in self.sym_call:
                c = self.call_count.get(f, 0)
                self.call_count[f] = c + 1
                return self.sym(self.sym_call[f] if c == 0 else '%s_%d' % (self.sym_call[f], c))
            return self.fresh('call')
        if isinstance(node, ast.UnaryOp):
            v = self.ev(node.operand)
            if isinstance(v, tuple):
                return self.fresh('un')
            if isinstance(node.op, ast.USub):
                return -v
            if isinstance(node.op, ast.Not):
                return z3.Not(v)
            return self.fresh('un')
        if isinstance(node, ast.BinOp):
            a, b = self.ev(node.left), self.ev(node.right)
            if isinstance(a, tuple) or isinstance(b, tuple):
                return self.fresh('bin')
            op = node.op
            if isinstance(op, ast.Add):
                return a + b
            if isinstance(op, ast.Sub):
                return a - b
            if isinstance(op, ast.Mult):
                return a * b
            if isinstance(op, (ast.Mod, ast.FloorDiv)):
                bs = z3.simplify(b)
                if not z3.is_int_value(bs) or bs.as_long() <= 0:
                    return self.fresh('div')
                return a % b if isinstance(op, ast.Mod) else a / b
            if isinstance(op, ast.RShift):
                bs = z3.simplify(b)
                if z3.is_int_value(bs) and bs.as_long() >= 0:
                    return a / z3.IntVal(1 << bs.as_long())
            if isinstance(op, ast.LShift):
                bs = z3.simplify(b)
                if z3.is_int_value(bs) and bs.as_long() >= 0:
                    return a * z3.IntVal(1 << bs.as_long())
            return self.fresh('bin')
        if isinstance(node, ast.Compare) and len(node.ops) >= 1:
            vals = [self.ev(node.left)] + [self.ev(c) for c in node.comparators]
            if any(isinstance(v, tuple) for v in vals):
                return ('opaque', z3.Bool('opaque_cmp_%d' % id(node)))
            cs = []
            for (a, b), op in zip(zip(vals, vals[1:]), node.ops):
                m = {ast.Lt: a < b, ast.LtE: a <= b, ast.Gt: a > b, ast.GtE: a >= b, ast.Eq: a == b, ast.NotEq: a != b}
                if type(op) not in m:
                    return ('opaque', z3.Bool('opaque_cmp_%d' % id(node)))
                cs.append(m[type(op)])
            return z3.And(*cs) if len(cs) > 1 else cs[0]
        if isinstance(node, ast.BoolOp):
            vs = [self.ev(v) for v in node.values]
            if any(isinstance(v, tuple) for v in vs):
                return ('opaque', z3.Bool('opaque_bool_%d' % id(node)))
            return z3.And(*vs) if isinstance(node.op, ast.And) else z3.Or(*vs)
        return self.fresh(type(node).__name__)

    @staticmethod
    def terminates(body):
        last = body[-1]
        if isinstance(last, ast.Raise):
            return True
        if isinstance(last, ast.Expr) and isinstance(last.value, ast.Call) and ast.unparse(last.value.func) in ('sys.exit', 'exit'):
            return True
        if isinstance(last, ast.Return):
            return True
        return False

    def assign(self, target, v):
        k = self.key(target)
        self.env[k] = v[1] if isinstance(v, tuple) else v
        if self.stop_at and k == self.stop_at:
            self.stopped = True

    def run(self, body):
        for st in body:
            if self.stopped:
                return
            if isinstance(st, ast.Assign) and len(st.targets) == 1 and isinstance(st.targets[0], (ast.Name, ast.Attribute)):
                self.assign(st.targets[0], self.ev(st.value))
            elif isinstance(st, ast.AnnAssign) and st.value is not None:
                self.assign(st.target, self.ev(st.value))
            elif isinstance(st, ast.AugAssign) and isinstance(st.target, (ast.Name, ast.Attribute)):
                fake = ast.BinOp(left=st.target, op=st.op, right=st.value)
                self.assign(st.target, self.ev(fake))
            elif isinstance(st, ast.If):
                c = self.ev(st.test)
                if isinstance(c, tuple):
                    c = c[1] if z3.is_bool(c[1]) else z3.Bool('opaque_if_%d' % id(st))
                cs = z3.simplify(c)
                if z3.is_true(cs):
                    self.run(st.body)
                    continue
                if z3.is_false(cs):
                    self.run(st.orelse)
                    continue
                if self.terminates(st.body) and not st.orelse:
                    self.assume.append(z3.Not(c))
                    continue
                base = dict(self.env)
                self.run(st.body)
                stopped_a = self.stopped
                ea = self.env
                self.env = dict(base)
                self.stopped = False
                self.run(st.orelse)
                eb = self.env
                merged = {}
                for k in set(ea) | set(eb):
                    a, b = ea.get(k), eb.get(k)
                    if a is None or b is None:
                        continue
                    if a is b or (z3.is_expr(a) and z3.is_expr(b) and a.eq(b)):
                        merged[k] = a
                    elif a.sort() == b.sort():
                        merged[k] = z3.If(c, a, b)
                self.env = merged
                self.stopped = stopped_a and self.stopped
            elif isinstance(st, ast.Try):
                self.run(st.body)
            elif isinstance(st, (ast.Expr, ast.Pass)):
                continue
            elif isinstance(st, ast.Return):
                self.stopped = True
                return
            else:
                # tuple assigns, loops, with, ... : everything they may assign becomes unknown
                for n in ast.walk(st):
                    if isinstance(n, (ast.Name, ast.Attribute)) and isinstance(getattr(n, 'ctx', None), ast.Store):
                        self.env.pop(self.key(n), None)


def _find(tree, qualname):
    parts = qualname.split('.')
    node = tree
    cls = None
    for p in parts:
        nxt = None
        for ch in ast.iter_child_nodes(node):
            if isinstance(ch, (ast.ClassDef, ast.FunctionDef)) and ch.name == p:
                nxt = ch
                break
        if nxt is None:
            raise Drift('cannot find %s' % qualname)
        if isinstance(nxt, ast.ClassDef):
            cls = nxt.name
        node = nxt
    return node, cls


def _cvc5(smt2):
    with tempfile.NamedTemporaryFile('w', suffix='.smt2', dir='/tmp', delete=False) as f:
        f.write(smt2)
        p = f.name
    try:
        r = subprocess.run(['cvc5', '--tlimit=60000', p], capture_output=True, text=True, timeout=90)
        out = (r.stdout + r.stderr).strip()
    except Exception as e:  # noqa
        out = 'error: %s' % e
    finally:
        os.unlink(p)
    return out


def check_function(prop, ob, name, module, qualname, post, pre=None, sym_len=None, sym_call=None, consts=None, stop_at=None,
                   needed=(), validate=None, validate_real=None, validate_range=range(0, 300), entry=None):
    t0 = time.time()
    res = {'harness': '%s/%s:%s' % (prop, ob, name), 'ob': '%s/%s' % (prop, ob), 'params': {}, 'status': 'ok', 'violations': [],
           'paths': 1, 'decisions': 0, 'queries': 0, 'solver_time_s': 0.0, 'xval': 0, 'replayed': 0, 'asserts': 1, 'sample': None,
           'error': None}
    try:
        path = os.path.join(H.SRC, 'ssh_audit', module + '.py')
        tree = ast.parse(open(path).read())
        fn, cls = _find(tree, qualname)
        it = _Interp(sym_len, sym_call, consts, stop_at, cls)
        for var, symname in (entry or {}).items():
            it.env[var] = it.sym(symname)
        it.run(fn.body)
        v = {}
        for k, e in it.env.items():
            v[k] = e
        for s, e in it.syms.items():
            v[s] = e
        for nd in needed:
            if nd not in v:
                raise Drift('variable %r not derivable from %s (source pattern changed?)' % (nd, qualname))
            if any(str(d).startswith('opaque_') for d in _consts_of(v[nd])):
                raise Drift('variable %r depends on an untranslated expression' % nd)
        pre_e = pre(v) if pre else z3.BoolVal(True)
        goal = z3.Implies(z3.And(pre_e, *it.assume), post(v))
        s = z3.Solver()
        s.set('timeout', 60000)
        s.add(z3.Not(goal))
        ts = time.time()
        r = s.check()
        res['solver_time_s'] = round(time.time() - ts, 3)
        res['queries'] = 1
        res['decisions'] = len(it.assume) + 1
        smt2 = '(set-logic ALL)\n' + s.to_smt2()
        if r == z3.sat:
            m = s.model()
            wit = {str(d): str(m[d]) for d in m.decls()}
            # replay on the real function if a validator exists
            confirmed = True
            if validate_real is not None:
                try:
                    confirmed = not validate_real(wit)
                except Exception:
                    confirmed = True
            if confirmed:
                res['violations'].append({'ob': res['ob'], 'harness': res['harness'], 'label': 'post', 'class': 'post', 'params': {},
                                          'witness': {'inputs': wit, 'observation': 'SMT model of the translated statements'}})
                res['replayed'] = 1
            else:
                res['status'] = 'harness_error'
                res['error'] = 'P2Z counterexample did not reproduce on the real function: %r' % wit
        elif r == z3.unknown:
            res['status'] = 'inconclusive'
            res['error'] = 'z3 unknown'
        else:
            c = _cvc5(smt2)
            res['queries'] = 2
            if '(error' in c or 'error' in c.lower():
                res['status'] = 'inconclusive'
                res['error'] = 'cvc5: %s' % c[:200]
            elif c.split('\n')[0].strip() != 'unsat':
                res['status'] = 'inconclusive'
                res['error'] = 'cvc5 disagrees/unknown: %s' % c[:200]
        # validation of the translation against an independent concrete computation / the real function
        nval = 0
        if res['status'] == 'ok' and validate is not None:
            for n in validate_range:
                exp = validate(n)
                sub = [(it.syms[k], z3.IntVal(val)) for k, val in exp.items() if k in it.syms]
                for k, val in exp.items():
                    if k in it.syms:
                        continue
                    got = z3.simplify(z3.substitute(v[k], *sub))
                    if not z3.is_int_value(got) or got.as_long() != val:
                        raise Drift('translation validation failed at %r: %s = %s, expected %s' % (n, k, got, val))
                nval += 1
        res['xval'] = nval
        res['sample'] = {'inputs': {'function': qualname, 'symbols': sorted(it.syms)},
                         'observation': {k: str(z3.simplify(v[k]))[:200] for k in needed}, 'assumed': [str(a) for a in it.assume]}
        res['note'] = 'unbounded Int claim; z3 unsat + cvc5 unsat; translation validated on %d concrete inputs' % nval
    except Drift as e:
        res['status'] = 'inconclusive'
        res['error'] = 'pattern drift: %s' % e
    res['wall_s'] = round(time.time() - t0, 3)
    return res


def _consts_of(e):
    seen, out, todo = set(), [], [e]
    while todo:
        x = todo.pop()
        if x.get_id() in seen:
            continue
        seen.add(x.get_id())
        if z3.is_const(x) and x.decl().kind() == z3.Z3_OP_UNINTERPRETED:
            out.append(x)
        todo.extend(x.children())
    return out
