"""C06 - policy verdicts follow the documented matching rules (Policy.evaluate == independent specification)."""
import itertools
import zx
from zx import s_and, s_or, s_not, s_implies, s_ite
from vf.harness import Harness, guarded, Exc
from vf.symutil import sym_size

PROP = 'C06'
NAMECH = ((0x21, 0x2B), (0x2D, 0x7E))
MS, MC = 'kex-strict-s-v00@openssh.com', 'kex-strict-c-v00@openssh.com'
LIST_FIELDS = {  # field -> (policy attribute, error label)
    'kex': ('_kex', 'Key exchanges'), 'key': ('_host_keys', 'Host keys'), 'enc': ('_ciphers', 'Ciphers'), 'mac': ('_macs', 'MACs'),
    'comp': ('_compressions', 'Compression'),
}


def mk_names(prefix, shape):
    """shape: tuple of 'x' (symbolic 1-char name), 'xx' (2 chars), 'S'/'C' (strict-kex marker literals)"""
    out = []
    for i, s in enumerate(shape):
        if s == 'S':
            out.append(MS)
        elif s == 'C':
            out.append(MC)
        else:
            out.append(zx.fresh_str('%s%d' % (prefix, i), len(s), NAMECH))
    return out


def s_in(x, lst):
    return s_or(*[x == y for y in lst]) if lst else False


def s_list_eq(a, b):
    if len(a) != len(b):
        return False
    return s_and(*[x == y for x, y in zip(a, b)]) if a else True


def make_kex(M, L, host_keys=None, dh=None, c2s=None):
    """real SSH2_Kex; L holds the server-to-client lists; c2s optionally different client-to-server lists (default: same)"""
    out = M.outputbuffer.OutputBuffer()
    C = c2s or {}
    cli = M.ssh2_kexparty.SSH2_KexParty(C.get('enc', L.get('enc', ['e'])), C.get('mac', L.get('mac', ['m'])), C.get('comp', L.get('comp', ['none'])), [''])
    srv = M.ssh2_kexparty.SSH2_KexParty(L.get('enc', ['e']), L.get('mac', ['m']), L.get('comp', ['none']), [''])
    kex = M.ssh2_kex.SSH2_Kex(out, b'\x00' * 16, L.get('kex', ['k']), L.get('key', ['h']), cli, srv, False, 0)
    for t, (sz, cat, casz) in (host_keys or {}).items():
        kex.set_host_key(t, b'', sz, cat, casz)
    for t, sz in (dh or {}).items():
        kex.set_dh_modulus_size(t, sz)
    return kex


def make_policy(M, fields, subset, larger):
    p = M.policy.Policy(manual_load=True)
    p._name, p._version = 'p', '1'
    for k, v in fields.items():
        setattr(p, k, v)
    p._allow_algorithm_subset_and_reordering = subset
    p._allow_larger_keys = larger
    p._normalize_hostkey_sizes()
    return p


def errs_view(errs):
    return [(e['mismatched_field'], e['expected_required'], e['expected_optional'], e['actual']) for e in errs]


class ListEval(Harness):
    """one (or two) list fields set; peer lists symbolic; both allow_* flags symbolic."""
    prop, ob = PROP, 'O1'
    width = 64

    def __init__(self, spec):
        # spec: dict field -> (policy_shape, peer_shape[, optional_shape])
        self.spec = {k: tuple(tuple(x) for x in v) for k, v in spec.items()}
        self.name = 'list-' + '+'.join('%s(%s|%s%s)' % (f, ''.join(v[0]) or '-', ''.join(v[1]) or '-', ('|opt:' + ''.join(v[2])) if len(v) > 2 else '')
                                       for f, v in sorted(self.spec.items()))
        if len(self.spec) > 1:
            self.ob = 'O9'

    def params(self):
        return {'spec': {k: [list(x) for x in v] for k, v in self.spec.items()}}

    def inputs(self):
        d = {'subset': zx.fresh_bool('subset'), 'larger': zx.fresh_bool('larger'), 'pol': {}, 'peer': {}, 'opt': {}}
        for f, v in self.spec.items():
            d['pol'][f] = mk_names('p' + f, v[0])
            d['peer'][f] = mk_names('k' + f, v[1])
            if len(v) > 2:
                d['opt'][f] = mk_names('o' + f, v[2])
        return d

    def run(self, M, inp):
        fields = {LIST_FIELDS[f][0]: list(v) for f, v in inp['pol'].items()}
        if 'key' in inp['opt']:
            fields['_optional_host_keys'] = list(inp['opt']['key'])
        p = make_policy(M, fields, inp['subset'], inp['larger'])
        kex = make_kex(M, {f: list(v) for f, v in inp['peer'].items()})
        r = guarded(p.evaluate, None, kex)
        if isinstance(r, Exc):
            return {'exc': r}
        passed, errs, text = r
        return {'passed': passed, 'errs': errs_view(errs), 'text_empty': len(text) == 0}

    def spec_field(self, f, inp):
        """independent specification: does field f pass?"""
        pol, peer, sub = inp['pol'][f], inp['peer'][f], inp['subset']
        if f == 'comp':
            return s_list_eq(peer, pol)
        exact_peer = peer
        if f == 'key' and 'key' in inp['opt']:
            # exact mode compares after removing the policy's optional host keys (order kept)
            # -> expressed without building the filtered list: see spec_key_exact
            exact = self.spec_key_exact(peer, pol, inp['opt']['key'])
        else:
            exact = s_list_eq(exact_peer, pol)
        subset_ok = s_and(*[s_in(x, pol) for x in peer]) if peer else True
        if f == 'kex':
            subset_ok = s_and(subset_ok, s_implies(s_in(MS, pol), s_in(MS, peer)), s_implies(s_in(MC, pol), s_in(MC, peer)))
        return s_ite_bool(sub, subset_ok, exact)

    @staticmethod
    def spec_key_exact(peer, pol, opt):
        """peer with optional names removed equals pol: enumerate which peer positions are optional (2^n cases, n<=3)"""
        n = len(peer)
        alts = []
        for mask in itertools.product([False, True], repeat=n):
            kept = [peer[i] for i in range(n) if not mask[i]]
            if len(kept) != len(pol):
                continue
            cond = [s_in(peer[i], opt) if mask[i] else s_not(s_in(peer[i], opt)) for i in range(n)]
            alts.append(s_and(s_list_eq(kept, pol), *cond))
        return s_or(*alts) if alts else False

    def check(self, inp, obs):
        if 'exc' in obs:
            yield 'no-exception', False
            return
        oks = {f: self.spec_field(f, inp) for f in self.spec}
        allok = s_and(*oks.values())
        yield 'verdict==spec', obs['passed'] == allok
        yield 'passed-iff-no-errors', obs['passed'] == (len(obs['errs']) == 0)
        yield 'text-empty-iff-passed', obs['text_empty'] == (len(obs['errs']) == 0)
        # every error names a failing field with the policy's expectation and the peer's actual list
        conds = []
        labels = {LIST_FIELDS[f][1]: f for f in self.spec}
        for lab, exp, opt, act in obs['errs']:
            if lab not in labels:
                conds.append(False)
                continue
            f = labels[lab]
            conds.append(s_and(s_not(oks[f]), s_list_eq(exp, inp['pol'][f]), s_list_eq(act, inp['peer'][f])))
        for f in self.spec:
            has = any(lab == LIST_FIELDS[f][1] for lab, _, _, _ in obs['errs'])
            conds.append(s_implies(s_not(oks[f]), has))
        yield 'errors-name-exactly-the-failing-fields', s_and(*conds)


def s_ite_bool(c, a, b):
    if isinstance(c, bool):
        return a if c else b
    return s_or(s_and(c, a), s_and(s_not(c), b))


CA_TYPES = ['', 'ssh-rsa', 'ssh-ed25519', 'ecdsa-sha2-nistp256']


class TextPolicyEval(Harness):
    """the same rules through a policy LOADED FROM TEXT (the -P file path): every directive the parser knows, then evaluate against a symbolic peer."""
    prop, ob = PROP, 'O12'
    width = 64

    def __init__(self, subset, larger, nopt):
        self.subset, self.larger, self.nopt = subset, larger, nopt
        self.name = 'textpolicy-%s-%s-opt%d' % ('subset' if subset else 'exact', 'larger' if larger else 'equal', nopt)

    def params(self):
        return {'subset': self.subset, 'larger': self.larger, 'nopt': self.nopt}

    def inputs(self):
        AZ = ((0x61, 0x7A),)   # parser-neutral characters: the parser's own special characters are C05's subject
        nm = lambda pfx, n: [zx.fresh_str('%s%d' % (pfx, i), 1, AZ) for i in range(n)]
        pol = {f: ['c' + f] for f in LIST_FIELDS}
        peer = {f: ['c' + f] for f in LIST_FIELDS}
        pol['key'], peer['key'] = nm('pk', 1), nm('kk', 2)
        pol['kex'], peer['kex'] = nm('px', 1), nm('kx', 1)
        return {'pol': pol, 'peer': peer, 'opt': nm('o', self.nopt), 'dh': sym_size('dh', 4), 'kdh': sym_size('kdh', 4)}

    def text(self, inp):
        P = inp['pol']
        J = zx.shims.zx_join
        t = 'name = "t"\nversion = 1\n'
        t = t + 'allow_algorithm_subset_and_reordering = ' + ('true' if self.subset else 'false') + '\n'
        t = t + 'allow_larger_keys = ' + ('true' if self.larger else 'false') + '\n'
        t = t + 'compressions = ' + J(', ', P['comp']) + '\n'
        t = t + 'host keys = ' + J(', ', P['key']) + '\n'
        if self.nopt:
            t = t + 'optional host keys = ' + J(', ', inp['opt']) + '\n'
        t = t + 'key exchanges = ' + J(', ', P['kex']) + '\nciphers = ' + J(', ', P['enc']) + '\nmacs = ' + J(', ', P['mac']) + '\n'
        t = t + 'dh_modulus_sizes = {"diffie-hellman-group-exchange-sha256": ' + zx.shims.z_str(inp['dh']) + '}\n'
        return t

    def run(self, M, inp):
        from props.c05 import TokenJson
        from vf import auditenv as AE
        txt = self.text(inp)
        G = 'diffie-hellman-group-exchange-sha256'

        class J:
            @staticmethod
            def loads(sx):
                return {G: inp['dh']}
        ctx = AE.patched(M.policy, json=J) if M.kind == 'instrumented' else AE.patched(M.policy)
        with ctx:
            p = guarded(lambda: M.policy.Policy(policy_data=txt))
        if isinstance(p, Exc):
            return {'load': p}
        kex = make_kex(M, {f: list(v) for f, v in inp['peer'].items()}, dh={G: inp['kdh']})
        r = guarded(p.evaluate, None, kex)
        if isinstance(r, Exc):
            return {'exc': r}
        return {'passed': r[0], 'labels': sorted(e['mismatched_field'] for e in r[1]), 'opt_loaded': p._optional_host_keys}

    def check(self, inp, obs):
        yield 'loads', 'load' not in obs
        if 'load' in obs:
            return
        if 'exc' in obs:
            yield 'no-exception', False
            return
        fake = ListEval({f: (('x',), ('x',) if f != 'key' else ('x', 'x')) for f in LIST_FIELDS})
        spec_inp = {'pol': inp['pol'], 'peer': inp['peer'], 'opt': ({'key': inp['opt']} if self.nopt else {}), 'subset': self.subset}
        oks = {f: fake.spec_field(f, spec_inp) for f in LIST_FIELDS}
        dh_ok = (inp['kdh'] >= inp['dh']) if self.larger else (inp['kdh'] == inp['dh'])
        yield 'verdict==spec', obs['passed'] == s_and(dh_ok, *oks.values())
        yield 'optional-host-keys-loaded', (obs['opt_loaded'] is None) == (self.nopt == 0) and (self.nopt == 0 or s_list_eq(obs['opt_loaded'], inp['opt']))


class SizeEval(Harness):
    """host-key size / CA type / CA size and DH modulus size rules with free integer sizes."""
    prop, ob = PROP, 'O5'
    width = 64

    def __init__(self, pol_ca, peer_ca, present=True, dh=False, nd=(4, 4)):
        self.pol_ca, self.peer_ca, self.present, self.dh, self.nd = pol_ca, peer_ca, present, dh, tuple(nd)
        self.name = 'size-%s-polca(%s)-peerca(%s)-%s-d%dx%d' % ('dh' if dh else 'hostkey', pol_ca or 'none', peer_ca or 'none',
                                                              'present' if present else 'absent', nd[0], nd[1])

    def params(self):
        return {'pol_ca': self.pol_ca, 'peer_ca': self.peer_ca, 'present': self.present, 'dh': self.dh, 'nd': list(self.nd)}

    def inputs(self):
        a, b = self.nd
        return {'subset': zx.fresh_bool('subset'), 'larger': zx.fresh_bool('larger'), 'psz': sym_size('psz', a), 'pca': sym_size('pca', a),
                'ksz': sym_size('ksz', b), 'kca': sym_size('kca', b)}

    def run(self, M, inp):
        T = 'ssh-rsa-cert-v01@openssh.com'
        G = 'diffie-hellman-group-exchange-sha256'
        if self.dh:
            p = make_policy(M, {'_dh_modulus_sizes': {G: inp['psz']}}, inp['subset'], inp['larger'])
            kex = make_kex(M, {}, dh=({G: inp['ksz']} if self.present else {}))
        else:
            p = make_policy(M, {'_hostkey_sizes': {T: {'hostkey_size': inp['psz'], 'ca_key_type': self.pol_ca, 'ca_key_size': inp['pca']}}},
                            inp['subset'], inp['larger'])
            kex = make_kex(M, {}, host_keys=({T: (inp['ksz'], self.peer_ca, inp['kca'])} if self.present else {}))
        r = guarded(p.evaluate, None, kex)
        if isinstance(r, Exc):
            return {'exc': r}
        passed, errs, text = r
        return {'passed': passed, 'errs': errs_view(errs)}

    def check(self, inp, obs):
        if 'exc' in obs:
            yield 'no-exception', False
            return
        L = inp['larger']
        rule = lambda act, exp: s_ite_bool(L, act >= exp, act == exp)
        labels = [e[0] for e in obs['errs']]
        if not self.present:
            yield 'absent-type-ignored', s_and(obs['passed'] == True, len(labels) == 0)  # noqa: E712
            return
        size_ok = rule(inp['ksz'], inp['psz'])
        if self.dh:
            yield 'verdict==spec', obs['passed'] == size_ok
            yield 'error-label', s_implies(s_not(size_ok), labels == ['Group exchange (diffie-hellman-group-exchange-sha256) modulus sizes']) if labels else size_ok
            return
        ca_checked = s_and(len(self.pol_ca) > 0, inp['pca'] > 0)
        if self.pol_ca != self.peer_ca:
            ca_ok = s_not(ca_checked)
        else:
            ca_ok = s_implies(ca_checked, rule(inp['kca'], inp['pca']))
        yield 'verdict==spec', obs['passed'] == s_and(size_ok, ca_ok)
        yield 'passed-iff-no-errors', obs['passed'] == (len(labels) == 0)
        want = []
        c = []
        hk = 'Host key (ssh-rsa-cert-v01@openssh.com) sizes'
        c.append((hk in labels) == s_not(size_ok) if True else True)
        if self.pol_ca != self.peer_ca:
            c.append(('CA signature type' in labels) == s_not(ca_ok))
        else:
            c.append((('CA signature size (%s)' % self.peer_ca) in labels) == s_not(ca_ok))
        yield 'error-labels', s_and(*c)
        # expected / actual values are the policy's and the peer's
        vals = []
        for lab, exp, opt, act in obs['errs']:
            if lab == hk:
                vals.append(s_and(exp[0] == zx.shims.z_str(inp['psz']) if not isinstance(inp['psz'], int) else exp[0] == str(inp['psz']),
                                  act[0] == zx.shims.z_str(inp['ksz']) if not isinstance(inp['ksz'], int) else act[0] == str(inp['ksz'])))
            elif lab == 'CA signature type':
                vals.append(exp == [self.pol_ca] and act == [self.peer_ca])
        yield 'expected-actual-values', s_and(*vals) if vals else True


class BannerEval(Harness):
    prop, ob = PROP, 'O1'
    width = 64

    def __init__(self, n, with_kex):
        self.n, self.with_kex = n, with_kex
        self.name = 'banner-%d-%s' % (n, 'kex' if with_kex else 'nokex')

    def params(self):
        return {'n': self.n, 'with_kex': self.with_kex}

    def inputs(self):
        return {'pb': 'SSH-2.0-' + zx.fresh_str('pb', self.n, ((33, 126),)), 'sw': zx.fresh_str('sw', self.n, ((33, 126),))}

    def run(self, M, inp):
        p = make_policy(M, {'_banner': inp['pb']}, False, False)
        b = M.banner.Banner((2, 0), inp['sw'], None, True)
        r = guarded(p.evaluate, b, make_kex(M, {}) if self.with_kex else None)
        if isinstance(r, Exc):
            return {'exc': r}
        return {'passed': r[0], 'errs': errs_view(r[1])}

    def check(self, inp, obs):
        if 'exc' in obs:
            yield 'no-exception', False
            return
        same = inp['pb'] == ('SSH-2.0-' + inp['sw'])
        yield 'verdict==spec', obs['passed'] == same
        yield 'error-label', s_implies(s_not(same), len(obs['errs']) == 1 and obs['errs'][0][0] == 'Banner')
        yield 'passed-iff-no-errors', obs['passed'] == (len(obs['errs']) == 0)


class LegacyDirectives(Harness):
    """a policy file in the deprecated format (hostkey_size_<type>, cakey_size_<type>, dh_modulus_size_<type>) for two key types, in several line orders:
    it loads, and every listed size is the one compared - each type's host-key size and CA size come from that type's own lines."""
    prop, ob = PROP, 'O12'
    width = 64
    T1, T2 = 'ssh-rsa-cert-v01@openssh.com', 'ssh-ed25519-cert-v01@openssh.com'

    def __init__(self, order):
        self.order = order
        self.name = 'legacy-directives-%s' % order

    def params(self):
        return {'order': self.order}

    def inputs(self):
        return {'h1': sym_size('h1', 4), 'c1': sym_size('c1', 4), 'h2': sym_size('h2', 3), 'c2': sym_size('c2', 3), 'dh': sym_size('dh', 4)}

    def run(self, M, inp):
        Z = zx.shims.z_str
        lines = {'h1': 'hostkey_size_%s = ' % self.T1 + Z(inp['h1']), 'c1': 'cakey_size_%s = ' % self.T1 + Z(inp['c1']),
                 'h2': 'hostkey_size_%s = ' % self.T2 + Z(inp['h2']), 'c2': 'cakey_size_%s = ' % self.T2 + Z(inp['c2'])}
        seq = {'grouped': ['h1', 'c1', 'h2', 'c2'], 'sizes-first': ['h1', 'h2', 'c1', 'c2'], 'second-ca-only': ['h1', 'c1', 'c2'], 'ca-first': ['c1', 'h1']}[self.order]
        txt = 'name = "t"\nversion = 1\nhost keys = a\n'
        for k in seq:
            txt = txt + lines[k] + '\n'
        txt = txt + 'dh_modulus_size_diffie-hellman-group-exchange-sha256 = ' + Z(inp['dh']) + '\n'
        import io, contextlib
        with contextlib.redirect_stdout(io.StringIO()), contextlib.redirect_stderr(io.StringIO()):
            p = guarded(lambda: M.policy.Policy(policy_data=txt))
        if isinstance(p, Exc):
            return {'load': p}
        hs = p._hostkey_sizes or {}
        return {'sizes': {k: (v.get('hostkey_size'), v.get('ca_key_size')) for k, v in hs.items()}, 'dh': p._dh_modulus_sizes, 'seq': seq}

    def check(self, inp, obs):
        yield 'loads-without-error', 'load' not in obs
        if 'load' in obs:
            return
        seq, sz = obs['seq'], obs['sizes']
        ok = True
        for t, hk, ck in ((self.T1, 'h1', 'c1'), (self.T2, 'h2', 'c2')):
            if hk not in seq and ck not in seq:
                ok = s_and(ok, t not in sz)
                continue
            if t not in sz:
                ok = False
                continue
            got_h, got_c = sz[t]
            if hk in seq:
                ok = s_and(ok, got_h == inp[hk])
            else:
                ok = s_and(ok, got_h == 0)           # no host-key size was listed for this type: nothing (0) to compare, never another type's size
            if ck in seq:
                ok = s_and(ok, got_c == inp[ck])
        yield 'each-size-from-its-own-line', ok
        yield 'dh-size', obs['dh'] is not None and obs['dh'].get('diffie-hellman-group-exchange-sha256') == inp['dh']


class Monotone(Harness):
    """subset mode: deleting an element of a passing peer's list keeps it passing; larger-keys mode: growing a key keeps passing."""
    prop, ob = PROP, 'O11'
    width = 64

    def __init__(self, field, pshape, kshape, drop):
        self.field, self.pshape, self.kshape, self.drop = field, tuple(pshape), tuple(kshape), drop
        self.name = 'monotone-%s-%s-%s-drop%d' % (field, ''.join(pshape), ''.join(kshape), drop)

    def params(self):
        return {'field': self.field, 'pshape': list(self.pshape), 'kshape': list(self.kshape), 'drop': self.drop}

    def inputs(self):
        d = {'pol': mk_names('p', self.pshape), 'peer': mk_names('k', self.kshape), 'psz': sym_size('psz', 4), 'ksz': sym_size('ksz', 4),
             'ksz2': sym_size('ksz2', 4)}
        if zx.active():
            zx.cur().assume(d['ksz2'] >= d['ksz'])
        return d

    def run(self, M, inp):
        G = 'diffie-hellman-group-exchange-sha256'
        res = []
        for variant in (0, 1):
            peer = list(inp['peer'])
            ksz = inp['ksz']
            if variant:
                del peer[self.drop]
                ksz = inp['ksz2']
            if not peer:
                peer = ['']
            p = make_policy(M, {LIST_FIELDS[self.field][0]: list(inp['pol']), '_dh_modulus_sizes': {G: inp['psz']}}, True, True)
            kex = make_kex(M, {self.field: peer}, dh={G: ksz})
            r = guarded(p.evaluate, None, kex)
            res.append(r if isinstance(r, Exc) else r[0])
        return {'before': res[0], 'after': res[1]}

    def check(self, inp, obs):
        if isinstance(obs['before'], Exc) or isinstance(obs['after'], Exc):
            yield 'no-exception', False
            return
        # dropping a strict-kex marker that the policy demands is the documented exception
        if self.field == 'kex' and self.kshape[self.drop] in ('S', 'C'):
            return
        if len(self.kshape) == 1:
            return
        yield 'pass-stays-pass', s_implies(obs['before'] == True, obs['after'] == True)  # noqa: E712


class CopiedPolicyEval(SizeEval):
    """the per-target copy of the configuration (copy.deepcopy of an AuditConf holding the policy, as target_worker_thread makes it) evaluates exactly like the
    original policy: same verdict and errors for symbolic sizes and both allow_* flags."""
    ob = 'O10'

    def __init__(self, dh):
        super().__init__('ssh-rsa', 'ssh-rsa', True, dh, (4, 4))
        self.name = 'copiedpolicy-%s' % ('dh' if dh else 'hostkey')

    def params(self):
        return {'dh': self.dh}

    def run(self, M, inp):
        import copy
        T = 'ssh-rsa-cert-v01@openssh.com'
        G = 'diffie-hellman-group-exchange-sha256'

        def build():
            if self.dh:
                p = make_policy(M, {'_dh_modulus_sizes': {G: inp['psz']}}, inp['subset'], inp['larger'])
                kex = make_kex(M, {}, dh={G: inp['ksz']})
            else:
                p = make_policy(M, {'_hostkey_sizes': {T: {'hostkey_size': inp['psz'], 'ca_key_type': self.pol_ca, 'ca_key_size': inp['pca']}}}, inp['subset'], inp['larger'])
                kex = make_kex(M, {}, host_keys={T: (inp['ksz'], self.peer_ca, inp['kca'])})
            return p, kex
        p, kex = build()
        r1 = guarded(p.evaluate, None, kex)
        p2, kex2 = build()
        aconf = M.auditconf.AuditConf('', 22)
        aconf.policy = p2
        c = guarded(copy.deepcopy, aconf)
        if isinstance(c, Exc):
            return {'exc': c}
        r2 = guarded(c.policy.evaluate, None, kex2)
        if isinstance(r1, Exc) or isinstance(r2, Exc):
            return {'exc': r1 if isinstance(r1, Exc) else r2}
        return {'passed': r1[0], 'errs': errs_view(r1[1]), 'passed_copy': r2[0], 'errs_copy': errs_view(r2[1]), 'orig_errors_after': len(p2._errors)}

    def check(self, inp, obs):
        if 'exc' in obs:
            yield 'no-exception', False
            return
        yield 'copy-gives-the-same-verdict', obs['passed'] == obs['passed_copy']
        yield 'copy-gives-the-same-errors', len(obs['errs']) == len(obs['errs_copy']) and all(a[0] == b[0] for a, b in zip(obs['errs'], obs['errs_copy']))
        yield 'evaluating-the-copy-leaves-the-shared-policy-untouched', obs['orig_errors_after'] == 0


def _worker_policy_harness():
    """O10 (semantic): two failing policy audits through two worker tasks that share one configuration report the same errors as one - i.e. every evaluation
    runs on a Policy whose error list starts empty (the assumption under which O1..O9 compare evaluate() with the specification)."""
    from props.c07 import ConfigIsolation

    class WorkerPolicy(ConfigIsolation):
        prop, ob = PROP, 'O10'
        name = 'workerpolicy-two-tasks-one-configuration'
    return WorkerPolicy()


def fresh_policy_per_evaluation():
    """assumption check (glue): evaluate() accumulates errors in the Policy object; the call sites must therefore hand every audit its own
    Policy (target_worker_thread deep-copies the configuration).  Syntactic check on the current source."""
    import ast, os, time
    from vf import harness as H
    t0 = time.time()
    res = {'harness': 'C06/O10:fresh-policy-per-evaluation', 'ob': 'C06/O10', 'params': {}, 'status': 'ok', 'violations': [], 'paths': 1, 'decisions': 1,
           'queries': 0, 'solver_time_s': 0.0, 'xval': 0, 'replayed': 0, 'asserts': 1, 'sample': None, 'error': None}
    src = open(os.path.join(H.SRC, 'ssh_audit', 'ssh_audit.py')).read()
    tree = ast.parse(src)
    fn = [n for n in ast.walk(tree) if isinstance(n, ast.FunctionDef) and n.name == 'target_worker_thread']
    ok = bool(fn) and any(isinstance(n, ast.Call) and ast.unparse(n.func) == 'copy.deepcopy' for n in ast.walk(fn[0]))
    if not ok:
        res['status'] = 'inconclusive'
        res['error'] = 'pattern drift: target_worker_thread no longer deep-copies the shared configuration'
    res['sample'] = {'inputs': {'function': 'target_worker_thread'}, 'observation': 'copy.deepcopy(shared_aconf) present'}
    res['note'] = 'syntactic glue check'
    res['wall_s'] = round(time.time() - t0, 3)
    return res


def tasks(tier):
    q = tier == 'quick'
    T = []
    X = 'x'
    shapes1 = [((), (X,)), ((X,), (X,)), ((X,), ()), ((X, X), (X,)), ((X,), (X, X)), ((X, X), (X, X)), ((X, X, X), (X, X)), ((X, X), (X, X, X))]
    if not q:
        shapes1 += [((X, X, X), (X, X, X)), ((X, X, X), (X,)), ((X,), (X, X, X)), (('xx', X), (X, 'xx'))]
    for f in ('kex', 'key', 'enc', 'mac', 'comp'):
        for ps, ks in shapes1:
            T.append(ListEval({f: (ps, ks)}))
    # strict-kex marker interplay
    for ps, ks in [(('S', X), (X,)), (('S', X), (X, 'S')), (('S', X), ('S',)), ((X,), ('S', X)), (('C', X), (X,)), (('S', 'C'), ('S',)), (('S', X), (X, X)),
                   (('C', X, X), (X, 'C', X))]:
        T.append(ListEval({'kex': (ps, ks)}))
    # optional host keys
    for ps, ks, os_ in [((X,), (X, X), (X,)), ((X, X), (X, X, X), (X,)), ((X,), (X,), (X,)), ((X,), (X, X, X), (X, X)), ((), (X,), (X,)), ((X, X), (X, X), (X, X))]:
        T.append(ListEval({'key': (ps, ks, os_)}))
    # interactions: all pairs of list fields at 1x1 (+ a few 2x2)
    for f, g in itertools.combinations(['kex', 'key', 'enc', 'mac', 'comp'], 2):
        T.append(ListEval({f: ((X,), (X,)), g: ((X,), (X,))}))
    if not q:
        for f, g in itertools.combinations(['kex', 'key', 'enc', 'mac'], 2):
            T.append(ListEval({f: ((X, X), (X, X)), g: ((X, X), (X,))}))
        for trio in (('kex', 'key', 'enc'), ('enc', 'mac', 'comp'), ('kex', 'mac', 'comp')):
            T.append(ListEval({f: ((X,), (X,)) for f in trio}))
    for pc in CA_TYPES:
        for kc in CA_TYPES:
            if q and pc and kc and pc != kc and (pc, kc) != ('ssh-rsa', 'ssh-ed25519'):
                continue
            for nd in ([(4, 4)] if q else [(4, 4), (3, 4), (4, 3), (1, 4), (4, 5), (5, 5)]):
                T.append(SizeEval(pc, kc, nd=nd))
    T.append(SizeEval('ssh-rsa', 'ssh-rsa', nd=(1, 1)))
    T.append(SizeEval('ssh-rsa', 'ssh-rsa', nd=(3, 4)))
    T.append(SizeEval('ssh-rsa', 'ssh-rsa', present=False))
    for nd in ((4, 4), (3, 4), (4, 3), (1, 1)):
        T.append(SizeEval('', '', dh=True, nd=nd))
    T.append(SizeEval('', '', present=False, dh=True))
    for n in ((0, 1, 2) if q else (0, 1, 2, 3)):
        T.append(BannerEval(n, True))
        T.append(BannerEval(n, False))
    for f in ('kex', 'enc'):
        for ps, ks in [((X, X), (X, X)), ((X, X, X), (X, X, X))] + ([(('S', X), (X, 'S', X)), (('S', X), ('S', X))] if f == 'kex' else []):
            for d in range(len(ks)):
                if ks[d] in ('S', 'C'):
                    continue   # dropping a demanded strict-kex marker is the documented exception
                T.append(Monotone(f, ps, ks, d))
    for subset in (False, True):
        for larger in (False, True):
            for nopt in ((0, 1) if q else (0, 1, 2)):
                T.append(TextPolicyEval(subset, larger, nopt))
    for order in ('grouped', 'sizes-first', 'second-ca-only', 'ca-first'):
        T.append(LegacyDirectives(order))
    T.append(_worker_policy_harness())
    T.append(CopiedPolicyEval(False))
    T.append(CopiedPolicyEval(True))
    return T


def harness_by_name(name, params):
    k = name.split(':')[1].split('-')[0]
    if k == 'list':
        return ListEval(params['spec'])
    if k == 'size':
        return SizeEval(params['pol_ca'], params['peer_ca'], params['present'], params['dh'], params.get('nd', (4, 4)))
    if k == 'banner':
        return BannerEval(params['n'], params['with_kex'])
    if k == 'textpolicy':
        return TextPolicyEval(params['subset'], params['larger'], params['nopt'])
    if k == 'legacy':
        return LegacyDirectives(params['order'])
    if k == 'copiedpolicy':
        return CopiedPolicyEval(params['dh'])
    if k == 'workerpolicy':
        return _worker_policy_harness()
    if k == 'monotone':
        return Monotone(params['field'], params['pshape'], params['kshape'], params['drop'])
    raise KeyError(name)


META = {
    'functions': ['Policy.evaluate', 'Policy._append_error', 'Policy._get_errors', 'Policy._normalize_error_field', 'Policy._normalize_hostkey_sizes'],
    'bounds': {'quick': 'policy and peer lists of 0..3 symbolic names (1 char over the RFC 4251 name alphabet; strict-kex marker literals in chosen positions) for each of '
                        'the five list fields, both allow_* flags symbolic; optional host-key lists <=2; all 10 pairs of fields at 1x1; host-key/CA/DH sizes as all '
                        'integers of 1..4 (thorough: 5) decimal digits for 4x4 CA type combinations; banner strings',
               'thorough': 'plus 3x3 lists everywhere, 2-char names, 2x2 pair interactions, three fields at once'},
    'outside': ['lists longer than 3', 'policies with several size entries at once (entries are evaluated independently in a loop)'],
    'stubs': [],
    'assumptions': ['every evaluation starts from an empty error list: checked semantically by O10 (two worker tasks sharing one configuration)'],
}
