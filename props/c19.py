"""C19 - a standard audit's footprint on the target is small and bounded."""
import errno
import zx
from zx import s_and, s_or, s_not, s_implies, s_ite
from zx.core import SInt, mkint, cur
from vf.harness import Harness, guarded, Exc
from vf import auditenv as AE
from props import outlib as OL
from props.c06 import make_kex
from props.c09 import BANNER, kexinit_pkt, status_of

PROP = 'C19'
G1, G256 = 'diffie-hellman-group-exchange-sha1', 'diffie-hellman-group-exchange-sha256'


# ---------------------------------------------------------------------------------------------- symbolic clock
class STime:
    """fixed-point time in milliseconds backed by an int/SInt; supports the float arithmetic the rate test performs"""
    __slots__ = ('ms',)

    def __init__(self, ms):
        self.ms = ms

    @staticmethod
    def _ms(o):
        if isinstance(o, STime):
            return o.ms
        if isinstance(o, (int, float)):
            return int(round(o * 1000))
        raise TypeError(o)

    def __sub__(self, o): return STime(self.ms - self._ms(o))
    def __rsub__(self, o): return STime(self._ms(o) - self.ms)
    def __add__(self, o): return STime(self.ms + self._ms(o))
    __radd__ = __add__
    def __ge__(self, o): return self.ms >= self._ms(o)
    def __gt__(self, o): return self.ms > self._ms(o)
    def __le__(self, o): return self.ms <= self._ms(o)
    def __lt__(self, o): return self.ms < self._ms(o)
    def __eq__(self, o): return self.ms == self._ms(o)
    def __hash__(self): return id(self)
    def __rtruediv__(self, num): return SRate(num, self.ms)
    def __format__(self, spec): return '<t>'
    def __float__(self): return 0.0   # only reached by '%f' formatting of debug/notes text, which no oracle reads
    def __mod__(self, o): raise zx.ZXError('mod of symbolic time')


class SRate:
    """count / duration: only comparisons with constants are needed"""

    def __init__(self, num, den_ms):
        self.num, self.den = num, den_ms

    def __gt__(self, c): return self.num * 1000 > int(c) * self.den if float(c).is_integer() else self.num * 10000 > int(c * 10) * self.den
    def __lt__(self, c): return self.num * 1000 < int(c) * self.den
    def __format__(self, spec): return '<rate>'
    def __float__(self): return 0.0   # debug/notes text only


class Clock:
    """time.time(): arbitrary non-decreasing instants; `advance(ms)` is the contract of a blocking call that timed out"""

    def __init__(self, deltas):
        self.deltas = list(deltas)
        self.now = 0
        self.calls = 0
        self.pending = 0

    def time(self):
        self.calls += 1
        d = self.deltas.pop(0) if self.deltas else 0
        self.now = self.now + d + self.pending
        self.pending = 0
        return STime(self.now)

    def sleep(self, s):
        self.pending += int(s * 1000)


class RSock:
    """non-blocking socket of the rate test"""
    live = None

    def __init__(self, world, family, stype):
        self.w = world
        self.closed = False
        self.idx = len(world.socks)
        world.socks.append(self)
        world.open_now += 1
        world.max_open = max(world.max_open, world.open_now)

    def setblocking(self, f): pass

    def connect_ex(self, addr):
        self.w.dialled.append(addr)
        return self.w.connect_codes[self.idx % len(self.w.connect_codes)]

    def recv(self, n):
        k = self.w.reply_kind(self.idx)
        if k == 0:
            return b'SSH-2.0-'
        if k == 1:
            return b'Exceeded'
        if k == 2:
            return b'garbage!'
        if k == 4:
            raise OSError(errno.EHOSTUNREACH, 'No route to host')      # the pending non-blocking connect failed: reported by recv()
        raise ConnectionResetError(104, 'reset')

    def shutdown(self, how):
        if self.closed:
            raise OSError(9, 'bad fd')

    def close(self):
        if not self.closed:
            self.closed = True
            self.w.open_now -= 1

    def __hash__(self): return id(self)
    def __eq__(self, o): return self is o


class World:
    def __init__(self, inp, K):
        self.inp, self.K = inp, K
        self.socks, self.dialled = [], []
        self.open_now = self.max_open = 0
        self.selects = 0
        self.connect_codes = [0, errno.EINPROGRESS, errno.EWOULDBLOCK]
        self.clock = Clock(inp['deltas'])

    def reply_kind(self, idx):
        k = self.inp['kinds'][idx % len(self.inp['kinds'])]
        return k if isinstance(k, int) else k.__index__()

    # socket module surface
    AF_INET, SOCK_STREAM, SHUT_RDWR = 2, 1, 2

    def socket(self, fam, stype):
        return RSock(self, fam, stype)

    # select module surface
    def select(self, r, w, x, timeout):
        self.selects += 1
        if self.selects > self.K:
            raise zx.PathStop()
        i = self.selects - 1
        ready, exc = [], []
        for j, s in enumerate(list(r)):
            rb = self.inp['ready'][(i * 3 + j) % len(self.inp['ready'])]
            eb = self.inp['exc'][(i * 3 + j) % len(self.inp['exc'])]
            if bool(rb):
                ready.append(s)
            if bool(eb):
                exc.append(s)
        if not ready and not exc:
            self.clock.pending += int(timeout * 1000)     # contract: a select() that reports nothing blocked for the whole timeout
        return ready, [], exc


class RateTest(Harness):
    """real DHEat._dh_rate_test(max_time, max_connections, concurrent_sockets) under a symbolic clock and arbitrary per-socket answers
    (banner / 'Exceeded MaxStartups' / garbage / reset / silence): concurrent sockets <= limit, all closed on return, attempted connections <= max + concurrent."""
    prop, ob = PROP, 'O4'
    width = 64

    def __init__(self, maxc, conc, K, max_time=0.2):
        self.maxc, self.conc, self.K, self.max_time = maxc, conc, K, max_time
        self.name = 'ratetest-max%d-conc%d-K%d' % (maxc, conc, K)
        self.cost = 5 ** K
        self.deadline_s = 1500

    def params(self):
        return {'maxc': self.maxc, 'conc': self.conc, 'K': self.K, 'max_time': self.max_time}

    def inputs(self):
        n = self.K + 3
        return {'deltas': [zx.fresh_int('d%d' % i, 0, 400) for i in range(n)], 'kinds': [zx.fresh_int('k%d' % i, 0, 3) for i in range(2)],
                'ready': [zx.fresh_bool('r%d' % i) for i in range(4)], 'exc': [zx.fresh_bool('e%d' % i) for i in range(2)]}

    def run(self, M, inp):
        w = World(inp, self.K)
        kex = make_kex(M, {'kex': ['diffie-hellman-group14-sha256']})
        aconf = M.auditconf.AuditConf('target', 22)
        out = M.outputbuffer.OutputBuffer()

        class TimeMod:
            time = w.clock.time
            sleep = w.clock.sleep

        class SelectMod:
            select = w.select

        class SockMod:
            AF_INET, AF_INET6, SOCK_STREAM, SHUT_RDWR = 2, 10, 1, 2
            socket = w.socket
        orig = M.dheat.DHEat._resolve_hostname
        M.dheat.DHEat._resolve_hostname = staticmethod(lambda host, pref: (2, '192.0.2.1'))
        try:
            with AE.patched(M.dheat, time=TimeMod, select=SelectMod, socket=SockMod):
                try:
                    r = guarded(M.dheat.DHEat._dh_rate_test, out, aconf, kex, self.max_time, self.maxc, self.conc)
                    unrolled = False
                except zx.PathStop:
                    r, unrolled = None, True
        finally:
            M.dheat.DHEat._resolve_hostname = orig
        return {'ret': r if not isinstance(r, str) or r == '' else 'note', 'attempted': len(w.socks), 'max_open': w.max_open, 'open_at_end': w.open_now, 'unrolled': unrolled,
                'dialled': sorted(set(w.dialled)), 'selects': w.selects}

    def check(self, inp, obs):
        yield 'no-exception', not isinstance(obs['ret'], Exc)
        yield 'concurrent-sockets<=limit', obs['max_open'] <= self.conc
        yield 'attempted-connections<=max+concurrent', obs['attempted'] <= self.maxc + self.conc
        yield 'dials-only-the-target', obs['dialled'] in ([], [('192.0.2.1', 22)])
        if not obs['unrolled']:
            yield 'all-closed-on-return', obs['open_at_end'] == 0
        else:
            # the unroll bound K was reached: with the clock contract the loop must have ended by then unless connections keep being opened
            yield 'terminates-within-unroll-bound', obs['attempted'] > self.maxc + self.conc

    def classify(self, inp, obs, label):
        if label in ('attempted-connections<=max+concurrent', 'terminates-within-unroll-bound'):
            kinds = [k for k in inp['kinds']]
            if all(k != 0 for k in kinds[:max(1, min(4, obs['attempted']))]) or obs['attempted'] > self.maxc + self.conc:
                return 'connections-that-do-not-answer-with-a-banner-are-not-counted-against-the-cap'
        return label


# ---------------------------------------------------------------------------------------------- rate loop: inductive steps at the SHIPPED parameters
M_SHIP, C_SHIP, T_SHIP_MS = 38, 3, 1500
RATE_FN = ('dheat', 'DHEat._dh_rate_test')


def _rate_loops():
    from vf import extract
    main = extract.find_loop(*RATE_FN, lambda h, b: 'select.select' in b)
    opn = extract.find_loop(*RATE_FN, lambda h, b: 'connect_ex' in b and 'select.select' not in b)
    cleanup = extract.find_loop(*RATE_FN, lambda h, b: h == 'True' and '[*socket_dict][0]' in b)
    return main, opn, cleanup


def sock_pool(n):
    """solver variables for n sockets: connect_ex outcome, readable / exceptional at the next select, what recv returns"""
    return [{'code': zx.fresh_int('code%d' % i, 0, 3), 'kind': zx.fresh_int('kind%d' % i, 0, 4), 'ready': zx.fresh_bool('ready%d' % i), 'exc': zx.fresh_bool('exc%d' % i)}
            for i in range(n)]


def _cz(v):
    return v if isinstance(v, int) else cur().concretize(v.e)


class SSock(RSock):
    """rate-test socket whose behaviour comes from the harness's variable pool (by creation index)"""

    def __init__(self, world, family=2, stype=1):
        super().__init__(world, family, stype)
        v = world.pool[self.idx]
        self.code, self.kind, self.ready, self.exc = v['code'], v['kind'], v['ready'], v['exc']

    def connect_ex(self, addr):
        self.w.dialled.append(addr)
        return [0, errno.EINPROGRESS, errno.EWOULDBLOCK, errno.ECONNREFUSED][_cz(self.code)]


class StepWorld:
    """environment of one loop iteration"""
    AF_INET, AF_INET6, SOCK_STREAM, SHUT_RDWR = 2, 10, 1, 2

    def __init__(self, pool):
        self.pool = pool
        self.socks, self.dialled = [], []
        self.open_now = self.max_open = 0
        self.clock = Clock([])
        self.selects = 0

    def reply_kind(self, idx):
        return _cz(self.socks[idx].kind)

    def socket(self, fam, stype):
        return SSock(self, fam, stype)

    def select(self, r, w, x, timeout):
        self.selects += 1
        ready = [s_ for s_ in list(r) if bool(s_.ready)]
        exc = [s_ for s_ in list(x) if bool(s_.exc)]
        if not ready and not exc:
            self.clock.pending += int(timeout * 1000)     # contract: a select() that reports nothing blocked for the whole timeout
        return ready, [], exc

    def mods(self):
        w = self

        class TimeMod:
            time = w.clock.time
            sleep = w.clock.sleep

        class SelectMod:
            select = w.select

        class SockMod:
            AF_INET, AF_INET6, SOCK_STREAM, SHUT_RDWR = 2, 10, 1, 2
            socket = w.socket
        return {'time': TimeMod, 'select': SelectMod, 'socket': SockMod}


class RateOpenStep(Harness):
    """inductive step of the socket-opening loop of the real _dh_rate_test (loop body and loop condition extracted from the current source) at the shipped
    limits (38 connections, 3 sockets): from ANY state, if the condition holds, one iteration makes exactly one attempt to the target, attempts stay <= 38,
    tracked sockets stay <= 3, a socket is tracked iff its connect was accepted, and nothing else changes."""
    prop, ob = PROP, 'O5'
    width = 64

    def __init__(self, n):
        self.n = n
        self.name = 'rateopenstep-n%d' % n

    def params(self):
        return {'n': self.n}

    def inputs(self):
        return {'A': zx.fresh_int('A', 0, 45), 'O': zx.fresh_int('O', 0, 45), 'pool': sock_pool(self.n + 1), 'now': zx.fresh_int('now', 0, 10 ** 6)}

    def run(self, M, inp):
        from vf import extract
        _, opn, _ = _rate_loops()
        names = ['out', 'aconf', 'socket_dict', 'concurrent_sockets', 'num_opened_connections', 'max_connections', 'num_attempted_connections', 'now',
                 'target_address_family', 'target_ip_address']
        test = extract.loop_test(M, *RATE_FN, opn, names)
        body = extract.loop_body(M, *RATE_FN, opn, names, ['num_attempted_connections', 'num_opened_connections', 'socket_dict', 'max_connections', 'concurrent_sockets'])
        w = StepWorld(inp['pool'])
        now = STime(inp['now'])
        pre = [SSock(w) for _ in range(self.n)]
        d = {s_: now for s_ in pre}
        args = dict(out=M.outputbuffer.OutputBuffer(), aconf=M.auditconf.AuditConf('target', 22), socket_dict=d, concurrent_sockets=C_SHIP, num_opened_connections=inp['O'],
                    max_connections=M_SHIP, num_attempted_connections=inp['A'], now=now, target_address_family=2, target_ip_address='192.0.2.1')
        with AE.patched(M.dheat, **w.mods()):
            g = guarded(test, **args)
            if isinstance(g, Exc):
                return {'exc': g}
            if not bool(g):
                return {'guard': False}
            r = guarded(body, **args)
        if isinstance(r, Exc):
            return {'exc': r}
        nd = r['socket_dict']
        new = [s_ for s_ in w.socks if s_ not in pre]
        return {'guard': True, 'A2': r['num_attempted_connections'], 'O2': r['num_opened_connections'], 'n2': len(nd), 'pre_kept': all(s_ in nd and nd[s_] is now for s_ in pre),
                'created': len(new), 'tracked_new': [s_ in nd and nd[s_] is now for s_ in new], 'new_closed': [bool(s_.closed) for s_ in new], 'dialled': list(w.dialled), 'limits': (r['max_connections'], r['concurrent_sockets'])}

    def check(self, inp, obs):
        if 'exc' in obs:
            yield 'no-exception', False
            return
        A, O, n = inp['A'], inp['O'], self.n
        if not obs['guard']:
            # the loop is left only when there is no room: this is what bounds the summary used by the outer step
            yield 'loop-left-only-without-room', s_or(n >= C_SHIP, n + O >= M_SHIP, A >= M_SHIP)
            return
        yield 'entered-only-with-room', s_and(n < C_SHIP, A < M_SHIP)
        yield 'exactly-one-attempt', s_and(obs['A2'] == A + 1, obs['created'] == 1, obs['dialled'] == [('192.0.2.1', 22)])
        yield 'attempts<=38', obs['A2'] <= M_SHIP
        accepted = inp['pool'][self.n]['code'] != 3
        yield 'tracked-iff-accepted', s_and(s_implies(accepted, s_and(obs['n2'] == n + 1, obs['tracked_new'] == [True])), s_implies(s_not(accepted), s_and(obs['n2'] == n, obs['tracked_new'] == [False])))
        yield 'tracked<=3', obs['n2'] <= C_SHIP
        # a socket whose connect is refused at once is not tracked, so nothing would ever close it: it has to be closed on the spot (open sockets == tracked sockets)
        yield 'untracked-socket-is-closed', s_and(s_implies(s_not(accepted), obs['new_closed'] == [True]), s_implies(accepted, obs['new_closed'] == [False]))
        yield 'nothing-else-changes', s_and(obs['O2'] == O, obs['pre_kept'], obs['limits'] == (M_SHIP, C_SHIP))


class RateStep(Harness):
    """inductive step of the MAIN loop of the real _dh_rate_test at the shipped limits (1.5 s, 38, 3), its socket-opening loop replaced by the summary that
    RateOpenStep justifies: from ANY state satisfying the invariant (attempts <= 38, tracked <= 3, opened + tracked <= attempts, open sockets == tracked
    sockets) under any clock reading, any readiness pattern and any replies, one iteration re-establishes the invariant, never holds more than 3 sockets
    open, ends the loop exactly when time is up or 38 connections were opened, and otherwise makes progress in the well-founded order
    (38 - attempts, tracked, time left in 100 ms steps)."""
    prop, ob = PROP, 'O5'
    width = 64

    def __init__(self, n, k):
        # n sockets tracked on entry, k sockets accepted by the opening loop in this iteration (tracked-after-timeouts + k <= 3 is assumed inside the
        # summary): the case split over k in 0..3 is done by the task list
        self.n, self.k = n, k
        self.name = 'ratestep-n%d-k%d' % (n, k)
        self.deadline_s = 1500

    def params(self):
        return {'n': self.n, 'k': self.k}

    def inputs(self):
        inp = {'A': zx.fresh_int('A', 0, M_SHIP), 'O': zx.fresh_int('O', 0, M_SHIP), 'E': zx.fresh_int('E', 0, 1000), 'pool': sock_pool(self.n + self.k),
               'S': zx.fresh_int('S', 0, 10 ** 6), 'e0': zx.fresh_int('e0', 0, 2000), 'delta': zx.fresh_int('delta', 0, 500),
               'age': [zx.fresh_int('age%d' % i, 0, 40000) for i in range(self.n)], 'A_new': zx.fresh_int('A_new', 0, M_SHIP)}
        if zx.active():
            zx.cur().assume(inp['O'] + self.n <= inp['A'])          # invariant: every opened or tracked connection was an attempt
        return inp

    def run(self, M, inp):
        from vf import extract
        main, opn, _ = _rate_loops()
        w = StepWorld(inp['pool'])
        T0 = inp['S'] + inp['e0']
        w.clock.now = T0
        w.clock.deltas = [inp['delta']]
        start = STime(inp['S'])
        pre = [SSock(w) for _ in range(self.n)]
        d = {}
        for s_, age in zip(pre, inp['age']):
            d[s_] = STime(T0 - age)
        close = extract.nested_def(M, *RATE_FN, '_close_socket')
        summary_log = {}

        def open_summary(A, O, socket_dict, now, max_connections, concurrent_sockets):
            # any result of the opening loop allowed by RateOpenStep: k sockets accepted and tracked (stamped `now`), A2 - A >= k attempts, and the loop condition is false
            n0 = len(socket_dict)
            k = self.k
            A2 = inp['A_new']
            ok = s_and(n0 + k <= concurrent_sockets, A + k <= A2, A2 <= max_connections,
                       s_not(s_and(n0 + k < concurrent_sockets, n0 + k + O < max_connections, A2 < max_connections)),
                       s_implies(s_not(s_and(n0 < concurrent_sockets, n0 + O < max_connections, A < max_connections)), s_and(k == 0, A2 == A)))
            if zx.active():
                zx.cur().assume(ok)
            elif not ok:
                raise zx.PathInfeasible()
            for _ in range(k):
                socket_dict[SSock(w)] = now
            summary_log['k'] = k
            summary_log['open_after'] = w.open_now
            return A2
        names = ['out', 'aconf', 'max_time', 'max_connections', 'concurrent_sockets', 'interactive', 'multiline_output', 'spinner', 'spinner_index',
                 'num_attempted_connections', 'num_opened_connections', 'num_exceeded_maxstartups', 'socket_dict', 'start_timer', 'now', 'last_update',
                 'target_address_family', 'target_ip_address', '_close_socket', '_open_summary_']
        body = extract.loop_body(M, *RATE_FN, main, names, ['num_attempted_connections', 'num_opened_connections', 'num_exceeded_maxstartups', 'socket_dict', 'now'],
                                 break_flag='__broke__', replace={opn: ('_open_summary_', ['num_attempted_connections', 'num_opened_connections', 'socket_dict', 'now', 'max_connections',
                                                                                         'concurrent_sockets'], ['num_attempted_connections'])})
        args = dict(out=M.outputbuffer.OutputBuffer(), aconf=M.auditconf.AuditConf('target', 22), max_time=1.5, max_connections=M_SHIP, concurrent_sockets=C_SHIP, interactive=False,
                    multiline_output=False, spinner=['-'], spinner_index=0, num_attempted_connections=inp['A'], num_opened_connections=inp['O'],
                    num_exceeded_maxstartups=inp['E'], socket_dict=d, start_timer=start, now=STime(T0), last_update=start, target_address_family=2,
                    target_ip_address='192.0.2.1', _close_socket=close, _open_summary_=open_summary)
        with AE.patched(M.dheat, **w.mods()):
            r = guarded(body, **args)
        if isinstance(r, Exc):
            return {'exc': r}
        nd = r['socket_dict']
        T1 = w.clock.now + w.clock.pending
        return {'broke': r['__broke__'], 'A2': r['num_attempted_connections'], 'O2': r['num_opened_connections'], 'E2': r['num_exceeded_maxstartups'], 'n2': len(nd),
                'open_now': w.open_now, 'max_open': w.max_open, 'tracked_all_open': all(not s_.closed for s_ in nd), 'untracked_all_closed': all(s_.closed for s_ in w.socks if s_ not in nd),
                'now_ms': r['now'].ms, 'T1': T1, 'summary_ran': 'k' in summary_log}

    def check(self, inp, obs):
        if 'exc' in obs:
            yield 'no-exception', False
            return
        A, O, n = inp['A'], inp['O'], self.n
        T0 = inp['S'] + inp['e0']
        elapsed = obs['now_ms'] - inp['S']
        yield 'clock-read-once-per-iteration', obs['now_ms'] == T0 + inp['delta']
        time_up = elapsed >= T_SHIP_MS
        yield 'loop-ends-exactly-when-time-is-up-or-38-opened', obs['broke'] == s_or(time_up, O >= M_SHIP) if not isinstance(obs['broke'], bool) else s_and(s_implies(obs['broke'], s_or(time_up, O >= M_SHIP)), s_implies(s_not(obs['broke']), s_not(s_or(time_up, O >= M_SHIP))))
        if obs['broke']:
            yield 'leaving-the-loop-changes-nothing', s_and(obs['A2'] == A, obs['O2'] == O, obs['n2'] == n, obs['open_now'] == n)
            return
        yield 'attempts<=38', s_and(obs['A2'] >= A, obs['A2'] <= M_SHIP)
        yield 'tracked<=3-and-never-more-than-3-open', s_and(obs['n2'] <= C_SHIP, obs['max_open'] <= C_SHIP)
        yield 'open-sockets==tracked-sockets', s_and(obs['open_now'] == obs['n2'], obs['tracked_all_open'], obs['untracked_all_closed'])
        yield 'opened+tracked<=attempts', s_and(obs['O2'] >= O, obs['O2'] + obs['n2'] <= obs['A2'])
        yield 'opening-loop-reached', obs['summary_ran']
        # well-founded progress: (38 - attempts, tracked, time left) decreases lexicographically; the time component by >= 100 ms
        yield 'progress', s_or(obs['A2'] > A, s_and(obs['A2'] == A, obs['n2'] < n), s_and(obs['A2'] == A, obs['n2'] == n, obs['T1'] - T0 >= 100))


class RateCleanupStep(Harness):
    """the closing loop after the main loop: one iteration from any tracked set of n open sockets ends the loop iff none is left, else closes and untracks one."""
    prop, ob = PROP, 'O5'
    width = 64

    def __init__(self, n):
        self.n = n
        self.name = 'ratecleanupstep-n%d' % n

    def params(self):
        return {'n': self.n}

    def inputs(self):
        return {'pool': sock_pool(max(1, self.n))}

    def run(self, M, inp):
        from vf import extract
        _, _, cl = _rate_loops()
        w = StepWorld(inp['pool'])
        pre = [SSock(w) for _ in range(self.n)]
        d = {s_: STime(0) for s_ in pre}
        close = extract.nested_def(M, *RATE_FN, '_close_socket')
        body = extract.loop_body(M, *RATE_FN, cl, ['socket_dict', '_close_socket'], ['socket_dict'], break_flag='__broke__')
        with AE.patched(M.dheat, **w.mods()):
            r = guarded(body, socket_dict=d, _close_socket=close)
        if isinstance(r, Exc):
            return {'exc': r}
        return {'broke': r['__broke__'], 'n2': len(r['socket_dict']), 'open_now': w.open_now, 'untracked_closed': all(s_.closed for s_ in pre if s_ not in r['socket_dict'])}

    def check(self, inp, obs):
        if 'exc' in obs:
            yield 'no-exception', False
            return
        yield 'ends-iff-nothing-tracked', obs['broke'] == (self.n == 0)
        if not obs['broke']:
            yield 'closes-and-untracks-one', obs['n2'] == self.n - 1 and obs['open_now'] == self.n - 1 and obs['untracked_closed']


def rate_init_glue():
    """glue (syntactic, current source): before the main loop the three counters are 0 and the tracked set is empty (the invariant's base case); after it the
    closing loop follows directly; audit() passes the limits (1.5, 38, 3) (checked semantically by Orchestration)."""
    import ast, os, time
    from vf import harness as H, extract
    t0 = time.time()
    res = {'harness': 'C19/O5:rate-loop-base-case-and-exit-glue', 'ob': 'C19/O5', 'params': {}, 'status': 'ok', 'violations': [], 'paths': 1, 'decisions': 1, 'queries': 0,
           'solver_time_s': 0.0, 'xval': 0, 'replayed': 0, 'asserts': 1, 'sample': None, 'error': None, 'note': 'syntactic glue check'}
    try:
        path, fn, loops = extract._loops(*RATE_FN)
        main, opn, cl = _rate_loops()
        lp = loops[main]
        idx = fn.body.index(lp)
        before = [ast.unparse(x) for x in fn.body[:idx]]
        want = ['num_attempted_connections = 0', 'num_opened_connections = 0', 'socket_dict: Dict[socket.socket, float] = {}']
        missing = [x for x in want if x not in before]
        after_ok = fn.body[idx + 1] is loops[cl]
        if missing or not after_ok or ast.unparse(lp.test) != 'True':
            res['status'] = 'inconclusive'
            res['error'] = 'pattern drift: base case / exit shape of the rate loop changed (missing %r, cleanup follows: %r)' % (missing, after_ok)
        res['sample'] = {'inputs': {'function': 'DHEat._dh_rate_test'}, 'observation': {'before_loop': [x for x in before if x in want], 'cleanup_follows': after_ok}}
    except Exception as e:      # noqa
        res['status'] = 'inconclusive'
        res['error'] = 'pattern drift: %s' % e
    res['wall_s'] = round(time.time() - t0, 3)
    return res


# ---------------------------------------------------------------------------------------------- probe phases
class PSock:
    """SSH_Socket stand-in for the probe drivers: connect/get_banner/read_packet outcomes come from the harness"""

    def __init__(self, inp):
        self.inp = inp
        self.connected = False
        self.connects = self.closes = 0
        self.kexinits = 0
        self.kexinits_per_conn = []
        self.gex_requests_per_conn = []
        self.open_unclosed = 0
        self.reopened = 0
        self.log = []

    def _o(self, name):
        v = self.inp[name][min(self.connects - 1, len(self.inp[name]) - 1)]
        return bool(v)

    def is_connected(self): return self.connected

    def connect(self):
        self.connects += 1
        if self.connects > 200:
            raise RuntimeError('more than 200 connections opened')       # a probe driver that keeps reconnecting is cut off (and reported) instead of hanging the check
        if self.connected:
            self.reopened += 1
        self.kexinits_per_conn.append(0)
        self.gex_requests_per_conn.append(0)
        if self._o('connect_fail'):
            return '[exception] cannot connect'
        self.connected = True
        self.open_unclosed += 1
        return None

    def get_banner(self, sshv=2):
        if self._o('banner_fail'):
            return (None, [], 'timed out')
        return (object(), [], None)

    def send_kexinit(self, **kw):
        self.kexinits_per_conn[-1] += 1

    def read_packet(self, sshv=2):
        if self._o('kexinit_garbage'):
            return (20, b'\x00' * 3)
        return (20, AE.kexinit_payload(['curve25519-sha256'], ['ssh-ed25519'], ['aes128-ctr'], ['hmac-sha2-256'])[1:])

    def close(self):
        self.closes += 1
        if self.connected:
            self.open_unclosed -= 1
        self.connected = False

    # writers used by kex groups (stubbed groups do not call them)
    def write_byte(self, v): return self
    def write_int(self, v): return self
    def write_string(self, v): return self
    def write_mpint2(self, v): return self
    def send_packet(self): return (0, None)


class HostKeyPhase(Harness):
    """HostKeyTest.perform_test under arbitrary per-connection outcomes: connections <= probed types (RSA family once), every connection closed
    before the next one and before return, at most one KEXINIT and one key-exchange request per connection."""
    prop, ob = PROP, 'O1'
    width = 64

    def __init__(self, keytypes):
        self.keytypes = tuple(keytypes)
        self.name = 'hostkeyphase-' + '+'.join(k.split('@')[0] for k in keytypes)

    def params(self):
        return {'keytypes': list(self.keytypes)}

    def inputs(self):
        n = len(self.keytypes) + 1
        return {'connect_fail': [zx.fresh_bool('cf%d' % i) for i in range(n)], 'banner_fail': [zx.fresh_bool('bf%d' % i) for i in range(n)],
                'kexinit_garbage': [zx.fresh_bool('kg%d' % i) for i in range(n)], 'reply_fail': [zx.fresh_bool('rf%d' % i) for i in range(n)]}

    def run(self, M, inp):
        OL.fresh_tables(M)
        kex = make_kex(M, {'key': list(self.keytypes)})
        out = M.outputbuffer.OutputBuffer()
        s = PSock(inp)
        KE = M.kexdh.KexDHException
        inits = []

        class Grp:
            def send_init(self_, sock):
                inits.append(s.connects)

            def recv_reply(self_, sock):
                if bool(inp['reply_fail'][min(s.connects - 1, len(inp['reply_fail']) - 1)]):
                    raise KE('bad reply')
                return b'BLOB'

            def get_hostkey_size(self_): return 3072
            def get_ca_type(self_): return ''
            def get_ca_size(self_): return 0
        r = guarded(M.hostkeytest.HostKeyTest.perform_test, out, s, kex, 'curve25519-sha256', Grp(), M.hostkeytest.HostKeyTest.HOST_KEY_TYPES)
        return {'ret': r, 'connects': s.connects, 'open_unclosed': s.open_unclosed, 'kexinits': list(s.kexinits_per_conn), 'inits': list(inits), 'reopened_while_open': s.reopened}

    def check(self, inp, obs):
        yield 'no-exception', not isinstance(obs['ret'], Exc)
        from vf.harness import mods
        MP = mods()[1]
        RSA = MP.hostkeytest.HostKeyTest.RSA_FAMILY
        types = [t for t in MP.hostkeytest.HostKeyTest.HOST_KEY_TYPES if t in self.keytypes]
        # the family is probed once if a probe of one member SUCCEEDS; a failed probe may be repeated with the next member
        yield 'connections<=advertised-probed-types', obs['connects'] <= len(types)
        # a connection may stay open only when the phase gives up (the next phase / the socket's cleanup closes it: O3); never two at once
        yield 'never-two-open-connections', obs['open_unclosed'] <= 1 and obs['reopened_while_open'] == 0
        yield 'at-most-one-kexinit-per-connection', all(k <= 1 for k in obs['kexinits'])
        yield 'at-most-one-key-exchange-request-per-connection', len(obs['inits']) == len(set(obs['inits']))


class GexPhase(Harness):
    """GEXTest.run with the real _send_init/reconnect, arbitrary per-connection outcomes and a symbolic have-set: <= 9 connections per algorithm,
    at most one GEX request per connection, every connection closed."""
    prop, ob = PROP, 'O2'
    width = 64

    def __init__(self, algs, openssh):
        self.algs, self.openssh = tuple(algs), openssh
        self.name = 'gexphase-%s-%s' % ('+'.join('sha1' if a == G1 else 'sha256' for a in algs), 'openssh' if openssh else 'other')
        self.cost = 50

    def params(self):
        return {'algs': list(self.algs), 'openssh': self.openssh}

    def inputs(self):
        n = 4
        return {'connect_fail': [zx.fresh_bool('cf%d' % i) for i in range(n)], 'banner_fail': [zx.fresh_bool('bf%d' % i) for i in range(n)],
                'kexinit_garbage': [False] * n, 'reply_fail': [zx.fresh_bool('rf%d' % i) for i in range(n)],
                'have': [zx.fresh_bool('have%d' % s) for s in (512, 1024, 2048, 3072, 4096)]}

    def run(self, M, inp):
        from props.c12 import server_reply, SIZES
        OL.fresh_tables(M)
        kex = make_kex(M, {'kex': list(self.algs) + ['curve25519-sha256']})
        out = M.outputbuffer.OutputBuffer()
        s = PSock(inp)
        KE = M.kexdh.KexDHException
        hv = dict(zip((512, 1024, 2048, 3072, 4096), inp['have']))
        have = [hv.get(x, False) for x in SIZES]

        class Grp:
            def __init__(self_, out_):
                self_.size = -1

            def send_init_gex(self_, sock, mn, pref, mx):
                s.gex_requests_per_conn[-1] += 1
                if bool(inp['reply_fail'][min(s.connects - 1, len(inp['reply_fail']) - 1)]):
                    raise KE('refused')
                self_.size = server_reply(have, 'round-up', mn, pref, mx)
                if bool(self_.size == -1):
                    raise KE('no group')

            def recv_reply(self_, sock, parse=True): return b''
            def get_dh_modulus_size(self_): return self_.size
        banner = M.banner.Banner((2, 0), 'OpenSSH_8.0' if self.openssh else 'dropbear_2020.81', None, True)
        with AE.patched(M.gextest, KexGroupExchange_SHA1=Grp, KexGroupExchange_SHA256=Grp):
            r = guarded(M.gextest.GEXTest.run, out, s, banner, kex)
        return {'ret': r, 'connects': s.connects, 'open_unclosed': s.open_unclosed, 'gex': list(s.gex_requests_per_conn), 'kexinits': list(s.kexinits_per_conn)}

    def check(self, inp, obs):
        yield 'no-exception', not isinstance(obs['ret'], Exc)
        yield 'connections<=9-per-algorithm', obs['connects'] <= 9 * len(self.algs)
        yield 'all-connections-closed', obs['open_unclosed'] == 0
        yield 'at-most-one-gex-request-per-connection', all(g <= 1 for g in obs['gex'])
        yield 'at-most-one-kexinit-per-connection', all(k <= 1 for k in obs['kexinits'])


class CappedNet(AE.FakeNet):
    """scripted network that refuses to hand out more than CAP sockets (a run that keeps reconnecting is cut off and reported)"""
    CAP = 60

    def socket(self, *a, **k):
        if len(self.made) >= self.CAP:
            raise RuntimeError('more than %d connections opened' % self.CAP)
        return AE.FakeNet.socket(self, *a, **k)


class Orchestration(Harness):
    """real audit(): phases in order; the rate check runs exactly when not skipped, with the fixed limits (1.5 s, 38, 3); the DoS features never run
    without their options; every socket created is closed when audit() returns."""
    prop, ob = PROP, 'O3'
    width = 64

    def __init__(self, skip, client, policy, end='close', naddr=1):
        # naddr: the target's name resolves to that many addresses, all of which answer (dual stack, round-robin DNS): the bounds do not grow with it
        self.skip, self.client, self.policy, self.end, self.naddr = skip, client, policy, end, naddr
        self.name = 'orchestration-%s-%s-%s%s%s' % ('skip' if skip else 'rate', 'client' if client else 'server', 'policy' if policy else 'standard', '' if end == 'close' else '-' + end,
                                                    '' if naddr == 1 else '-%daddrs' % naddr)

    def params(self):
        return {'skip': self.skip, 'client': self.client, 'policy': self.policy, 'end': self.end, 'naddr': self.naddr}

    def inputs(self):
        return {'x': zx.fresh_bytes('x', 1)}

    def run(self, M, inp):
        if zx.active():
            zx.cur().stdout = []
        kexl, keyl = ['diffie-hellman-group14-sha256', G256], ['ssh-rsa', 'ssh-ed25519']
        pk = kexinit_pkt(kexl, keyl)
        # probe connections: banner, KEXINIT, one unexpected packet, then the peer closes (or resets) the connection
        conns = [AE.Conn([BANNER, pk])] + [AE.Conn([BANNER, pk, AE.frame(bytes([1]) + inp['x'])], self.end) for _ in range(12)]
        srv_net = None
        if self.end.endswith('-before-banner'):
            # every connection after the first one is accepted and then reset / closed / left silent before any banner (connection throttling, an IPS)
            conns = conns[:1]
            srv_net = CappedNet(conns, default_end=self.end.split('-')[0])
        if self.naddr > 1:
            import socket as _s
            infos = [(_s.AF_INET, _s.SOCK_STREAM, 6, '', ('192.0.2.%d' % (i + 1), 22)) if i % 2 == 0 else (_s.AF_INET6, _s.SOCK_STREAM, 6, '', ('2001:db8::%d' % (i + 1), 22, 0, 0))
                     for i in range(self.naddr)]
            srv_net = CappedNet(conns, addrinfo=infos)
        calls = []
        D = M.dheat.DHEat
        o_rate, o_run, o_init = D.dh_rate_test, D.run, D.__init__
        D.dh_rate_test = staticmethod(lambda out, aconf, kex, t, n, c: (calls.append(('rate', t, n, c)), '')[1])
        D.run = lambda self_: calls.append(('dheat-run',))
        pol = None
        if self.policy:
            from props.c06 import make_policy
            pol = make_policy(M, {'_kex': list(kexl)}, False, False)
        try:
            if self.client:
                # client audits accept one connection: listen_and_accept is replaced by handing the scripted connection over
                S = M.ssh_socket.SSH_Socket

                def fake_accept(self_):
                    c = conns[0]
                    setattr(self_, '_SSH_Socket__sock', c)
                    net.made.append(c)
                    self_.client_host = '1.2.3.4'
                net = AE.FakeNet(conns[1:])
                o_acc = S.listen_and_accept
                S.listen_and_accept = fake_accept
                try:
                    r = AE.run_audit(M, [], net=net, skip_rate=self.skip, policy=pol, extra={'client_audit': True})
                finally:
                    S.listen_and_accept = o_acc
            else:
                r = AE.run_audit(M, conns, skip_rate=self.skip, policy=pol, net=srv_net)
        finally:
            D.dh_rate_test, D.run = o_rate, o_run
        made = r['net'].made
        import gc
        r['out'] = None
        gc.collect()
        return {'ret': r['ret'], 'nconn': len(made), 'unclosed': len([c for c in made if not (c.closed or c.shut)]), 'calls': calls}

    def check(self, inp, obs):
        st = status_of(obs['ret'])
        yield 'documented-status', st is not None
        rate = [c for c in obs['calls'] if c[0] == 'rate']
        if self.client or self.skip:
            yield 'no-rate-check', rate == []
        else:
            yield 'rate-check-once-with-fixed-limits', rate == [('rate', 1.5, 38, 3)]
        yield 'dos-features-not-run', not any(c[0] == 'dheat-run' for c in obs['calls'])
        if self.client:
            yield 'client-audit-opens-no-connection', obs['nconn'] == 1
        else:
            # 1 handshake + <= 2 host-key probes (rsa family, ed25519) + <= 9 GEX probes
            yield 'connections-bounded', obs['nconn'] <= 1 + 2 + 9
        yield 'all-closed-at-exit', obs['unclosed'] == 0


class Fallback(Harness):
    """real audit() against a peer whose every connection answers, independently and arbitrarily, with the plain-text line that triggers the SSH-1 retry,
    with silence, or with an unexpected packet: at most one retry (two connections), and only when both protocol versions are enabled."""
    prop, ob = PROP, 'O3'
    width = 64
    LINE = b'Protocol major versions differ.\n'

    def __init__(self, ssh1, ssh2, n=4):
        self.ssh1, self.ssh2, self.n = ssh1, ssh2, n
        self.name = 'fallback-ssh1(%d)-ssh2(%d)-n%d' % (ssh1, ssh2, n)

    def params(self):
        return {'ssh1': self.ssh1, 'ssh2': self.ssh2, 'n': self.n}

    def inputs(self):
        return {'kind': [zx.fresh_int('k%d' % i, 0, 2) for i in range(self.n)]}

    def run(self, M, inp):
        if zx.active():
            zx.cur().stdout = []
        conns = []
        for k in inp['kind']:
            k = zx.cur().concretize(k.e) if zx.active() and not isinstance(k, int) else int(k)          # finite case split: three reply kinds per connection
            if k == 0:
                conns.append(AE.Conn([BANNER, self.LINE], 'close'))
            elif k == 1:
                conns.append(AE.Conn([BANNER], 'close'))
            else:
                conns.append(AE.Conn([BANNER, AE.frame(bytes([99]) + b'zz')], 'close'))
        net = AE.FakeNet(conns)
        r = AE.run_audit(M, [], net=net, ssh1=self.ssh1, ssh2=self.ssh2)
        made = net.made
        peak = 0
        import gc
        open_now = len([c for c in made if not (c.closed or c.shut)])
        r['out'] = None
        gc.collect()
        return {'ret': r['ret'], 'nconn': len(made), 'open_at_return': open_now, 'unclosed': len([c for c in made if not (c.closed or c.shut)])}

    def check(self, inp, obs):
        yield 'documented-status', status_of(obs['ret']) is not None
        both = self.ssh1 and self.ssh2
        yield 'at-most-one-retry', obs['nconn'] <= (2 if both else 1)
        yield 'retry-only-after-the-version-mismatch-line', s_implies(inp['kind'][0] != 0, obs['nconn'] == 1)
        yield 'all-closed-at-exit', obs['unclosed'] == 0


class OptionsDoNotEnableDos(Harness):
    """real process_commandline for every combination of the ordinary options (symbolic flags, level, port, timeout, threads): unless --dheat / --conn-rate-test /
    --gex-test themselves are given, the resulting configuration has none of these features switched on."""
    prop, ob = PROP, 'O3'
    width = 64
    name = 'options-do-not-enable-dos-features'

    def inputs(self):
        return {'b': {k: zx.fresh_bool(k) for k in ('verbose', 'ssh1', 'ssh2', 'ipv4', 'skip_rate_test')},
                'json': zx.fresh_int('json', 0, 2), 'level': zx.fresh_int('level', 0, 2)}

    def run(self, M, inp):
        from props.c18 import StubArgparse
        if zx.active():
            zx.cur().stdout = []
        cz = lambda v: v if isinstance(v, int) else zx.cur().concretize(v.e)
        vals = {k: bool(v) for k, v in inp['b'].items()}
        vals.update({'host': 'target', 'json': cz(inp['json']), 'level': ['info', 'warn', 'fail'][cz(inp['level'])], 'oport': 2222, 'timeout': 7, 'threads': 4})
        vals.update({'batch': True, 'no_colors': True, 'debug': False, 'ipv6': True})
        args = ['target'] + (['-4'] if vals['ipv4'] else []) + ['-6']
        out = M.outputbuffer.OutputBuffer()
        import io, contextlib
        with AE.patched(M.ssh_audit, argparse=StubArgparse(vals)), contextlib.redirect_stdout(io.StringIO()):
            r = guarded(M.ssh_audit.process_commandline, out, args)
        if isinstance(r, Exc):
            return {'exc': r}
        return {'dheat': r.dheat, 'rate': r.conn_rate_test_enabled, 'gex': r.gex_test, 'skip': r.skip_rate_test, 'want_skip': vals['skip_rate_test']}

    def check(self, inp, obs):
        if 'exc' in obs:
            yield 'no-exception', False
            return
        yield 'dos-and-flood-features-off', obs['dheat'] is None and obs['rate'] is False and obs['gex'] == ''
        yield 'skip-rate-test-as-given', obs['skip'] == obs['want_skip']


def _worker_keeps():
    from props.c07 import WorkerConfig

    class WorkerKeepsOptions(WorkerConfig):
        """(C19 view) --skip-rate-test and every other option reach the per-target configuration of a target-list scan"""
        prop, ob = PROP, 'O3'
        name = 'worker-keeps-skip-rate-test-and-all-other-options'
    return WorkerKeepsOptions()


def tasks(tier):
    q = tier == 'quick'
    T = []
    for maxc, conc, K in ([(2, 1, 7), (1, 1, 6), (2, 2, 8)] if q else [(2, 1, 7), (1, 1, 6), (2, 2, 8), (3, 1, 8), (3, 2, 9)]):
        T.append(RateTest(maxc, conc, K))
    fam = ['ssh-rsa', 'rsa-sha2-256', 'rsa-sha2-512']
    # a server may repeat a name in its host-key list: the bound is per TYPE, whatever the list's length
    T.append(HostKeyPhase(('ssh-ed25519', 'ssh-ed25519', 'ssh-ed25519')))
    T.append(HostKeyPhase(('ssh-rsa', 'ssh-ed25519', 'ssh-rsa', 'ssh-ed25519')))
    for kts in ([('ssh-rsa',), tuple(fam), ('ssh-ed25519', 'rsa-sha2-512'), ('ssh-rsa', 'ssh-rsa-cert-v01@openssh.com', 'ssh-ed25519')] if q else
                [('ssh-rsa',), tuple(fam), ('ssh-ed25519', 'rsa-sha2-512'), ('ssh-rsa', 'ssh-rsa-cert-v01@openssh.com', 'ssh-ed25519'), ('ecdsa-sha2-nistp256', 'ssh-dss'),
                 ('rsa-sha2-256', 'ssh-ed25519', 'ssh-ed25519-cert-v01@openssh.com', 'ecdsa-sha2-nistp521')]):
        T.append(HostKeyPhase(kts))
    for algs in ((G256,), (G1, G256)):
        for openssh in (False, True):
            T.append(GexPhase(algs, openssh))
    for skip in (True, False):
        for client in (False, True):
            for policy in (False, True):
                T.append(Orchestration(skip, client, policy))
    T.append(Orchestration(True, False, False, 'reset'))
    T.append(Orchestration(True, False, True, 'reset'))
    for e in ('reset-before-banner', 'close-before-banner', 'timeout-before-banner'):
        T.append(Orchestration(True, False, False, e))
    T.append(Orchestration(True, False, False, 'close', 2))
    T.append(Orchestration(True, False, True, 'close', 3))
    for ssh1, ssh2 in ((True, True), (True, False), (False, True)):
        T.append(Fallback(ssh1, ssh2, 3 if q else 5))
    for n in range(C_SHIP + 1):
        T.append(RateOpenStep(n))
        T.append(RateCleanupStep(n))
    for n in range(C_SHIP + 1):
        for k in range(C_SHIP + 1):
            if q and n + k > 2:
                continue        # three live sockets in one iteration: thorough tier
            T.append(RateStep(n, k))
    T.append(rate_init_glue)
    T.append(_worker_keeps())
    T.append(OptionsDoNotEnableDos())
    return T


def harness_by_name(name, params):
    k = name.split(':')[1].split('-')[0]
    p = params
    if k == 'ratetest':
        return RateTest(p['maxc'], p['conc'], p['K'], p['max_time'])
    if k == 'hostkeyphase':
        return HostKeyPhase(p['keytypes'])
    if k == 'gexphase':
        return GexPhase(p['algs'], p['openssh'])
    if k == 'worker':
        return _worker_keeps()
    if k == 'options':
        return OptionsDoNotEnableDos()
    if k == 'rateopenstep':
        return RateOpenStep(p['n'])
    if k == 'ratestep':
        return RateStep(p['n'], p['k'])
    if k == 'ratecleanupstep':
        return RateCleanupStep(p['n'])
    if k == 'fallback':
        return Fallback(p['ssh1'], p['ssh2'], p['n'])
    if k == 'orchestration':
        return Orchestration(p['skip'], p['client'], p['policy'], p.get('end', 'close'), p.get('naddr', 1))
    raise KeyError(name)


META = {
    'functions': ['DHEat._dh_rate_test', 'HostKeyTest.perform_test', 'GEXTest.run/_send_init/reconnect', 'audit()', 'SSH_Socket.connect/close/__cleanup'],
    'bounds': {'quick': 'rate check with parameters (max_connections, concurrent) in {(2,1),(3,2),(1,1)}, max_time 0.3 s, symbolic clock (arbitrary non-decreasing instants; an empty '
                        'select() blocks for its timeout), <= 4..6 select() rounds, every per-socket answer class (banner/Exceeded/garbage/reset/silence/exception); host-key '
                        'phase with every connect/banner/KEXINIT/reply outcome vector for 4 host-key sets; GEX phase with every outcome vector over 4 outcome slots and a symbolic '
                        'have-set; orchestration for skip x role x policy',
               'thorough': 'more parameter pairs and rounds'},
    'outside': ['O4 explores whole runs of the loop for small parameter values only; the shipped parameters are covered by the inductive steps of O5, whose composition (invariant + well-founded '
                'order => at most 38 attempts, at most 3 open, all closed, termination) is a paper argument stated in DESIGN.md, and whose base case / exit shape is a syntactic check', 'OS-level socket state after close()',
                'sockets whose non-blocking connect fails immediately are dropped without an explicit close (CPython closes them when the name is rebound)'],
    'stubs': ['time.time/sleep: symbolic clock', 'select.select: arbitrary subsets (empty result = blocked for the timeout)', 'socket.socket/connect_ex/recv: RSock world',
              'probe sockets: PSock (outcomes symbolic)', 'key-exchange groups: stub classes driven by the harness'],
    'assumptions': ['O5: the summary of the opening loop used in the main-loop step is the strongest post-condition that RateOpenStep justifies (k accepted sockets stamped now, '
                    'attempts grow by >= k and stay <= 38, loop condition false on exit)'],
}
