"""C19 - a standard audit's footprint on the target is small and bounded."""
import errno
import zx
from zx import s_and, s_or, s_not, s_implies, s_ite
from zx.core import SInt, mkint, cur
from vf.harness import Harness, guarded, Exc
from vf import auditenv as AE
from props import outlib as OL
from props.c06 import make_kex
from props.c09 import BANNER, kexinit_pkt, status_of

PROP = 'C19'
G1, G256 = 'diffie-hellman-group-exchange-sha1', 'diffie-hellman-group-exchange-sha256'


# ---------------------------------------------------------------------------------------------- symbolic clock
class STime:
    """fixed-point time in milliseconds backed by an int/SInt; supports the float arithmetic the rate test performs"""
    __slots__ = ('ms',)

    def __init__(self, ms):
        self.ms = ms

    @staticmethod
    def _ms(o):
        if isinstance(o, STime):
            return o.ms
        if isinstance(o, (int, float)):
            return int(round(o * 1000))
        raise TypeError(o)

    def __sub__(self, o): return STime(self.ms - self._ms(o))
    def __rsub__(self, o): return STime(self._ms(o) - self.ms)
    def __add__(self, o): return STime(self.ms + self._ms(o))
    __radd__ = __add__
    def __ge__(self, o): return self.ms >= self._ms(o)
    def __gt__(self, o): return self.ms > self._ms(o)
    def __le__(self, o): return self.ms <= self._ms(o)
    def __lt__(self, o): return self.ms < self._ms(o)
    def __eq__(self, o): return self.ms == self._ms(o)
    def __hash__(self): return id(self)
    def __rtruediv__(self, num): return SRate(num, self.ms)
    def __format__(self, spec): return '<t>'
    def __float__(self): return 0.0   # only reached by '%f' formatting of debug/notes text, which no oracle reads
    def __mod__(self, o): raise zx.ZXError('mod of symbolic time')


class SRate:
    """count / duration: only comparisons with constants are needed"""

    def __init__(self, num, den_ms):
        self.num, self.den = num, den_ms

    def __gt__(self, c): return self.num * 1000 > int(c) * self.den if float(c).is_integer() else self.num * 10000 > int(c * 10) * self.den
    def __lt__(self, c): return self.num * 1000 < int(c) * self.den
    def __format__(self, spec): return '<rate>'
    def __float__(self): return 0.0   # debug/notes text only


class Clock:
    """time.time(): arbitrary non-decreasing instants; `advance(ms)` is the contract of a blocking call that timed out"""

    def __init__(self, deltas):
        self.deltas = list(deltas)
        self.now = 0
        self.calls = 0
        self.pending = 0

    def time(self):
        self.calls += 1
        d = self.deltas.pop(0) if self.deltas else 0
        self.now = self.now + d + self.pending
        self.pending = 0
        return STime(self.now)

    def sleep(self, s):
        self.pending += int(s * 1000)


class RSock:
    """non-blocking socket of the rate test"""
    live = None

    def __init__(self, world, family, stype):
        self.w = world
        self.closed = False
        self.idx = len(world.socks)
        world.socks.append(self)
        world.open_now += 1
        world.max_open = max(world.max_open, world.open_now)

    def setblocking(self, f): pass

    def connect_ex(self, addr):
        self.w.dialled.append(addr)
        return self.w.connect_codes[self.idx % len(self.w.connect_codes)]

    def recv(self, n):
        k = self.w.reply_kind(self.idx)
        if k == 0:
            return b'SSH-2.0-'
        if k == 1:
            return b'Exceeded'
        if k == 2:
            return b'garbage!'
        raise ConnectionResetError(104, 'reset')

    def shutdown(self, how):
        if self.closed:
            raise OSError(9, 'bad fd')

    def close(self):
        if not self.closed:
            self.closed = True
            self.w.open_now -= 1

    def __hash__(self): return id(self)
    def __eq__(self, o): return self is o


class World:
    def __init__(self, inp, K):
        self.inp, self.K = inp, K
        self.socks, self.dialled = [], []
        self.open_now = self.max_open = 0
        self.selects = 0
        self.connect_codes = [0, errno.EINPROGRESS, errno.EWOULDBLOCK]
        self.clock = Clock(inp['deltas'])

    def reply_kind(self, idx):
        k = self.inp['kinds'][idx % len(self.inp['kinds'])]
        return k if isinstance(k, int) else k.__index__()

    # socket module surface
    AF_INET, SOCK_STREAM, SHUT_RDWR = 2, 1, 2

    def socket(self, fam, stype):
        return RSock(self, fam, stype)

    # select module surface
    def select(self, r, w, x, timeout):
        self.selects += 1
        if self.selects > self.K:
            raise zx.PathStop()
        i = self.selects - 1
        ready, exc = [], []
        for j, s in enumerate(list(r)):
            rb = self.inp['ready'][(i * 3 + j) % len(self.inp['ready'])]
            eb = self.inp['exc'][(i * 3 + j) % len(self.inp['exc'])]
            if bool(rb):
                ready.append(s)
            if bool(eb):
                exc.append(s)
        if not ready and not exc:
            self.clock.pending += int(timeout * 1000)     # contract: a select() that reports nothing blocked for the whole timeout
        return ready, [], exc


class RateTest(Harness):
    """real DHEat._dh_rate_test(max_time, max_connections, concurrent_sockets) under a symbolic clock and arbitrary per-socket answers
    (banner / 'Exceeded MaxStartups' / garbage / reset / silence): concurrent sockets <= limit, all closed on return, attempted connections <= max + concurrent."""
    prop, ob = PROP, 'O4'
    width = 64

    def __init__(self, maxc, conc, K, max_time=0.2):
        self.maxc, self.conc, self.K, self.max_time = maxc, conc, K, max_time
        self.name = 'ratetest-max%d-conc%d-K%d' % (maxc, conc, K)
        self.cost = 5 ** K
        self.deadline_s = 1500

    def params(self):
        return {'maxc': self.maxc, 'conc': self.conc, 'K': self.K, 'max_time': self.max_time}

    def inputs(self):
        n = self.K + 3
        return {'deltas': [zx.fresh_int('d%d' % i, 0, 400) for i in range(n)], 'kinds': [zx.fresh_int('k%d' % i, 0, 3) for i in range(2)],
                'ready': [zx.fresh_bool('r%d' % i) for i in range(4)], 'exc': [zx.fresh_bool('e%d' % i) for i in range(2)]}

    def run(self, M, inp):
        w = World(inp, self.K)
        kex = make_kex(M, {'kex': ['diffie-hellman-group14-sha256']})
        aconf = M.auditconf.AuditConf('target', 22)
        out = M.outputbuffer.OutputBuffer()

        class TimeMod:
            time = w.clock.time
            sleep = w.clock.sleep

        class SelectMod:
            select = w.select

        class SockMod:
            AF_INET, AF_INET6, SOCK_STREAM, SHUT_RDWR = 2, 10, 1, 2
            socket = w.socket
        orig = M.dheat.DHEat._resolve_hostname
        M.dheat.DHEat._resolve_hostname = staticmethod(lambda host, pref: (2, '192.0.2.1'))
        try:
            with AE.patched(M.dheat, time=TimeMod, select=SelectMod, socket=SockMod):
                try:
                    r = guarded(M.dheat.DHEat._dh_rate_test, out, aconf, kex, self.max_time, self.maxc, self.conc)
                    unrolled = False
                except zx.PathStop:
                    r, unrolled = None, True
        finally:
            M.dheat.DHEat._resolve_hostname = orig
        return {'ret': r if not isinstance(r, str) or r == '' else 'note', 'attempted': len(w.socks), 'max_open': w.max_open, 'open_at_end': w.open_now, 'unrolled': unrolled,
                'dialled': sorted(set(w.dialled)), 'selects': w.selects}

    def check(self, inp, obs):
        yield 'no-exception', not isinstance(obs['ret'], Exc)
        yield 'concurrent-sockets<=limit', obs['max_open'] <= self.conc
        yield 'attempted-connections<=max+concurrent', obs['attempted'] <= self.maxc + self.conc
        yield 'dials-only-the-target', obs['dialled'] in ([], [('192.0.2.1', 22)])
        if not obs['unrolled']:
            yield 'all-closed-on-return', obs['open_at_end'] == 0
        else:
            # the unroll bound K was reached: with the clock contract the loop must have ended by then unless connections keep being opened
            yield 'terminates-within-unroll-bound', obs['attempted'] > self.maxc + self.conc

    def classify(self, inp, obs, label):
        if label in ('attempted-connections<=max+concurrent', 'terminates-within-unroll-bound'):
            kinds = [k for k in inp['kinds']]
            if all(k != 0 for k in kinds[:max(1, min(4, obs['attempted']))]) or obs['attempted'] > self.maxc + self.conc:
                return 'connections-that-do-not-answer-with-a-banner-are-not-counted-against-the-cap'
        return label


# ---------------------------------------------------------------------------------------------- probe phases
class PSock:
    """SSH_Socket stand-in for the probe drivers: connect/get_banner/read_packet outcomes come from the harness"""

    def __init__(self, inp):
        self.inp = inp
        self.connected = False
        self.connects = self.closes = 0
        self.kexinits = 0
        self.kexinits_per_conn = []
        self.gex_requests_per_conn = []
        self.open_unclosed = 0
        self.reopened = 0
        self.log = []

    def _o(self, name):
        v = self.inp[name][min(self.connects - 1, len(self.inp[name]) - 1)]
        return bool(v)

    def is_connected(self): return self.connected

    def connect(self):
        self.connects += 1
        if self.connected:
            self.reopened += 1
        self.kexinits_per_conn.append(0)
        self.gex_requests_per_conn.append(0)
        if self._o('connect_fail'):
            return '[exception] cannot connect'
        self.connected = True
        self.open_unclosed += 1
        return None

    def get_banner(self, sshv=2):
        if self._o('banner_fail'):
            return (None, [], 'timed out')
        return (object(), [], None)

    def send_kexinit(self, **kw):
        self.kexinits_per_conn[-1] += 1

    def read_packet(self, sshv=2):
        if self._o('kexinit_garbage'):
            return (20, b'\x00' * 3)
        return (20, AE.kexinit_payload(['curve25519-sha256'], ['ssh-ed25519'], ['aes128-ctr'], ['hmac-sha2-256'])[1:])

    def close(self):
        self.closes += 1
        if self.connected:
            self.open_unclosed -= 1
        self.connected = False

    # writers used by kex groups (stubbed groups do not call them)
    def write_byte(self, v): return self
    def write_int(self, v): return self
    def write_string(self, v): return self
    def write_mpint2(self, v): return self
    def send_packet(self): return (0, None)


class HostKeyPhase(Harness):
    """HostKeyTest.perform_test under arbitrary per-connection outcomes: connections <= probed types (RSA family once), every connection closed
    before the next one and before return, at most one KEXINIT and one key-exchange request per connection."""
    prop, ob = PROP, 'O1'
    width = 64

    def __init__(self, keytypes):
        self.keytypes = tuple(keytypes)
        self.name = 'hostkeyphase-' + '+'.join(k.split('@')[0] for k in keytypes)

    def params(self):
        return {'keytypes': list(self.keytypes)}

    def inputs(self):
        n = len(self.keytypes) + 1
        return {'connect_fail': [zx.fresh_bool('cf%d' % i) for i in range(n)], 'banner_fail': [zx.fresh_bool('bf%d' % i) for i in range(n)],
                'kexinit_garbage': [zx.fresh_bool('kg%d' % i) for i in range(n)], 'reply_fail': [zx.fresh_bool('rf%d' % i) for i in range(n)]}

    def run(self, M, inp):
        OL.fresh_tables(M)
        kex = make_kex(M, {'key': list(self.keytypes)})
        out = M.outputbuffer.OutputBuffer()
        s = PSock(inp)
        KE = M.kexdh.KexDHException
        inits = []

        class Grp:
            def send_init(self_, sock):
                inits.append(s.connects)

            def recv_reply(self_, sock):
                if bool(inp['reply_fail'][min(s.connects - 1, len(inp['reply_fail']) - 1)]):
                    raise KE('bad reply')
                return b'BLOB'

            def get_hostkey_size(self_): return 3072
            def get_ca_type(self_): return ''
            def get_ca_size(self_): return 0
        r = guarded(M.hostkeytest.HostKeyTest.perform_test, out, s, kex, 'curve25519-sha256', Grp(), M.hostkeytest.HostKeyTest.HOST_KEY_TYPES)
        return {'ret': r, 'connects': s.connects, 'open_unclosed': s.open_unclosed, 'kexinits': list(s.kexinits_per_conn), 'inits': list(inits), 'reopened_while_open': s.reopened}

    def check(self, inp, obs):
        yield 'no-exception', not isinstance(obs['ret'], Exc)
        from vf.harness import mods
        MP = mods()[1]
        RSA = MP.hostkeytest.HostKeyTest.RSA_FAMILY
        types = [t for t in MP.hostkeytest.HostKeyTest.HOST_KEY_TYPES if t in self.keytypes]
        # the family is probed once if a probe of one member SUCCEEDS; a failed probe may be repeated with the next member
        yield 'connections<=advertised-probed-types', obs['connects'] <= len(types)
        # a connection may stay open only when the phase gives up (the next phase / the socket's cleanup closes it: O3); never two at once
        yield 'never-two-open-connections', obs['open_unclosed'] <= 1 and obs['reopened_while_open'] == 0
        yield 'at-most-one-kexinit-per-connection', all(k <= 1 for k in obs['kexinits'])
        yield 'at-most-one-key-exchange-request-per-connection', len(obs['inits']) == len(set(obs['inits']))


class GexPhase(Harness):
    """GEXTest.run with the real _send_init/reconnect, arbitrary per-connection outcomes and a symbolic have-set: <= 9 connections per algorithm,
    at most one GEX request per connection, every connection closed."""
    prop, ob = PROP, 'O2'
    width = 64

    def __init__(self, algs, openssh):
        self.algs, self.openssh = tuple(algs), openssh
        self.name = 'gexphase-%s-%s' % ('+'.join('sha1' if a == G1 else 'sha256' for a in algs), 'openssh' if openssh else 'other')
        self.cost = 50

    def params(self):
        return {'algs': list(self.algs), 'openssh': self.openssh}

    def inputs(self):
        n = 4
        return {'connect_fail': [zx.fresh_bool('cf%d' % i) for i in range(n)], 'banner_fail': [zx.fresh_bool('bf%d' % i) for i in range(n)],
                'kexinit_garbage': [False] * n, 'reply_fail': [zx.fresh_bool('rf%d' % i) for i in range(n)],
                'have': [zx.fresh_bool('have%d' % s) for s in (512, 1024, 2048, 3072, 4096)]}

    def run(self, M, inp):
        from props.c12 import server_reply, SIZES
        OL.fresh_tables(M)
        kex = make_kex(M, {'kex': list(self.algs) + ['curve25519-sha256']})
        out = M.outputbuffer.OutputBuffer()
        s = PSock(inp)
        KE = M.kexdh.KexDHException
        hv = dict(zip((512, 1024, 2048, 3072, 4096), inp['have']))
        have = [hv.get(x, False) for x in SIZES]

        class Grp:
            def __init__(self_, out_):
                self_.size = -1

            def send_init_gex(self_, sock, mn, pref, mx):
                s.gex_requests_per_conn[-1] += 1
                if bool(inp['reply_fail'][min(s.connects - 1, len(inp['reply_fail']) - 1)]):
                    raise KE('refused')
                self_.size = server_reply(have, 'round-up', mn, pref, mx)
                if bool(self_.size == -1):
                    raise KE('no group')

            def recv_reply(self_, sock, parse=True): return b''
            def get_dh_modulus_size(self_): return self_.size
        banner = M.banner.Banner((2, 0), 'OpenSSH_8.0' if self.openssh else 'dropbear_2020.81', None, True)
        with AE.patched(M.gextest, KexGroupExchange_SHA1=Grp, KexGroupExchange_SHA256=Grp):
            r = guarded(M.gextest.GEXTest.run, out, s, banner, kex)
        return {'ret': r, 'connects': s.connects, 'open_unclosed': s.open_unclosed, 'gex': list(s.gex_requests_per_conn), 'kexinits': list(s.kexinits_per_conn)}

    def check(self, inp, obs):
        yield 'no-exception', not isinstance(obs['ret'], Exc)
        yield 'connections<=9-per-algorithm', obs['connects'] <= 9 * len(self.algs)
        yield 'all-connections-closed', obs['open_unclosed'] == 0
        yield 'at-most-one-gex-request-per-connection', all(g <= 1 for g in obs['gex'])
        yield 'at-most-one-kexinit-per-connection', all(k <= 1 for k in obs['kexinits'])


class Orchestration(Harness):
    """real audit(): phases in order; the rate check runs exactly when not skipped, with the fixed limits (1.5 s, 38, 3); the DoS features never run
    without their options; every socket created is closed when audit() returns."""
    prop, ob = PROP, 'O3'
    width = 64

    def __init__(self, skip, client, policy):
        self.skip, self.client, self.policy = skip, client, policy
        self.name = 'orchestration-%s-%s-%s' % ('skip' if skip else 'rate', 'client' if client else 'server', 'policy' if policy else 'standard')

    def params(self):
        return {'skip': self.skip, 'client': self.client, 'policy': self.policy}

    def inputs(self):
        return {'x': zx.fresh_bytes('x', 1)}

    def run(self, M, inp):
        if zx.active():
            zx.cur().stdout = []
        kexl, keyl = ['diffie-hellman-group14-sha256', G256], ['ssh-rsa', 'ssh-ed25519']
        pk = kexinit_pkt(kexl, keyl)
        conns = [AE.Conn([BANNER, pk])] + [AE.Conn([BANNER, pk, AE.frame(bytes([1]) + inp['x'])]) for _ in range(12)]
        calls = []
        D = M.dheat.DHEat
        o_rate, o_run, o_init = D.dh_rate_test, D.run, D.__init__
        D.dh_rate_test = staticmethod(lambda out, aconf, kex, t, n, c: (calls.append(('rate', t, n, c)), '')[1])
        D.run = lambda self_: calls.append(('dheat-run',))
        pol = None
        if self.policy:
            from props.c06 import make_policy
            pol = make_policy(M, {'_kex': list(kexl)}, False, False)
        try:
            if self.client:
                # client audits accept one connection: listen_and_accept is replaced by handing the scripted connection over
                S = M.ssh_socket.SSH_Socket

                def fake_accept(self_):
                    c = conns[0]
                    setattr(self_, '_SSH_Socket__sock', c)
                    net.made.append(c)
                    self_.client_host = '1.2.3.4'
                net = AE.FakeNet(conns[1:])
                o_acc = S.listen_and_accept
                S.listen_and_accept = fake_accept
                try:
                    r = AE.run_audit(M, [], net=net, skip_rate=self.skip, policy=pol, extra={'client_audit': True})
                finally:
                    S.listen_and_accept = o_acc
            else:
                r = AE.run_audit(M, conns, skip_rate=self.skip, policy=pol)
        finally:
            D.dh_rate_test, D.run = o_rate, o_run
        made = r['net'].made
        import gc
        r['out'] = None
        gc.collect()
        return {'ret': r['ret'], 'nconn': len(made), 'unclosed': len([c for c in made if not (c.closed or c.shut)]), 'calls': calls}

    def check(self, inp, obs):
        st = status_of(obs['ret'])
        yield 'documented-status', st is not None
        rate = [c for c in obs['calls'] if c[0] == 'rate']
        if self.client or self.skip:
            yield 'no-rate-check', rate == []
        else:
            yield 'rate-check-once-with-fixed-limits', rate == [('rate', 1.5, 38, 3)]
        yield 'dos-features-not-run', not any(c[0] == 'dheat-run' for c in obs['calls'])
        if self.client:
            yield 'client-audit-opens-no-connection', obs['nconn'] == 1
        else:
            # 1 handshake + <= 2 host-key probes (rsa family, ed25519) + <= 9 GEX probes
            yield 'connections-bounded', obs['nconn'] <= 1 + 2 + 9
        yield 'all-closed-at-exit', obs['unclosed'] == 0


class Fallback(Harness):
    """real audit() against a peer whose every connection answers, independently and arbitrarily, with the plain-text line that triggers the SSH-1 retry,
    with silence, or with an unexpected packet: at most one retry (two connections), and only when both protocol versions are enabled."""
    prop, ob = PROP, 'O3'
    width = 64
    LINE = b'Protocol major versions differ.\n'

    def __init__(self, ssh1, ssh2, n=4):
        self.ssh1, self.ssh2, self.n = ssh1, ssh2, n
        self.name = 'fallback-ssh1(%d)-ssh2(%d)-n%d' % (ssh1, ssh2, n)

    def params(self):
        return {'ssh1': self.ssh1, 'ssh2': self.ssh2, 'n': self.n}

    def inputs(self):
        return {'kind': [zx.fresh_int('k%d' % i, 0, 2) for i in range(self.n)]}

    def run(self, M, inp):
        if zx.active():
            zx.cur().stdout = []
        conns = []
        for k in inp['kind']:
            k = zx.cur().concretize(k.e) if zx.active() and not isinstance(k, int) else int(k)          # finite case split: three reply kinds per connection
            if k == 0:
                conns.append(AE.Conn([BANNER, self.LINE], 'close'))
            elif k == 1:
                conns.append(AE.Conn([BANNER], 'close'))
            else:
                conns.append(AE.Conn([BANNER, AE.frame(bytes([99]) + b'zz')], 'close'))
        net = AE.FakeNet(conns)
        r = AE.run_audit(M, [], net=net, ssh1=self.ssh1, ssh2=self.ssh2)
        made = net.made
        peak = 0
        import gc
        open_now = len([c for c in made if not (c.closed or c.shut)])
        r['out'] = None
        gc.collect()
        return {'ret': r['ret'], 'nconn': len(made), 'open_at_return': open_now, 'unclosed': len([c for c in made if not (c.closed or c.shut)])}

    def check(self, inp, obs):
        yield 'documented-status', status_of(obs['ret']) is not None
        both = self.ssh1 and self.ssh2
        yield 'at-most-one-retry', obs['nconn'] <= (2 if both else 1)
        yield 'retry-only-after-the-version-mismatch-line', s_implies(inp['kind'][0] != 0, obs['nconn'] == 1)
        yield 'all-closed-at-exit', obs['unclosed'] == 0


def tasks(tier):
    q = tier == 'quick'
    T = []
    for maxc, conc, K in ([(2, 1, 7), (1, 1, 6), (2, 2, 8)] if q else [(2, 1, 7), (1, 1, 6), (2, 2, 8), (3, 1, 8), (3, 2, 9)]):
        T.append(RateTest(maxc, conc, K))
    fam = ['ssh-rsa', 'rsa-sha2-256', 'rsa-sha2-512']
    for kts in ([('ssh-rsa',), tuple(fam), ('ssh-ed25519', 'rsa-sha2-512'), ('ssh-rsa', 'ssh-rsa-cert-v01@openssh.com', 'ssh-ed25519')] if q else
                [('ssh-rsa',), tuple(fam), ('ssh-ed25519', 'rsa-sha2-512'), ('ssh-rsa', 'ssh-rsa-cert-v01@openssh.com', 'ssh-ed25519'), ('ecdsa-sha2-nistp256', 'ssh-dss'),
                 ('rsa-sha2-256', 'ssh-ed25519', 'ssh-ed25519-cert-v01@openssh.com', 'ecdsa-sha2-nistp521')]):
        T.append(HostKeyPhase(kts))
    for algs in ((G256,), (G1, G256)):
        for openssh in (False, True):
            T.append(GexPhase(algs, openssh))
    for skip in (True, False):
        for client in (False, True):
            for policy in (False, True):
                T.append(Orchestration(skip, client, policy))
    for ssh1, ssh2 in ((True, True), (True, False), (False, True)):
        T.append(Fallback(ssh1, ssh2, 3 if q else 5))
    return T


def harness_by_name(name, params):
    k = name.split(':')[1].split('-')[0]
    p = params
    if k == 'ratetest':
        return RateTest(p['maxc'], p['conc'], p['K'], p['max_time'])
    if k == 'hostkeyphase':
        return HostKeyPhase(p['keytypes'])
    if k == 'gexphase':
        return GexPhase(p['algs'], p['openssh'])
    if k == 'fallback':
        return Fallback(p['ssh1'], p['ssh2'], p['n'])
    if k == 'orchestration':
        return Orchestration(p['skip'], p['client'], p['policy'])
    raise KeyError(name)


META = {
    'functions': ['DHEat._dh_rate_test', 'HostKeyTest.perform_test', 'GEXTest.run/_send_init/reconnect', 'audit()', 'SSH_Socket.connect/close/__cleanup'],
    'bounds': {'quick': 'rate check with parameters (max_connections, concurrent) in {(2,1),(3,2),(1,1)}, max_time 0.3 s, symbolic clock (arbitrary non-decreasing instants; an empty '
                        'select() blocks for its timeout), <= 4..6 select() rounds, every per-socket answer class (banner/Exceeded/garbage/reset/silence/exception); host-key '
                        'phase with every connect/banner/KEXINIT/reply outcome vector for 4 host-key sets; GEX phase with every outcome vector over 4 outcome slots and a symbolic '
                        'have-set; orchestration for skip x role x policy',
               'thorough': 'more parameter pairs and rounds'},
    'outside': ['the shipped parameters (1.5 s, 38, 3) themselves are only checked to be the ones passed (O3); the loop is explored for small parameter values', 'OS-level socket state after close()',
                'immediate connect_ex errors other than 0/EINPROGRESS/EWOULDBLOCK (not a server behaviour on a non-blocking socket)'],
    'stubs': ['time.time/sleep: symbolic clock', 'select.select: arbitrary subsets (empty result = blocked for the timeout)', 'socket.socket/connect_ex/recv: RSock world',
              'probe sockets: PSock (outcomes symbolic)', 'key-exchange groups: stub classes driven by the harness'],
    'assumptions': [],
}
