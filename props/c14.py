"""C14 - software versions are ordered numerically, component by component."""
import itertools
import zx
from zx import s_and, s_or, s_not, s_implies, s_ite
from zx.shims import z_int
from vf.harness import Harness, guarded, Exc

PROP = 'C14'
DIG = ((48, 57),)
PRODUCTS = {'openssh': 'OpenSSH', 'dropbear': 'Dropbear SSH', 'libssh': 'libssh'}


def sym_version(name, shape):
    """dot-separated decimal components with the given digit counts, no leading zeros in multi-digit components"""
    parts = []
    for i, k in enumerate(shape):
        d = zx.fresh_str('%s%d' % (name, i), k, DIG)
        if k > 1:
            zx.cur().assume(s_not(d.startswith('0')))
        parts.append(d)
    s = parts[0]
    for p in parts[1:]:
        s = s + '.' + p
    return s


def comps(v):
    """numeric components of a version string (symbolic or concrete)"""
    if isinstance(v, str):
        return [int(x) for x in v.split('.')]
    out, cur_ = [], []
    for c in v.els:
        if isinstance(c, int) and c == 46:
            out.append(cur_)
            cur_ = []
        else:
            cur_.append(c)
    out.append(cur_)
    return [z_int(zx.mkstr(p)) for p in out]


def num_cmp(a, b):
    """(lt, gt) of component-wise numeric comparison; a missing component counts as smaller"""
    na, nb = comps(a), comps(b)
    lt, gt, eqp = False, False, True
    for x, y in zip(na, nb):
        lt = s_or(lt, s_and(eqp, x < y))
        gt = s_or(gt, s_and(eqp, x > y))
        eqp = s_and(eqp, x == y)
    if len(na) < len(nb):
        lt = s_or(lt, eqp)
    elif len(na) > len(nb):
        gt = s_or(gt, eqp)
    return lt, gt


def sign(r):
    return s_ite(r < 0, -1, s_ite(r > 0, 1, 0))


class Order(Harness):
    """Software(product, a, pa).compare_version(b+pb) agrees with numeric order whenever a != b numerically;
    antisymmetric in all cases."""
    prop, ob = PROP, 'O1'
    width = 64

    def __init__(self, product, sa, sb, pa=None, pb=''):
        self.product, self.sa, self.sb, self.pa, self.pb = product, tuple(sa), tuple(sb), pa, pb
        self.name = 'order-%s-%s-vs-%s-%s-%s' % (product, 'x'.join(map(str, sa)), 'x'.join(map(str, sb)), pa or 'nopatch', pb or 'nopatch')

    def params(self):
        return {'product': self.product, 'sa': list(self.sa), 'sb': list(self.sb), 'pa': self.pa, 'pb': self.pb}

    def inputs(self):
        # a '?' in a patch suffix is an arbitrary digit (OpenSSH portable patch level p0..p9)
        pa = (self.pa or '').replace('?', '') + (zx.fresh_str('da', 1, DIG) if '?' in (self.pa or '') else '') if self.pa else None
        pb = self.pb.replace('?', '') + (zx.fresh_str('db', 1, DIG) if '?' in self.pb else '')
        return {'a': sym_version('a', self.sa), 'b': sym_version('b', self.sb), 'pa': pa, 'pb': pb}

    def run(self, M, inp):
        S = M.software.Software
        prod = PRODUCTS[self.product]
        pa, pb = inp['pa'], inp['pb']
        sa = S(None, prod, inp['a'], pa, None)
        sb = S(None, prod, inp['b'], pb or None, None)
        r1 = guarded(sa.compare_version, inp['b'] + pb)
        r2 = guarded(sb.compare_version, inp['a'] + (pa or ''))
        r3 = guarded(sa.compare_version, sb)
        return {'ab': r1, 'ba': r2, 'ab_obj': r3}

    def check(self, inp, obs):
        for k in ('ab', 'ba', 'ab_obj'):
            if isinstance(obs[k], Exc):
                yield 'no-exception', False
                return
        lt, gt = num_cmp(inp['a'], inp['b'])
        r = obs['ab']
        yield 'numeric-order', s_and(s_implies(lt, r < 0), s_implies(gt, r > 0))
        yield 'antisymmetric', sign(obs['ab']) == -sign(obs['ba'])
        yield 'string-and-object-argument-agree', sign(obs['ab']) == sign(obs['ab_obj'])
        if (self.pa or '') == self.pb and '?' not in self.pb:
            yield 'equal-is-zero', s_implies(s_and(s_not(lt), s_not(gt)), r == 0)
        if self.product == 'openssh':
            # the table holds plain release numbers: a portable release X.YpN is release X.Y (never older than it), whatever N
            eq = s_and(s_not(lt), s_not(gt))
            if self.pa and not self.pb:
                yield 'patched-release-is-not-older-than-its-base-release', s_implies(eq, r >= 0)
            if self.pb and not self.pa:
                yield 'base-release-is-not-newer-than-its-patched-release', s_implies(eq, r <= 0)

    def classify(self, inp, obs, label):
        if label == 'numeric-order':
            a, b, r = inp['a'], inp['b'], obs['ab']
            lex = -1 if a < b else (1 if a > b else 0)
            if not isinstance(r, Exc) and ((r > 0) - (r < 0)) == lex:
                return 'version-strings-compared-lexicographically'
        return label


class Transitive(Harness):
    prop, ob = PROP, 'O2'
    width = 64

    def __init__(self, product, sa, sb, sc):
        self.product, self.sa, self.sb, self.sc = product, tuple(sa), tuple(sb), tuple(sc)
        self.name = 'trans-%s-%s-%s-%s' % (product, 'x'.join(map(str, sa)), 'x'.join(map(str, sb)), 'x'.join(map(str, sc)))

    def params(self):
        return {'product': self.product, 'sa': list(self.sa), 'sb': list(self.sb), 'sc': list(self.sc)}

    def inputs(self):
        return {'a': sym_version('a', self.sa), 'b': sym_version('b', self.sb), 'c': sym_version('c', self.sc)}

    def run(self, M, inp):
        S = M.software.Software
        prod = PRODUCTS[self.product]
        sa, sb = S(None, prod, inp['a'], None, None), S(None, prod, inp['b'], None, None)
        return {'ab': guarded(sa.compare_version, inp['b']), 'bc': guarded(sb.compare_version, inp['c']),
                'ac': guarded(sa.compare_version, inp['c'])}

    def check(self, inp, obs):
        if any(isinstance(v, Exc) for v in obs.values()):
            yield 'no-exception', False
            return
        ab, bc, ac = obs['ab'], obs['bc'], obs['ac']
        yield 'transitive', s_and(s_implies(s_and(ab <= 0, bc <= 0), ac <= 0), s_implies(s_and(ab < 0, bc <= 0), ac < 0),
                                  s_implies(s_and(ab <= 0, bc < 0), ac < 0))


class TimeframeMinMax(Harness):
    """Timeframe.update over two algorithms' version lists: 'from' is the numerically larger first-appeared version and
    'till' the numerically smaller last version (what '(gen) compatibility' prints)."""
    prop, ob = PROP, 'O3'
    width = 64

    def __init__(self, prefix, sa, sb, order):
        self.prefix, self.sa, self.sb, self.order = prefix, tuple(sa), tuple(sb), order
        self.name = 'timeframe-%s-%s-%s-%s' % (prefix or 'openssh', 'x'.join(map(str, sa)), 'x'.join(map(str, sb)), order)

    def params(self):
        return {'prefix': self.prefix, 'sa': list(self.sa), 'sb': list(self.sb), 'order': self.order}

    def inputs(self):
        return {'a': sym_version('a', self.sa), 'b': sym_version('b', self.sb),
                'ta': sym_version('ta', self.sa), 'tb': sym_version('tb', self.sb)}

    def run(self, M, inp):
        tf = M.timeframe.Timeframe()
        p = self.prefix
        va, vb = [p + inp['a'], p + inp['ta']], [p + inp['b'], p + inp['tb']]
        seq = [va, vb] if self.order == 'ab' else [vb, va]
        r = guarded(lambda: [tf.update(v, True) for v in seq])
        if isinstance(r, Exc):
            return {'exc': r}
        prod = {'': 'OpenSSH', 'd': 'Dropbear SSH', 'l1': 'libssh'}[p]
        return {'from': tf.get_from(prod, True), 'till': tf.get_till(prod, True)}

    def check(self, inp, obs):
        if 'exc' in obs:
            yield 'no-exception', False
            return
        lt, gt = num_cmp(inp['a'], inp['b'])
        exp_from_is_a = s_or(gt, s_and(s_not(lt), s_not(gt)))
        yield 'from-is-numeric-max', s_and(s_implies(gt, obs['from'] == inp['a']), s_implies(lt, obs['from'] == inp['b']))
        lt2, gt2 = num_cmp(inp['ta'], inp['tb'])
        yield 'till-is-numeric-min', s_and(s_implies(lt2, obs['till'] == inp['ta']), s_implies(gt2, obs['till'] == inp['tb']))

    def classify(self, inp, obs, label):
        if label == 'from-is-numeric-max':
            a, b = inp['a'], inp['b']
            if obs['from'] == max(a, b):
                return 'version-strings-compared-lexicographically'
        if label == 'till-is-numeric-min':
            a, b = inp['ta'], inp['tb']
            if obs['till'] == min(a, b):
                return 'version-strings-compared-lexicographically'
        return label


class Availability(Harness):
    """real Algorithms.get_recommendations on a synthetic table: a clean row and a failing row that both appeared in <product> version b; server = <product>
    version a.  The clean row is recommended ('add') and the offered failing row flagged ('del') exactly when a >= b numerically."""
    prop, ob = PROP, 'O4'
    width = 64
    PFX = {'openssh': '', 'dropbear': 'd', 'libssh': 'l1'}

    BANNERS = {'openssh': 'OpenSSH_', 'dropbear': 'dropbear_', 'libssh': 'libssh_'}

    def __init__(self, product, sa, sb, via_banner=False, prior=None, plevel=False):
        self.product, self.sa, self.sb, self.via_banner, self.prior, self.plevel = product, tuple(sa), tuple(sb), via_banner, prior, plevel
        self.name = 'availability-%s-%s-vs-%s%s%s%s' % (product, 'x'.join(map(str, sa)), 'x'.join(map(str, sb)), '-banner' if via_banner else '', ('-after-' + prior) if prior else '',
                                                         '-plevel' if plevel else '')

    def params(self):
        return {'product': self.product, 'sa': list(self.sa), 'sb': list(self.sb), 'via_banner': self.via_banner, 'prior': self.prior, 'plevel': self.plevel}

    def inputs(self):
        # plevel: the server is a portable OpenSSH release X.YpN with an arbitrary digit N (the table knows plain release numbers only)
        return {'a': sym_version('a', self.sa), 'b': sym_version('b', self.sb), 'patch': ('p' + zx.fresh_str('pl', 1, DIG)) if self.plevel else None}

    def run(self, M, inp):
        from props import outlib as OL
        from props.c06 import make_kex
        since = self.PFX[self.product] + inp['b']

        def patch(d2, d1):
            for cat in ('kex', 'key', 'enc', 'mac'):
                d2[cat].clear()
            d2['kex']['zx-new'] = [[since]]
            d2['kex']['zx-weak'] = [[since], ['f']]
            d2['kex']['zx-offered'] = [[None]]
        OL.fresh_tables(M, patch)
        kex = make_kex(M, {'kex': ['zx-offered', 'zx-weak'], 'key': ['h'], 'enc': ['e'], 'mac': ['m']})
        algs = M.algorithms.Algorithms(None, kex)
        if self.via_banner:
            # the server's version as the tool identifies it from the identification string (Banner.parse + Software.parse)
            b = M.banner.Banner.parse('SSH-2.0-' + self.BANNERS[self.product] + inp['a'] + (inp['patch'] or ''))
            sw = M.software.Software.parse(b) if b is not None else None
            if sw is None:
                return {'exc': Exc('NotIdentified', 'software not identified from the banner')}
        else:
            sw = M.software.Software(None, PRODUCTS[self.product], inp['a'], inp['patch'], None)
        if self.prior:
            # another server of the same product was assessed just before, in the same process, on the same table (very old or very new: the opposite
            # availability verdict must not stick to the row)
            guarded(algs.get_recommendations, M.software.Software(None, PRODUCTS[self.product], self.prior, None, None), True)
        r = guarded(algs.get_recommendations, sw, True)
        if isinstance(r, Exc):
            return {'exc': r}
        rec = r[1].get(2, {}).get('kex', {})
        return {'add': sorted(rec.get('add', {})), 'del': sorted(rec.get('del', {})), 'chg': sorted(rec.get('chg', {}))}

    def check(self, inp, obs):
        if 'exc' in obs:
            yield 'no-exception', False
            return
        lt, gt = num_cmp(inp['a'], inp['b'])
        avail = s_not(lt)
        yield 'recommended-iff-server-version>=first-version', s_and(s_implies(avail, obs['add'] == ['zx-new']), s_implies(s_not(avail), obs['add'] == []))
        yield 'flagged-iff-server-version>=first-version', s_and(s_implies(avail, obs['del'] == ['zx-weak']), s_implies(s_not(avail), obs['del'] == []), obs['chg'] == [])


def comparator_sites():
    """glue: the only version test in the recommendation pass is compare_version (AST check on the current source), so O1
    carries over to 'available in the identified version'."""
    import ast, os, time
    from vf import harness as H
    t0 = time.time()
    res = {'harness': 'C14/O3:recommendation-filter-uses-compare_version', 'ob': 'C14/O3', 'params': {}, 'status': 'ok', 'violations': [],
           'paths': 1, 'decisions': 1, 'queries': 0, 'solver_time_s': 0.0, 'xval': 0, 'replayed': 0, 'asserts': 1, 'sample': None, 'error': None}
    src = open(os.path.join(H.SRC, 'ssh_audit', 'algorithms.py')).read()
    tree = ast.parse(src)
    fn = [n for n in ast.walk(tree) if isinstance(n, ast.FunctionDef) and n.name == 'get_recommendations']
    if not fn:
        res['status'] = 'inconclusive'
        res['error'] = 'pattern drift: get_recommendations not found'
    else:
        cmps = [ast.unparse(n) for n in ast.walk(fn[0]) if isinstance(n, ast.Compare)]
        ver = [c for c in cmps if 'version' in c and 'versions' not in c.split('(')[0]]
        bad = [c for c in ver if 'compare_version' not in c and 'ssh_version' in c and c.strip() not in ('not ssh_version',)]
        if bad or not any('compare_version' in c for c in cmps):
            res['status'] = 'inconclusive'
            res['error'] = 'pattern drift: version comparison other than compare_version in get_recommendations: %r' % bad
        res['sample'] = {'inputs': {'function': 'Algorithms.get_recommendations'}, 'observation': [c for c in cmps if 'compare_version' in c]}
    res['wall_s'] = round(time.time() - t0, 3)
    res['note'] = 'syntactic glue check'
    return res


def _shapes(tier):
    if tier == 'quick':
        one = [(1,), (2,), (1, 1), (1, 2), (2, 1), (1, 1, 1), (1, 2, 1), (2, 1, 1)]
        # components of three and four digits (x.100, year-like values) and a fourth component: few shapes, they only meet shapes of similar length
        extra = [(1, 3), (2, 3), (1, 4), (4, 3), (1, 1, 1, 1), (2, 1, 1, 1), (1, 2, 1, 1)]
        return one, extra
    else:
        one = [(1,), (2,), (4,), (1, 1), (1, 2), (2, 1), (2, 2), (1, 3), (3, 1), (4, 2), (1, 1, 1), (1, 2, 1), (2, 1, 1), (1, 1, 2),
               (2, 2, 1), (1, 2, 2), (1, 1, 1, 1), (1, 2, 1, 1), (2, 1, 1, 1), (1, 1, 2, 1), (4, 2, 1)]
    return one, []


def tasks(tier):
    T = []
    shapes, extra = _shapes(tier)
    pairs = [(a, b) for a in shapes for b in shapes if len(a) == len(b) or abs(len(a) - len(b)) == 1]
    pairs += [(a, b) for a in extra for b in extra + [(1, 2), (2, 1), (1, 2, 1)] if len(a) == len(b)] + [((1, 2), (1, 3)), ((2, 1), (1, 3)), ((1, 2, 1), (1, 2, 1, 1)), ((1, 1, 1, 1), (2, 1))]
    prods = list(PRODUCTS)
    for i, (a, b) in enumerate(pairs):
        if tier == 'quick':
            T.append(Order(prods[i % 3], a, b))
        else:
            for p in prods:
                T.append(Order(p, a, b))
    # patch suffixes (same versions decide by patch; different versions must ignore it)
    patches = {'openssh': [('p1', ''), (None, 'p1'), ('p1', 'p2'), ('p2', 'p1'), ('p?', ''), (None, 'p?'), ('p?', 'p?')], 'dropbear': [('test1', ''), (None, 'test2'), ('test1', 'test2')],
               'libssh': [(None, ''), ('rc1', '')]}
    for p in prods:
        for pa, pb in patches[p]:
            for a, b in ([((1, 1), (1, 1)), ((1, 2), (1, 1)), ((1, 1), (2, 1)), ((2,), (1,)), ((1,), (1,))] if tier == 'quick' else
                         [((1, 1), (1, 1)), ((1, 2), (1, 1)), ((1, 1), (2, 1)), ((2, 1), (1, 1)), ((1, 1, 1), (1, 1, 1)), ((1, 1, 2), (1, 1, 1)), ((4, 2), (4, 2)), ((2,), (1,)), ((1,), (1,)), ((1,), (2,)), ((1, 1), (1,))]):
                T.append(Order(p, a, b, pa, pb))
    tsh = [(1, 1), (1, 2), (2, 1)] if tier == 'quick' else [(1, 1), (1, 2), (2, 1), (1, 1, 1), (1, 2, 1), (2, 2)]
    for a, b, c in itertools.product(tsh, repeat=3):
        if tier == 'quick' and not (a == b or b == c):
            continue
        T.append(Transitive('openssh', a, b, c))
    for pfx in ('', 'd', 'l1'):
        for a, b in ([((1, 1), (1, 1)), ((1, 2), (1, 1)), ((2, 1), (1, 1))] if tier == 'quick' else
                     [((1, 1), (1, 1)), ((1, 2), (1, 1)), ((2, 1), (1, 1)), ((1, 1), (1, 2)), ((1, 1, 1), (1, 1, 1)), ((1, 2, 1), (1, 1, 1)), ((4, 2), (1, 2))]):
            for order in ('ab', 'ba'):
                T.append(TimeframeMinMax(pfx, a, b, order))
    ash = [(1, 1), (1, 2), (2, 1)] if tier == 'quick' else [(1, 1), (1, 2), (2, 1), (2, 2), (1, 1, 1), (1, 2, 1), (1, 1, 2), (4, 2)]
    for i, (a, b) in enumerate(itertools.product(ash, repeat=2)):
        if len(a) != len(b) and tier == 'quick':
            continue
        for p in (prods if tier != 'quick' else [prods[i % 3]]):
            T.append(Availability(p, a, b))
    if True:
        T.append(Availability('libssh', (1, 2, 1), (1, 1, 1)))
        T.append(Availability('libssh', (1, 1, 1), (1, 2, 1)))
        T.append(Availability('dropbear', (4, 2), (4, 2)))
        T.append(Availability('openssh', (2, 1), (1, 1), True))
        T.append(Availability('openssh', (1, 1), (1, 1), False, None, True))
        T.append(Availability('openssh', (1, 1), (1, 1), True, None, True))
        T.append(Availability('openssh', (1, 1), (2, 1), True))
        T.append(Availability('libssh', (1, 2, 1), (1, 1, 1), True))
        T.append(Availability('dropbear', (4, 2), (4, 2), True))
        T.append(Availability('openssh', (1, 1), (1, 1), False, '0.1'))
        T.append(Availability('openssh', (1, 1), (1, 1), False, '999.9'))
        T.append(Availability('libssh', (1, 2, 1), (1, 1, 1), False, '0.0.1'))
    if tier != 'quick':
        T.append(Availability('openssh', (1, 2), (1, 2), True, None, True))
        T.append(Availability('openssh', (2, 1), (2, 1), True, None, True))
        for p in prods:
            for a in [(1, 1), (2, 1), (1, 2), (2, 2), (1, 2, 1), (4, 2)]:
                T.append(Availability(p, a, (1, 1) if len(a) == 2 else (1, 1, 1), True))
    return T


def harness_by_name(name, params):
    k = name.split(':')[1].split('-')[0]
    if k == 'order':
        return Order(params['product'], params['sa'], params['sb'], params['pa'], params['pb'])
    if k == 'trans':
        return Transitive(params['product'], params['sa'], params['sb'], params['sc'])
    if k == 'availability':
        return Availability(params['product'], params['sa'], params['sb'], params.get('via_banner', False), params.get('prior'), params.get('plevel', False))
    if k == 'timeframe':
        return TimeframeMinMax(params['prefix'], params['sa'], params['sb'], params['order'])
    raise KeyError(name)


META = {
    'functions': ['Algorithms.get_recommendations (availability filter)', 'Software.compare_version', 'Timeframe.update/_update/get_from/get_till', 'Algorithm.get_ssh_version'],
    'bounds': {'quick': 'version strings with 1..3 components of 1..2 digits (no leading zeros), all digit values; OpenSSH/Dropbear/libssh; '
                        'patch suffixes p1,p2,p<any digit>,test1,test2,rc1; transitivity over triples of 2-component versions',
               'thorough': '1..4 components of 1..4 digits; all three products for every shape pair; triples up to 3 components'},
    'outside': ['versions with leading zeros', 'non-numeric version strings', 'order among equal versions with different patch suffixes is only checked for antisymmetry'],
    'stubs': ['re: backtracking regex model (validated per path)'],
    'assumptions': ['oracle: component-wise numeric comparison, a missing trailing component counts as smaller'],
}
