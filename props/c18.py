"""C18 - the tool connects to, and reports on, exactly the target that was named."""
import socket as _socket
import zx
from zx import s_and, s_or, s_not, s_implies
from zx.shims import z_int
from vf.harness import Harness, guarded, Exc
from vf import auditenv as AE
from props import outlib as OL

PROP = 'C18'
HOSTCH = ((0x61, 0x7A), (0x30, 0x39), (0x2D, 0x2E))      # a-z 0-9 - .
HEXCH = ((0x30, 0x39), (0x61, 0x66))
DIG = ((48, 57),)


def sym_port(nd):
    d = zx.fresh_str('pd', nd, DIG)
    return d


class Spelling(Harness):
    """Utils.parse_host_and_port for every documented spelling: result == (host, port or default)."""
    prop, ob = PROP, 'O1'
    width = 64

    def __init__(self, form, nhost, nport):
        self.form, self.nhost, self.nport = form, nhost, nport
        self.name = 'spelling-%s-h%d-p%d' % (form, nhost, nport)

    def params(self):
        return {'form': self.form, 'nhost': self.nhost, 'nport': self.nport}

    def inputs(self):
        f = self.form
        if f in ('name', 'name:port', 'name:'):
            host = zx.fresh_str('h', self.nhost, HOSTCH)
        else:
            # IPv6-like: groups of hex digits separated by colons, at least two colons
            parts = [zx.fresh_str('g%d' % i, 1, HEXCH) for i in range(self.nhost)]
            host = parts[0]
            for p_ in parts[1:]:
                host = host + ':' + p_
            if f.endswith('compressed'):
                host = host + '::' + zx.fresh_str('gl', 1, HEXCH)
        return {'host': host, 'pd': sym_port(self.nport) if self.nport else '', 'default': zx.fresh_int('def', 1, 65535)}

    def text(self, inp):
        f, h, pd = self.form, inp['host'], inp['pd']
        if f == 'name':
            return h
        if f == 'name:port':
            return h + ':' + pd
        if f == 'name:':
            return h + ':'
        if f in ('v6', 'v6compressed'):
            return h
        if f in ('[v6]', '[v6compressed]'):
            return '[' + h + ']'
        if f in ('[v6]:port', '[v6compressed]:port'):
            return '[' + h + ']:' + pd
        raise ValueError(f)

    def run(self, M, inp):
        r = guarded(M.utils.Utils.parse_host_and_port, self.text(inp), inp['default'])
        return {'r': r}

    def check(self, inp, obs):
        r = obs['r']
        yield 'no-exception', not isinstance(r, Exc)
        if isinstance(r, Exc):
            return
        host, port = r
        yield 'host', host == inp['host']
        if self.form.endswith(':port'):
            yield 'port', port == z_int(inp['pd'])
        else:
            yield 'default-port', port == inp['default']


class StubArgparse:
    """argparse stand-in: records the declared options and returns a namespace with the harness's values (the real argparse works on
    concrete text; option VALUES are symbolic here)."""
    class ArgumentError(Exception):
        pass

    def __init__(self, values):
        self.values = values
        outer = self

        class ArgumentParser:
            def __init__(self, *a, **k):
                self.defaults = {}

            def add_argument(self, *names, **kw):
                dest = kw.get('dest') or names[-1].lstrip('-').replace('-', '_')
                self.defaults[dest] = kw.get('default', 0 if kw.get('action') == 'count' else (False if kw.get('action') == 'store_true' else None))

            def parse_args(self, args=None):
                import argparse
                ns = argparse.Namespace(**self.defaults)
                for k, v in outer.values.items():
                    if k not in self.defaults:
                        raise RuntimeError('option %s not declared by process_commandline' % k)
                    setattr(ns, k, v)
                return ns

            def print_help(self):
                pass
        self.ArgumentParser = ArgumentParser


class CommandLine(Harness):
    """process_commandline with symbolic host/port values: aconf.host/port equal the spelling's meaning; bad ports are rejected
    (exit or exception) before any SSH_Socket exists; IP-version preference follows the options."""
    prop, ob = PROP, 'O2'
    width = 64

    def __init__(self, form, nport, ipv=''):
        self.form, self.nport, self.ipv = form, nport, ipv
        self.name = 'cmdline-%s-p%d-ip(%s)' % (form, nport, ipv or 'none')

    def params(self):
        return {'form': self.form, 'nport': self.nport, 'ipv': self.ipv}

    def ipv_tokens(self):
        """the argv spelling: '46' means '-4 -6'; a string with blanks or dashes is taken literally ('--ipv6 -4', '-v6 --ipv4', '-64')"""
        if '-' in self.ipv:
            return self.ipv.split()
        return ['-' + ch for ch in self.ipv]

    def ipv_order(self):
        order = []
        for tok in self.ipv_tokens():
            fl = tok[-1] if tok in ('--ipv4', '--ipv6') else ''.join(c for c in tok[1:] if not tok.startswith('--'))
            for ch in fl:
                if ch in '46' and ch not in order:
                    order.append(ch)
        return order

    def inputs(self):
        return {'host': zx.fresh_str('h', 2, HOSTCH), 'pd': sym_port(self.nport) if self.nport else '', 'dp': zx.fresh_int('dp', 1, 65535)}

    def run(self, M, inp):
        if zx.active():
            zx.cur().stdout = []
        h, pd = inp['host'], inp['pd']
        vals = {}
        args = []
        if self.form == 'host':
            vals['host'] = h
        elif self.form == 'host:port':
            vals['host'] = h + ':' + pd
        elif self.form == 'host -p':
            vals['host'] = h
            vals['oport'] = z_int(pd)
        elif self.form == '[v6]:port':
            vals['host'] = '[fe80::1]:' + pd
        elif self.form == 'v6 -p':
            vals['host'] = 'fe80::1'
            vals['oport'] = z_int(pd)
        elif self.form == '[v6] -p':
            vals['host'] = '[fe80::1]'
            vals['oport'] = z_int(pd)
        elif self.form == 'host:port -p':
            vals['host'] = h + ':' + pd
            vals['oport'] = inp['dp']
        elif self.form == '[v6]:port -p':
            vals['host'] = '[fe80::1]:' + pd
            vals['oport'] = inp['dp']
        # the order in which -4/-6 were given (argv order) is what "in the requested order" refers to
        for tok in self.ipv_tokens():
            args.append(tok)
        for ch in self.ipv_order():
            vals['ipv' + ch] = True
        args.append('target')
        made = []

        class CountingSocket:
            def __init__(self, *a, **k):
                made.append(a)
        out = M.outputbuffer.OutputBuffer()
        import io, contextlib
        with AE.patched(M.ssh_audit, argparse=StubArgparse(vals), SSH_Socket=CountingSocket):
            with contextlib.redirect_stdout(io.StringIO()):
                r = guarded(M.ssh_audit.process_commandline, out, args)
        if isinstance(r, Exc):
            return {'rejected': r, 'sockets': len(made)}
        return {'host': r.host, 'port': r.port, 'pref': list(r.ip_version_preference), 'sockets': len(made)}

    def check(self, inp, obs):
        h, pd = inp['host'], inp['pd']
        port = z_int(pd) if self.nport else 22
        valid = s_and(port >= 1, port <= 65535)
        exp_host = h if not self.form.startswith(('[v6]', 'v6')) else 'fe80::1'
        # a target that carries its own port keeps it when -p is also given (-p is the default, as in a targets file)
        if 'rejected' in obs:
            yield 'only-invalid-ports-rejected', s_not(valid)
            yield 'rejected-before-any-connection', obs['sockets'] == 0
            return
        yield 'accepted-port-is-valid', valid
        yield 'host', obs['host'] == exp_host
        yield 'port', obs['port'] == port
        want = [int(c) for c in self.ipv_order()]
        yield 'ip-version-preference-in-the-requested-order', obs['pref'] == want

    def classify(self, inp, obs, label):
        if label == 'ip-version-preference-in-the-requested-order' and self.ipv == '64' and obs.get('pref') == [4, 6]:
            return 'option-order--6--4-yields-preference-4-then-6'
        return label


class TargetsFile(Harness):
    """-T file: lines (with surrounding blanks, blank lines between) -> the (host, port) pairs main() hands to the workers."""
    prop, ob = PROP, 'O2'
    width = 64

    def __init__(self, shape, with_p):
        self.shape, self.with_p = tuple(shape), with_p
        self.name = 'targetsfile-%s-%s' % ('_'.join(shape), 'p' if with_p else 'nop')

    def params(self):
        return {'shape': list(self.shape), 'with_p': self.with_p}

    def inputs(self):
        return {'hosts': [zx.fresh_str('h%d' % i, 2, HOSTCH) for i in range(len(self.shape))],
                'ports': [zx.fresh_str('p%d' % i, 2, DIG) for i in range(len(self.shape))], 'dp': zx.fresh_int('dp', 1, 65535)}

    def lines(self, inp):
        out, exp = [], []
        for kind, h, p in zip(self.shape, inp['hosts'], inp['ports']):
            if kind == 'blank':
                out.append('\n')
            elif kind == 'spaces':
                out.append('  \n')
            elif kind == 'host':
                out.append(h + '\n')
                exp.append((h, None))
            elif kind == 'padded':
                out.append('  ' + h + ':' + p + ' \n')
                exp.append((h, p))
            elif kind == 'host:port':
                out.append(h + ':' + p + '\n')
                exp.append((h, p))
            elif kind == 'last-no-newline':
                out.append(h + ':' + p)
                exp.append((h, p))
        return out, exp

    def run(self, M, inp):
        if zx.active():
            zx.cur().stdout = []
        lines, _ = self.lines(inp)

        class F:
            def __enter__(self_): return self_
            def __exit__(self_, *a): return False
            def readlines(self_): return list(lines)
        vals = {'targets': 'targets.txt'}
        if self.with_p:
            vals['oport'] = inp['dp']
        out = M.outputbuffer.OutputBuffer()
        with AE.patched(M.ssh_audit, argparse=StubArgparse(vals)):
            M.ssh_audit.__dict__['open'] = lambda *a, **k: F()
            try:
                r = guarded(M.ssh_audit.process_commandline, out, ['-T', 'targets.txt'])
            finally:
                del M.ssh_audit.__dict__['open']
        if isinstance(r, Exc):
            return {'exc': r}
        pairs = guarded(lambda: [M.utils.Utils.parse_host_and_port(t, default_port=r.port) for t in r.target_list])
        return {'pairs': pairs}

    def check(self, inp, obs):
        if 'exc' in obs or isinstance(obs.get('pairs'), Exc):
            yield 'no-exception', False
            return
        _, exp = self.lines(inp)
        dflt = inp['dp'] if self.with_p else 22
        got = obs['pairs']
        ok = len(got) == len(exp)
        if ok:
            for (gh, gp), (eh, ep) in zip(got, exp):
                ok = s_and(ok, gh == eh, gp == (z_int(ep) if ep is not None else dflt))
        yield 'targets==non-blank-lines', ok

    def classify(self, inp, obs, label):
        if 'spaces' in self.shape and not isinstance(obs.get('pairs'), Exc) and 'pairs' in obs:
            return 'whitespace-only-line-becomes-an-empty-target'
        return label


class Resolve(Harness):
    """SSH_Socket.connect with an arbitrary resolver answer: only requested families, in the requested order, dialled with exactly (host, port)."""
    prop, ob = PROP, 'O3'
    width = 64

    def __init__(self, pref, nans, host='example'):
        self.pref, self.nans, self.host = tuple(pref), nans, host
        self.name = 'resolve-pref(%s)-%d-%s' % (''.join(map(str, pref)) or 'none', nans, host.replace(':', '_'))

    def params(self):
        return {'pref': list(self.pref), 'nans': self.nans, 'host': self.host}

    def inputs(self):
        return {'fam': [zx.fresh_bool('f%d' % i) for i in range(self.nans)], 'port': zx.fresh_int('port', 1, 65535)}

    def run(self, M, inp):
        fams = [(_socket.AF_INET6 if bool(f) else _socket.AF_INET) for f in inp['fam']]
        answer = [(f, _socket.SOCK_STREAM, 6, '', (('v6-%d' % i) if f == _socket.AF_INET6 else ('v4-%d' % i), inp['port'])) for i, f in enumerate(fams)]
        net = AE.FakeNet([AE.Conn([]) for _ in range(4)], addrinfo=answer)
        out = M.outputbuffer.OutputBuffer()
        with AE.patched(M.ssh_socket, socket=net):
            s = guarded(M.ssh_socket.SSH_Socket, out, self.host, inp['port'], list(self.pref))
            err = s if isinstance(s, Exc) else guarded(s.connect)
        return {'err': err, 'resolved': net.resolved, 'dialled': [(c.family, c.connected_to) for c in net.made], 'answer': [(f, a[4][0]) for f, a in zip(fams, answer)]}

    def check(self, inp, obs):
        yield 'no-exception', not isinstance(obs['err'], Exc)
        if isinstance(obs['err'], Exc):
            return
        want_fam = {(): 0, (4,): _socket.AF_INET, (6,): _socket.AF_INET6}.get(self.pref, 0)
        yield 'resolver-asked-for-named-target', len(obs['resolved']) == 1 and obs['resolved'][0][0] == self.host and bool(obs['resolved'][0][1] == inp['port']) and obs['resolved'][0][2] == want_fam
        ans = obs['answer']
        if self.pref in ((4,), (6,)):
            fam = _socket.AF_INET if self.pref == (4,) else _socket.AF_INET6
            cand = [a for a in ans if a[0] == fam]
        elif len(self.pref) == 2:
            first = _socket.AF_INET if self.pref[0] == 4 else _socket.AF_INET6
            cand = [a for a in ans if a[0] == first] + [a for a in ans if a[0] != first]
        else:
            cand = list(ans)
        d = obs['dialled']
        if not cand:
            yield 'nothing-dialled-without-a-requested-family', d == [] and obs['err'] is not None
        else:
            yield 'first-candidate-dialled', len(d) == 1 and d[0][0] == cand[0][0] and d[0][1][0] == cand[0][1] and bool(d[0][1][1] == inp['port'])


class RateResolve(Harness):
    """the connection-rate phase of a standard audit resolves the target on its own (DHEat._resolve_hostname): for an arbitrary resolver answer and every
    preference setting it picks the address that SSH_Socket would dial first - the requested family only, resp. the families in the requested order."""
    prop, ob = PROP, 'O3'
    width = 64

    def __init__(self, pref, nans):
        self.pref, self.nans = tuple(pref), nans
        self.name = 'rateresolve-pref(%s)-%d' % (''.join(map(str, pref)) or 'none', nans)

    def params(self):
        return {'pref': list(self.pref), 'nans': self.nans}

    def inputs(self):
        return {'fam': [zx.fresh_bool('f%d' % i) for i in range(self.nans)]}

    def run(self, M, inp):
        fams = [(_socket.AF_INET6 if bool(f) else _socket.AF_INET) for f in inp['fam']]
        answer = [(f, _socket.SOCK_STREAM, 6, '', (('v6-%d' % i) if f == _socket.AF_INET6 else ('v4-%d' % i), 0)) for i, f in enumerate(fams)]
        net = AE.FakeNet([], addrinfo=answer)
        with AE.patched(M.dheat, socket=net):
            r = guarded(M.dheat.DHEat._resolve_hostname, 'example', list(self.pref))
        return {'r': r, 'answer': [(f, a[4][0]) for f, a in zip(fams, answer)], 'asked': [q[2] for q in net.resolved]}

    def check(self, inp, obs):
        yield 'no-exception', not isinstance(obs['r'], Exc)
        if isinstance(obs['r'], Exc):
            return
        ans = obs['answer']
        if self.pref in ((4,), (6,)):
            fam = _socket.AF_INET if self.pref == (4,) else _socket.AF_INET6
            cand = [a for a in ans if a[0] == fam]
        elif len(self.pref) == 2:
            first = _socket.AF_INET if self.pref[0] == 4 else _socket.AF_INET6
            cand = [a for a in ans if a[0] == first] + [a for a in ans if a[0] != first]
        else:
            cand = list(ans)
        if cand:
            yield 'rate-check-targets-the-first-candidate-of-the-requested-order', obs['r'] == (int(cand[0][0]), cand[0][1])
        else:
            yield 'no-address-of-a-requested-family', obs['r'][1] == ''


class Label(Harness):
    """'(gen) target:' / policy 'Host:' / JSON target denote the same (host, port) (IPv6 bracket rule)."""
    prop, ob = PROP, 'O4'
    width = 64
    HOSTS = ['example.org', '192.0.2.7', 'fe80::1', '2001:db8:0:0:0:0:0:1']

    def __init__(self, hi, nport, level='info'):
        self.hi, self.nport, self.level = hi, nport, level
        self.name = 'label-%d-p%d%s' % (hi, nport, '' if level == 'info' else '-l' + level)

    def params(self):
        return {'hi': self.hi, 'nport': self.nport, 'level': self.level}

    def inputs(self):
        pd = zx.fresh_str('pd', self.nport, DIG)
        if self.nport > 1:
            zx.cur().assume(s_not(pd.startswith('0')))
        return {'pd': pd}

    def run(self, M, inp):
        port = z_int(inp['pd'])
        if zx.active():
            zx.cur().assume(s_and(port >= 1, port <= 65535))
        elif not 1 <= port <= 65535:
            return {'skip': True}
        host = self.HOSTS[self.hi]
        L = {c: ['x'] for c in OL.CATS}
        # the label is part of every block whatever the minimum level (-l warn / -l fail hide informational lines, not the name of the target)
        t = OL.run_output(M, L, print_target=True, host=host, port=port, level=self.level)
        j = OL.run_output(M, L, json=True, host=host, port=port, level=self.level)
        if isinstance(t['ret'], Exc) or isinstance(j['ret'], Exc):
            return {'exc': t['ret'] if isinstance(t['ret'], Exc) else j['ret']}
        tl = [ln for ln in t['lines'] if OL._starts(ln, '(gen) target: ')]
        # the JSON label read back with the tool's own target syntax (what a user would paste into a targets file)
        back = guarded(M.utils.Utils.parse_host_and_port, j['doc'].get('target'), 22)
        return {'text': tl, 'json': j['doc'].get('target'), 'json_back': back if isinstance(back, Exc) else (back[0], back[1])}

    def check(self, inp, obs):
        if 'skip' in obs:
            return
        if 'exc' in obs:
            yield 'no-exception', False
            return
        host, pd = self.HOSTS[self.hi], inp['pd']
        port = z_int(pd)
        v6 = ':' in host
        with_port = ('[' + host + ']:' + pd) if v6 else (host + ':' + pd)
        want = zx.s_ite  # noqa
        tl = obs['text']
        ok = len(tl) == 1
        if ok:
            is22 = port == 22
            ok = s_or(s_and(is22, tl[0] == '(gen) target: ' + host), s_and(s_not(is22), tl[0] == '(gen) target: ' + with_port))
        yield 'text-label', ok
        # the JSON label denotes the same (host, port) under the tool's own spelling rules (an IPv6 address needs its brackets: 'fe80::1:2222' is another host)
        jb = obs['json_back']
        yield 'json-target-denotes-the-same-target', (not isinstance(jb, Exc)) and bool(jb[0] == host) and bool(jb[1] == port)


class PolicyLabel(Harness):
    """policy report (evaluate_policy, server audit): the 'Host:' line denotes the same (host, port), at every minimum level, for passing and failing targets;
    JSON carries host and port."""
    prop, ob = PROP, 'O4'
    width = 64

    def __init__(self, hi, nport, level, passing):
        self.hi, self.nport, self.level, self.passing = hi, nport, level, passing
        self.name = 'policylabel-%d-p%d-l%s-%s' % (hi, nport, level, 'pass' if passing else 'fail')

    def params(self):
        return {'hi': self.hi, 'nport': self.nport, 'level': self.level, 'passing': self.passing}

    def inputs(self):
        pd = zx.fresh_str('pd', self.nport, DIG)
        if self.nport > 1:
            zx.cur().assume(s_not(pd.startswith('0')))
        return {'pd': pd}

    def run(self, M, inp):
        from props.c06 import make_policy, make_kex
        port = z_int(inp['pd'])
        if zx.active():
            zx.cur().assume(s_and(port >= 1, port <= 65535))
        elif not 1 <= port <= 65535:
            return {'skip': True}
        host = Label.HOSTS[self.hi]
        res = {}
        for js in (False, True):
            OL.fresh_tables(M)
            aconf = M.auditconf.AuditConf(host, port)
            aconf.json = js
            aconf.policy = make_policy(M, {'_kex': ['k'] if self.passing else ['other']}, False, False)
            out = M.outputbuffer.OutputBuffer()
            out.use_colors = False
            out.level = self.level
            kex = make_kex(M, {'kex': ['k']})
            cj = OL.CaptureJson()
            with AE.patched(M.ssh_audit, json=cj):
                r = guarded(M.ssh_audit.evaluate_policy, out, aconf, M.banner.Banner((2, 0), 'OpenSSH_8.0', None, True), None, kex)
            if isinstance(r, Exc):
                return {'exc': r}
            if js:
                d = cj.docs[-1][0] if cj.docs else {}
                res['json'] = (d.get('host'), d.get('port'))
            else:
                res['text'] = [ln for ln in list(out.buffer) + list(out.section) if OL._starts(ln, 'Host:')]
                res['passed'] = r
        return res

    def check(self, inp, obs):
        if 'skip' in obs:
            return
        if 'exc' in obs:
            yield 'no-exception', False
            return
        host, pd = Label.HOSTS[self.hi], inp['pd']
        port = z_int(pd)
        with_port = ('[' + host + ']:' + pd) if ':' in host else (host + ':' + pd)
        tl = obs['text']
        ok = len(tl) == 1
        if ok:
            is22 = port == 22
            got = tl[0][5:].lstrip(' ')
            ok = s_or(s_and(is22, got == host), s_and(s_not(is22), got == with_port))
        yield 'policy-report-names-its-target', ok
        yield 'policy-json-host-and-port', obs['json'][0] == host and obs['json'][1] == port
        yield 'verdict-as-constructed', obs['passed'] == self.passing


def ssh1_pkm_packet():
    """a well-formed SSH-1 SMSG_PUBLIC_KEY packet (independent encoder: RFC-less protocol 1.5 framing: length, 1..8 bytes padding, type, data, CRC-32)"""
    import struct, zlib

    def mp1(v):
        bits = v.bit_length()
        return struct.pack('>H', bits) + v.to_bytes((bits + 7) // 8, 'big')
    data = b'\x11' * 8 + struct.pack('>I', 768) + mp1(0x10001) + mp1((1 << 767) | 1) + struct.pack('>I', 1024) + mp1(0x10001) + mp1((1 << 1023) | 1) \
        + struct.pack('>I', 2) + struct.pack('>I', 0x48) + struct.pack('>I', 0x0C)
    payload = bytes([2]) + data
    plen = len(payload) + 4
    pad = b'\x00' * (8 - plen % 8)
    # SSH-1 uses the plain CRC-32 polynomial without the final inversion and with a zero seed
    crc = (zlib.crc32(pad + payload, 0xFFFFFFFF) ^ 0xFFFFFFFF) & 0xFFFFFFFF
    return struct.pack('>I', plen) + pad + payload + struct.pack('>I', crc)


class FallbackLabel(Harness):
    """a listed target that only speaks SSH-1: the first connection is answered with the plain-text version-mismatch line, the retry with an SSH-1 public-key
    message.  The worker's block for it is an SSH-1 report labelled with this target (host and symbolic port)."""
    prop, ob = PROP, 'O4'
    width = 64

    def __init__(self, nport):
        self.nport = nport
        self.name = 'fallbacklabel-p%d' % nport

    def params(self):
        return {'nport': self.nport}

    def inputs(self):
        pd = zx.fresh_str('pd', self.nport, DIG)
        if self.nport > 1:
            zx.cur().assume(s_not(pd.startswith('0')))
        return {'pd': pd}

    def run(self, M, inp):
        port = z_int(inp['pd'])
        if zx.active():
            zx.cur().assume(s_and(port >= 1, port <= 65535))
            zx.cur().stdout = []
        elif not 1 <= port <= 65535:
            return {'skip': True}
        net = AE.FakeNet([AE.Conn([b'SSH-2.0-x\r\n', b'Protocol major versions differ.\n'], 'close'), AE.Conn([b'SSH-1.5-old\r\n', ssh1_pkm_packet()], 'close')])
        aconf = M.auditconf.AuditConf('', 22)
        aconf.skip_rate_test = True
        aconf.colors = False
        aconf.target_list = ['a', 'b']
        OL.fresh_tables(M)
        import io, contextlib
        buf = io.StringIO()
        with AE.patched(M.ssh_socket, socket=net), contextlib.redirect_stdout(buf):
            r = guarded(M.ssh_audit.target_worker_thread, 'legacy', port, aconf)
        if isinstance(r, Exc):
            return {'exc': r}
        ret, text = r
        lines = text.split('\n')
        return {'ret': ret, 'label': [ln for ln in lines if OL._starts(ln, '(gen) target: ')], 'ssh1_report': any(OL._starts(ln, '(key) ') or OL._starts(ln, '(enc) ') for ln in lines),
                'nconn': len(net.made)}

    def check(self, inp, obs):
        if 'skip' in obs:
            return
        if 'exc' in obs:
            yield 'no-exception', False
            return
        yield 'ssh1-report-produced-after-one-retry', obs['ssh1_report'] and obs['nconn'] == 2
        pd = inp['pd']
        is22 = z_int(pd) == 22
        lab = obs['label']
        ok = len(lab) == 1
        if ok:
            ok = s_or(s_and(is22, lab[0] == '(gen) target: legacy'), s_and(s_not(is22), lab[0] == '(gen) target: legacy:' + pd))
        yield 'block-labelled-with-its-target', ok


class MainRun(Harness):
    """real main(): stubbed argparse/open -> real process_commandline -> real target loop -> real target_worker_thread / audit() -> real SSH_Socket on a
    recording network.  The (host, port) pairs handed to the resolver and dialled, in target order, equal the targets as written (one worker at a time)."""
    prop, ob = PROP, 'O5'
    width = 64

    def __init__(self, shape, with_p, nport=2):
        self.shape, self.with_p, self.nport = tuple(shape), with_p, nport
        self.name = 'mainrun-%s-%s-d%d' % ('_'.join(shape), 'p' if with_p else 'nop', nport)

    def params(self):
        return {'shape': list(self.shape), 'with_p': self.with_p, 'nport': self.nport}

    def inputs(self):
        n = len(self.shape)
        inp = {'hosts': [zx.fresh_str('h%d' % i, 2, ((0x61, 0x7A),)) for i in range(n)],
               'ports': [zx.fresh_str('p%d' % i, self.nport, DIG) for i in range(n)], 'dp': zx.fresh_int('dp', 1, 65535)}
        if zx.active():
            for kind, p_ in zip(self.shape, inp['ports']):
                v = z_int(p_)
                if kind == 'badport':
                    zx.cur().assume(s_or(v < 1, v > 65535))
                else:
                    zx.cur().assume(s_and(v >= 1, v <= 65535))
        return inp

    def expected(self, inp):
        exp = []
        for kind, h, p in zip(self.shape, inp['hosts'], inp['ports']):
            if kind in ('host', 'cmd-host'):
                exp.append((h, None))
            elif kind in ('host:port', 'padded', 'cmd-host:port'):
                exp.append((h, p))
        return exp

    def run(self, M, inp):
        if zx.active():
            zx.cur().stdout = []
        single = self.shape[0].startswith('cmd-')
        vals = {}
        if single:
            h, p = inp['hosts'][0], inp['ports'][0]
            vals['host'] = h if self.shape[0] == 'cmd-host' else h + ':' + p
            argv = ['x']
        else:
            lines = []
            for kind, h, p in zip(self.shape, inp['hosts'], inp['ports']):
                lines.append({'blank': '\n', 'host': h + '\n', 'host:port': h + ':' + p + '\n', 'padded': ' ' + h + ':' + p + ' \n', 'badport': h + ':' + p + '\n'}[kind])
            vals['targets'] = 'targets.txt'
            vals['threads'] = 1
            argv = ['-T', 'targets.txt']

            class F:
                def __enter__(self_): return self_
                def __exit__(self_, *a): return False
                def readlines(self_): return list(lines)
        if self.with_p:
            vals['oport'] = inp['dp']
        vals['skip_rate_test'] = True
        if 'badport' in self.shape:
            vals['json'] = 1          # a rejected targets file must not leave a half-opened JSON array on stdout either
        vals.update(getattr(self, 'more_vals', {}))
        net = AE.FakeNet([])
        from props.c08 import StubConcurrent
        sc = StubConcurrent(list(range(len(self.shape))))
        import io, contextlib, sys
        old_argv = sys.argv
        sys.argv = ['ssh-audit'] + argv
        buf = io.StringIO()
        try:
            more = {'json': AE.ConcJson} if getattr(self, 'conc_json', False) else {}
            with AE.patched(M.ssh_audit, argparse=StubArgparse(vals), concurrent=sc, **more), AE.patched(M.ssh_socket, socket=net), AE.patched(M.utils, ipaddress=AE.IpShim):
                M.ssh_audit.__dict__['open'] = lambda *a, **k: F()
                try:
                    with contextlib.redirect_stdout(buf):
                        r = guarded(M.ssh_audit.main)
                finally:
                    del M.ssh_audit.__dict__['open']
        finally:
            sys.argv = old_argv
        printed = buf.getvalue()
        if zx.active():
            for a, k in zx.cur().stdout:
                printed += ''.join(x if isinstance(x, str) else '?' for x in a) + k.get('end', '\n')
        obs = {'ret': r, 'resolved': [(h, p) for h, p, _ in net.resolved], 'dialled': [c.connected_to for c in net.made], 'stdout_opens_array': printed.lstrip().startswith('[') and 'badport' in self.shape}
        if getattr(self, 'keep_printed', False):
            obs['printed'] = printed
        return obs

    def check(self, inp, obs):
        r = obs['ret']
        if 'badport' in self.shape:
            # a port outside 1..65535 anywhere in the targets file: rejected before ANY connection is made (no resolver call, no socket), not by an internal error
            yield 'bad-port-rejected-before-any-connection', obs['resolved'] == [] and obs['dialled'] == []
            yield 'bad-port-rejected-with-an-error-status-not-a-crash', (isinstance(r, Exc) and r.type == 'SystemExit') or (not isinstance(r, Exc) and r != 0)
            yield 'no-dangling-json-array-bracket', not obs['stdout_opens_array']
            return
        yield 'run-completes', not isinstance(r, Exc)
        if isinstance(r, Exc):
            return
        exp = self.expected(inp)
        dflt = inp['dp'] if self.with_p else 22
        tgt = lambda g, eh, ep: s_and(g is not None and g[0] == eh, g is not None and g[1] == (z_int(ep) if ep is not None else dflt))
        got = obs['dialled']
        ok = len(got) == len(exp)
        if ok:
            for g, (eh, ep) in zip(got, exp):
                ok = s_and(ok, tgt(g, eh, ep))
        yield 'dialled==targets-as-written', ok
        # the resolver is asked only about listed targets (an implementation may cache answers, so fewer calls than targets are fine)
        ok = len(obs['resolved']) <= len(exp) and (len(obs['resolved']) >= 1 or not exp)
        for g in obs['resolved']:
            ok = s_and(ok, s_or(*[tgt(g, eh, ep) for eh, ep in exp]))
        yield 'resolver-asked-only-about-listed-targets', ok


def tasks(tier):
    q = tier == 'quick'
    T = []
    for nh in ((1, 2, 3) if q else (1, 2, 3, 4, 6, 8, 12)):
        T.append(Spelling('name', nh, 0))
        T.append(Spelling('name:', nh, 0))
        for np_ in ((1, 2, 5) if q else (1, 2, 3, 4, 5)):
            T.append(Spelling('name:port', nh, np_))
    for nh in ((3, 4) if q else (3, 4, 5, 6, 7, 8)):
        T.append(Spelling('v6', nh, 0))
        T.append(Spelling('[v6]', nh, 0))
        T.append(Spelling('v6compressed', max(1, nh - 2), 0))
        T.append(Spelling('[v6compressed]', max(1, nh - 2), 0))
        for np_ in ((1, 5) if q else (1, 2, 3, 4, 5)):
            T.append(Spelling('[v6]:port', nh, np_))
            T.append(Spelling('[v6compressed]:port', max(1, nh - 2), np_))
    for form in ('host:port', 'host -p', '[v6]:port', 'v6 -p', '[v6] -p', 'host:port -p', '[v6]:port -p'):
        for np_ in ((1, 4, 5, 6) if q else (1, 2, 3, 4, 5, 6)):
            T.append(CommandLine(form, np_))
    for ipv in ('', '4', '6', '46', '64', '-46', '-64', '--ipv4', '--ipv6', '--ipv6 --ipv4', '--ipv4 --ipv6', '--ipv6 -4', '--ipv4 -6', '-6 --ipv4', '-4 --ipv6', '-v6 -4', '-6n4'):
        T.append(CommandLine('host', 0, ipv))
    for shape in ([('host',), ('host:port', 'blank', 'host'), ('padded', 'host'), ('blank', 'host:port'), ('host', 'last-no-newline'), ('spaces', 'host')] if q else
                  [('host',), ('host:port', 'blank', 'host'), ('padded', 'host'), ('blank', 'host:port'), ('host', 'last-no-newline'), ('spaces', 'host'),
                   ('host', 'spaces', 'host:port'), ('padded', 'padded', 'blank'), ('blank', 'blank', 'host')]):
        for with_p in (False, True):
            T.append(TargetsFile(shape, with_p))
    for pref in ((), (4,), (6,), (4, 6), (6, 4)):
        for n in ((0, 1, 2, 3) if q else (0, 1, 2, 3, 4, 5, 6)):
            T.append(Resolve(pref, n))
        for host in ('2001:db8::5', '192.0.2.9'):
            for n in (0, 1, 2):
                T.append(Resolve(pref, n, host))
    for pref in ((), (4,), (6,), (4, 6), (6, 4)):
        for n in ((1, 2, 3) if q else (0, 1, 2, 3, 4)):
            T.append(RateResolve(pref, n))
    for hi in range(4):
        for np_ in ((2, 5) if q else (1, 2, 3, 4, 5)):
            T.append(Label(hi, np_))
        for level in ('warn', 'fail'):
            T.append(Label(hi, 2 if hi % 2 else 4, level))
        for level in (('info', 'fail') if q else ('info', 'warn', 'fail')):
            for passing in (True, False):
                T.append(PolicyLabel(hi, 2 if hi % 2 else 4, level, passing))
    for shape in ([('cmd-host',), ('cmd-host:port',), ('host:port', 'host'), ('host', 'host:port'), ('padded', 'blank', 'host')] if q else
                  [('cmd-host',), ('cmd-host:port',), ('host:port', 'host'), ('host', 'host:port'), ('padded', 'blank', 'host'),
                   ('host:port', 'host:port', 'host'), ('host', 'host', 'host:port'), ('host:port', 'blank', 'host', 'host'), ('padded', 'host', 'padded', 'host'),
                   ('host', 'host:port', 'host', 'host:port', 'host')]):
        for with_p in (False, True):
            T.append(MainRun(shape, with_p, 2))
    for np_ in ((2, 5) if q else (1, 2, 3, 4, 5)):
        T.append(FallbackLabel(np_))
    for shape, nd in [(('host', 'badport'), 5), (('badport', 'host'), 5), (('host:port', 'badport', 'host'), 6), (('host', 'badport'), 1)]:
        T.append(MainRun(shape, False, nd))
    for shape in ([('cmd-host:port',), ('host:port', 'host')] if q else
                  [('cmd-host:port',), ('host:port', 'host'), ('host', 'host:port'), ('host:port', 'host:port'), ('padded', 'blank', 'host')]):
        for nd in ((5,) if q else (1, 3, 4, 5)):
            T.append(MainRun(shape, True, nd))
            if not q:
                T.append(MainRun(shape, False, nd))
    return T


def harness_by_name(name, params):
    k = name.split(':')[1].split('-')[0]
    p = params
    if k == 'spelling':
        return Spelling(p['form'], p['nhost'], p['nport'])
    if k == 'cmdline':
        return CommandLine(p['form'], p['nport'], p['ipv'])
    if k == 'targetsfile':
        return TargetsFile(p['shape'], p['with_p'])
    if k == 'rateresolve':
        return RateResolve(p['pref'], p['nans'])
    if k == 'resolve':
        return Resolve(p['pref'], p['nans'], p.get('host', 'example'))
    if k == 'label':
        return Label(p['hi'], p['nport'], p.get('level', 'info'))
    if k == 'policylabel':
        return PolicyLabel(p['hi'], p['nport'], p['level'], p['passing'])
    if k == 'fallbacklabel':
        return FallbackLabel(p['nport'])
    if k == 'mainrun':
        return MainRun(p['shape'], p['with_p'], p.get('nport', 2))
    raise KeyError(name)


META = {
    'functions': ['Utils.parse_host_and_port', 'process_commandline', 'AuditConf.__setattr__', 'SSH_Socket.__init__/_resolve/connect', 'output() target label', 'build_struct target'],
    'bounds': {'quick': 'host names of 1..3 symbolic chars [a-z0-9.-]; IPv6-like hosts of 3..4 symbolic hex groups (full and compressed, bare and bracketed); ports of '
                        '1..6 symbolic digits (covers 0, 65535/65536 and beyond); -p as a symbolic integer; targets files of 1..3 lines incl. blank/whitespace/padded/'
                        'unterminated lines with and without -p; resolver answers of 0..3 entries with symbolic families for all five preference settings; labels '
                        'for 4 host classes x all valid ports of 2 and 5 digits',
               'thorough': 'longer hosts, all port digit counts, 4-entry resolver answers'},
    'outside': ['argparse itself (replaced by a stub that returns the declared options with the harness\'s symbolic values)', 'the OS resolver', 'IPv6 address validation (ipaddress module) on symbolic text: hosts are concrete in the label obligation'],
    'stubs': ['argparse: StubArgparse', 'open(): in-memory targets file', 'socket.getaddrinfo/socket(): FakeNet'],
    'assumptions': [],
}
