"""C01 - the report lists exactly the algorithms the peer advertised (text + JSON, both roles, SSH-1 masks)."""
import zx
from zx import s_and, s_or, s_not, s_implies
from vf.harness import Harness, guarded, Exc
from vf import auditenv as AE
from props import outlib as OL

PROP = 'C01'
CIPHERS1 = ['none', 'idea', 'des', '3des', 'tss', 'rc4', 'blowfish']
AUTHS1 = ['none', 'rhosts', 'rsa', 'password', 'rhosts_rsa', 'tis', 'kerberos']
KNOWN = {'kex': ['curve25519-sha256', 'diffie-hellman-group1-sha1'], 'key': ['ssh-ed25519', 'ssh-dss'], 'enc': ['aes128-ctr', '3des-cbc'],
         'mac': ['hmac-sha2-256', 'hmac-md5']}


def mk_list(prefix, shape):
    """shape items: int n -> symbolic name of n chars; str -> that literal"""
    out = []
    for i, s in enumerate(shape):
        if isinstance(s, int):
            out.append(zx.fresh_str('%s%d' % (prefix, i), s, OL.NAMECH))
        elif isinstance(s, (tuple, list)):          # (literal prefix, n symbolic chars)
            out.append(s[0] + zx.fresh_str('%s%d' % (prefix, i), s[1], OL.NAMECH))
        else:
            out.append(s)
    return out


class Wire(Harness):
    """SSH2_Kex.parse(independent RFC 4253 s.7.1 encoding of ten name-lists) returns exactly those lists, field by field."""
    prop, ob = PROP, 'O1'
    width = 64

    def __init__(self, shapes):
        self.shapes = [tuple(s) for s in shapes]
        self.name = 'wire-' + '_'.join(''.join(str(x) for x in s) or 'e' for s in self.shapes)

    def params(self):
        return {'shapes': [list(s) for s in self.shapes]}

    def inputs(self):
        return {'lists': [mk_list('l%d_' % i, s) for i, s in enumerate(self.shapes)], 'cookie': zx.fresh_bytes('ck', 16), 'follows': zx.fresh_bool('f')}

    def run(self, M, inp):
        def nl(names):
            out = b''
            for i, x in enumerate(names):
                if i:
                    out = out + b','
                out = out + (x.encode('utf-8') if not isinstance(x, bytes) else x)
            return AE.u32(len(out)) + out
        L = inp['lists']
        p = inp['cookie']
        for l_ in L:
            p = p + nl(l_)
        f = inp['follows']
        p = p + (b'\x01' if (f if isinstance(f, bool) else bool(f)) else b'\x00') + AE.u32(0)
        out = M.outputbuffer.OutputBuffer()
        k = guarded(M.ssh2_kex.SSH2_Kex.parse, out, p)
        if isinstance(k, Exc):
            return {'exc': k}
        return {'back': [k.kex_algorithms, k.key_algorithms, k.client.encryption, k.server.encryption, k.client.mac, k.server.mac,
                         k.client.compression, k.server.compression, k.client.languages, k.server.languages], 'follows': k.follows}

    def check(self, inp, obs):
        if 'exc' in obs:
            yield 'no-exception', False
            return
        conds = []
        for a, b in zip(inp['lists'], obs['back']):
            a = a if a else ['']   # the decoder's representation of an empty name-list
            conds.append(OL.s_list_eq(b, a))
        yield 'lists-field-by-field', s_and(*conds)


def utf8_len(r):
    """number of bytes of the UTF-8 form of a (symbolic) str"""
    n = 0
    for i in range(len(r)):
        c = zx.shims.z_ord(r[i])
        n = n + zx.s_ite(c < 0x80, 1, zx.s_ite(c < 0x800, 2, zx.s_ite(c < 0x10000, 3, 4)))
    return n


class WireBytes(Harness):
    """a name-list whose middle name is n ARBITRARY bytes (not necessarily UTF-8; no comma): the parser still returns three names, the neighbours intact; a
    valid UTF-8 name comes back as its decoding, and an invalid one is never shortened (no byte silently dropped: the reported name's UTF-8 form is at least
    as long as the advertised bytes, which holds for U+FFFD replacement and for every escaping scheme, and fails when offending bytes are discarded)."""
    prop, ob = PROP, 'O1'
    width = 64

    def __init__(self, field, n):
        self.field, self.n = field, n
        self.name = 'wirebytes-f%d-n%d' % (field, n)

    def params(self):
        return {'field': self.field, 'n': self.n}

    def inputs(self):
        b = zx.fresh_bytes('nm', self.n)
        if zx.active():
            for i in range(self.n):
                zx.cur().assume(b[i] != 0x2C)
        return {'b': b}

    def run(self, M, inp):
        def nl(names):
            out = b''
            for i, x in enumerate(names):
                out = out + (b',' if i else b'') + x
            return AE.u32(len(out)) + out
        p = b'\x00' * 16
        for i in range(10):
            p = p + (nl([b'aa', inp['b'], b'bb']) if i == self.field else nl([b'x']))
        p = p + b'\x00' + AE.u32(0)
        out = M.outputbuffer.OutputBuffer()
        k = guarded(M.ssh2_kex.SSH2_Kex.parse, out, p)
        if isinstance(k, Exc):
            return {'exc': k}
        return {'back': [k.kex_algorithms, k.key_algorithms, k.client.encryption, k.server.encryption, k.client.mac, k.server.mac][self.field]}

    def check(self, inp, obs):
        if 'exc' in obs:
            yield 'no-exception', False
            return
        got = obs['back']
        yield 'three-names-neighbours-intact', len(got) == 3 and bool(got[0] == 'aa') and bool(got[2] == 'bb')
        if len(got) != 3:
            return
        r = got[1]
        dec = guarded(inp['b'].decode, 'utf-8') if not isinstance(inp['b'], bytes) else guarded(inp['b'].decode, 'utf-8')
        if isinstance(dec, Exc):
            yield 'invalid-utf8-name-is-not-shortened', utf8_len(r) >= self.n
        else:
            yield 'valid-utf8-name-decoded-exactly', r == dec


class Text(Harness):
    """real output(): per category the '(cat) ' lines name exactly the advertised non-empty names in order; compression/banner as sent."""
    prop, ob = PROP, 'O2'
    width = 64

    def __init__(self, shape, client=False, verbose=False, batch=False, comp=('none',)):
        self.shape = {c: tuple(shape[c]) for c in OL.CATS}
        self.client, self.verbose, self.batch, self.comp = client, verbose, batch, tuple(comp)
        self.name = 'text-%s-%s%s%s-c%d' % ('_'.join(''.join(('G' if isinstance(x, (tuple, list)) else (str(x)[:1] or '0')) for x in self.shape[c]) or 'e' for c in OL.CATS), 'client' if client else 'server',
                                         '-v' if verbose else '', '-b' if batch else '', len(comp))

    def params(self):
        return {'shape': {c: list(v) for c, v in self.shape.items()}, 'client': self.client, 'verbose': self.verbose, 'batch': self.batch, 'comp': list(self.comp)}

    def inputs(self):
        d = {'L': {c: mk_list(c, self.shape[c]) for c in OL.CATS}, 'comp': mk_list('cmp', self.comp), 'sw': zx.fresh_str('sw', 2, ((33, 126),))}
        for c in OL.CATS:
            if not d['L'][c]:
                d['L'][c] = ['']
        return d

    def run(self, M, inp):
        L = dict(inp['L'])
        L['comp'] = list(inp['comp']) or ['']
        r = OL.run_output(M, L, client=self.client, verbose=self.verbose, batch=self.batch, sw=inp['sw'])
        if isinstance(r['ret'], Exc):
            return {'exc': r['ret']}
        heads = OL.first_lines_per_cat(r['lines'])
        gen = [ln for ln in r['lines'] if OL._starts(ln, '(gen) ')]
        return {'heads': heads, 'gen': gen, 'ret': r['ret']}

    def check(self, inp, obs):
        if 'exc' in obs:
            yield 'no-exception', False
            return
        conds = []
        for c in OL.CATS:
            exp = [x for x in inp['L'][c] if not (isinstance(x, str) and x == '')]
            got = obs['heads'][c]
            if self.verbose:
                # verbose prints one line per note: collapse consecutive repeats of the same head
                col = []
                for h in got:
                    if not col or not bool(col[-1] == h):
                        col.append(h)
                got = col
                col = []
                for h in exp:
                    if not col or not bool(col[-1] == h):
                        col.append(h)
                exp = col
            conds.append(OL.s_list_eq(got, exp))
        yield 'names-per-category', s_and(*conds)
        comps = [x for x in inp['comp'] if not bool(x == 'none')]
        want = '(gen) compression: ' + ('enabled (' + zx.shims.zx_join(', ', comps) + ')' if comps else 'disabled')
        yield 'compression-as-sent', any(bool(g == want) for g in obs['gen'])
        yield 'banner-as-sent', any(bool(g == '(gen) banner: SSH-2.0-' + inp['sw']) for g in obs['gen'])
        yield 'client-ip-line', any(bool(g == '(gen) client IP: 1.2.3.4') for g in obs['gen']) == self.client


class Json(Harness):
    """real output() with -j: the captured document lists per category exactly the advertised non-empty names in order; compression, banner, target/client_ip."""
    prop, ob = PROP, 'O3'
    width = 64

    def __init__(self, shape, client=False, comp=('none',)):
        self.shape = {c: tuple(shape[c]) for c in OL.CATS}
        self.client, self.comp = client, tuple(comp)
        self.name = 'json-%s-%s-c%d' % ('_'.join(''.join(('G' if isinstance(x, (tuple, list)) else (str(x)[:1] or '0')) for x in self.shape[c]) or 'e' for c in OL.CATS), 'client' if client else 'server', len(comp))

    def params(self):
        return {'shape': {c: list(v) for c, v in self.shape.items()}, 'client': self.client, 'comp': list(self.comp)}

    def inputs(self):
        d = {'L': {c: mk_list(c, self.shape[c]) for c in OL.CATS}, 'comp': mk_list('cmp', self.comp), 'sw': zx.fresh_str('sw', 2, ((33, 126),))}
        for c in OL.CATS:
            if not d['L'][c]:
                d['L'][c] = ['']
        return d

    def run(self, M, inp):
        L = dict(inp['L'])
        L['comp'] = list(inp['comp']) or ['']
        r = OL.run_output(M, L, client=self.client, json=True, sw=inp['sw'])
        if isinstance(r['ret'], Exc):
            return {'exc': r['ret']}
        d = r['doc']
        return {'names': {c: [e['algorithm'] for e in d[c]] for c in OL.CATS}, 'comp': d['compression'], 'raw': d['banner']['raw'],
                'target': d.get('target'), 'client_ip': d.get('client_ip'), 'nlines': len(r['lines'])}

    def check(self, inp, obs):
        if 'exc' in obs:
            yield 'no-exception', False
            return
        conds = []
        for c in OL.CATS:
            exp = [x for x in inp['L'][c] if not (isinstance(x, str) and x == '')]
            conds.append(OL.s_list_eq(obs['names'][c], exp))
        yield 'names-per-category', s_and(*conds)
        # as for the algorithm categories: the non-empty names as sent (an empty name-list is no entry at all)
        yield 'compression-as-sent', OL.s_list_eq(obs['comp'], [x for x in inp['comp'] if not (isinstance(x, str) and x == '')])
        yield 'banner-as-sent', obs['raw'] == 'SSH-2.0-' + inp['sw']
        yield 'role-key', (obs['client_ip'] == '1.2.3.4' and obs['target'] is None) if self.client else (obs['target'] == 'host:22' and obs['client_ip'] is None)
        yield 'single-json-line', obs['nlines'] == 1

    def classify(self, inp, obs, label):
        if label == 'names-per-category':
            for c in OL.CATS:
                if inp['L'][c] == [''] and obs['names'][c] == ['']:
                    return 'json-entry-for-the-empty-name-of-an-empty-list'
        return label


class ClientDirections(Harness):
    """client audit of a KEXINIT whose client-to-server and server-to-client cipher/MAC lists differ (legal, unusual): the text report and the JSON report
    show the SAME advertised list per category, and that list is one of the two the peer sent (which direction is reported is the tool's convention)."""
    prop, ob = PROP, 'O5'
    width = 64

    def __init__(self, n_s2c, n_c2s, batch=False):
        self.n_s2c, self.n_c2s, self.batch = n_s2c, n_c2s, batch
        self.name = 'clientdirections-%d-%d%s' % (n_s2c, n_c2s, '-b' if batch else '')

    def params(self):
        return {'n_s2c': self.n_s2c, 'n_c2s': self.n_c2s, 'batch': self.batch}

    def inputs(self):
        return {'s2c': {c: mk_list('s' + c, (1,) * self.n_s2c) for c in ('enc', 'mac')}, 'c2s': {c: mk_list('c' + c, (1,) * self.n_c2s) for c in ('enc', 'mac')}}

    def run(self, M, inp):
        L = {'kex': ['curve25519-sha256'], 'key': ['ssh-ed25519'], 'enc': list(inp['s2c']['enc']), 'mac': list(inp['s2c']['mac']), 'comp': ['none']}
        c2s = {'enc': list(inp['c2s']['enc']), 'mac': list(inp['c2s']['mac']), 'comp': ['none']}
        t = OL.run_output(M, L, client=True, batch=self.batch, c2s=c2s)
        j = OL.run_output(M, L, client=True, json=True, c2s=c2s)
        for r in (t, j):
            if isinstance(r['ret'], Exc):
                return {'exc': r['ret']}
        heads = OL.first_lines_per_cat(t['lines'])
        return {'text': {c: heads[c] for c in ('enc', 'mac')}, 'json': {c: [e['algorithm'] for e in j['doc'][c]] for c in ('enc', 'mac')}}

    def check(self, inp, obs):
        if 'exc' in obs:
            yield 'no-exception', False
            return
        for c in ('enc', 'mac'):
            yield 'text-and-json-list-the-same-names', OL.s_list_eq(obs['text'][c], obs['json'][c])
            yield 'reported-list-is-one-the-peer-sent', s_or(OL.s_list_eq(obs['text'][c], inp['s2c'][c]), OL.s_list_eq(obs['text'][c], inp['c2s'][c]))
            yield 'json-list-is-one-the-peer-sent', s_or(OL.s_list_eq(obs['json'][c], inp['s2c'][c]), OL.s_list_eq(obs['json'][c], inp['c2s'][c]))


def empty_row_names():
    """per category, a name of the CURRENT table whose row carries no notes and no version information (rendered as a bare name)"""
    from vf.harness import mods
    db = mods()[1].ssh2_kexdb.SSH2_KexDB.MASTER_DB
    out = {}
    for c in OL.CATS:
        e = sorted(k for k, v in db[c].items() if v == [[]])
        out[c] = e[0] if e else None
    return out


class AuditNames(Harness):
    """the whole real audit() of a server (scripted network: KEXINIT with symbolic names, every later probe connection answered with the same banner and KEXINIT
    and then closed, so that the host-key and group-exchange probes reconnect and send their own KEXINIT): the JSON document and the text report still list
    exactly the advertised names and compression methods, in order - nothing the probes do may edit what was parsed."""
    prop, ob = PROP, 'O6'
    width = 64

    def __init__(self, comp, json):
        self.comp, self.json = tuple(comp), json
        self.name = 'auditnames-c(%s)-%s' % (','.join(str(x) for x in comp), 'json' if json else 'text')

    def params(self):
        return {'comp': list(self.comp), 'json': self.json}

    def inputs(self):
        az = ((0x61, 0x7A),)
        return {'n': {c: zx.fresh_str('n' + c, 2, az) for c in OL.CATS}, 'comp': [zx.fresh_str('cmp%d' % i, 2, az) if x == 1 else x for i, x in enumerate(self.comp)]}

    def run(self, M, inp):
        from props.c09 import BANNER
        n = inp['n']
        L = {'kex': ['curve25519-sha256', n['kex'], 'diffie-hellman-group-exchange-sha256'], 'key': ['ssh-ed25519', n['key'], 'ssh-rsa'], 'enc': [n['enc'], 'aes128-ctr'],
             'mac': ['hmac-sha2-256', n['mac']]}
        pk = AE.frame(AE.kexinit_payload(L['kex'], L['key'], L['enc'], L['mac'], comp=list(inp['comp'])))
        conns = [AE.Conn([BANNER, pk])] + [AE.Conn([BANNER, pk], 'close') for _ in range(14)]
        if zx.active():
            zx.cur().stdout = []
        cj = OL.CaptureJson()
        with AE.patched(M.ssh_audit, json=cj):
            r = AE.run_audit(M, conns, json=self.json)
        if isinstance(r['ret'], Exc):
            return {'exc': r['ret']}
        nprobe = len(r['net'].made) - 1
        if self.json:
            d = cj.docs[-1][0] if cj.docs else None
            if d is None:
                return {'exc': Exc('NoJson', 'no document')}
            return {'names': {c: [e['algorithm'] for e in d[c]] for c in OL.CATS}, 'comp': d['compression'], 'L': L, 'nprobe': nprobe}
        heads = OL.first_lines_per_cat(r['lines'])
        gen = [ln for ln in r['lines'] if OL._starts(ln, '(gen) compression: ')]
        return {'names': heads, 'gen': gen, 'L': L, 'nprobe': nprobe}

    def check(self, inp, obs):
        if 'exc' in obs:
            yield 'no-exception', False
            return
        yield 'probes-reconnected(reachability)', obs['nprobe'] >= 2
        yield 'names-as-advertised-after-the-probes', s_and(*[OL.s_list_eq(obs['names'][c], obs['L'][c]) for c in OL.CATS])
        if self.json:
            yield 'compression-as-sent-after-the-probes', OL.s_list_eq(obs['comp'], list(inp['comp']))
        else:
            comps = [x for x in inp['comp'] if not bool(x == 'none')]
            want = '(gen) compression: ' + ('enabled (' + zx.shims.zx_join(', ', comps) + ')' if comps else 'disabled')
            yield 'compression-as-sent-after-the-probes', any(bool(g == want) for g in obs['gen'])


class Ssh1(Harness):
    """SSH-1: cipher/authentication masks decode to exactly the names of the set bits; text and JSON show them."""
    prop, ob = PROP, 'O4'
    width = 64

    def __init__(self, view, which='both'):
        self.view, self.which = view, which
        self.name = 'ssh1-%s-%s' % (view, which)
        self.cost = 100

    def params(self):
        return {'view': self.view, 'which': self.which}

    def inputs(self):
        # the rendering views keep one mask concrete so that the report is rendered 2^7 + 2^6 (not 2^13) times
        cm = zx.fresh_int('cm', 0, 0xFFFFFFFF) if self.which in ('both', 'ciphers') else 0x48
        am = zx.fresh_int('am', 0, 0xFFFFFFFF) if self.which in ('both', 'auths') else 0x0C
        return {'cmask': cm, 'amask': am}

    def run(self, M, inp):
        pkm = M.ssh1_publickeymessage.SSH1_PublicKeyMessage(b'\x00' * 8, (768, 0x10001, 0xabcdef), (1024, 0x10001, 0xfedcba), 2, inp['cmask'], inp['amask'])
        if self.view == 'decode':
            return {'c': guarded(lambda: pkm.supported_ciphers), 'a': guarded(lambda: pkm.supported_authentications)}
        r = OL.run_output(M, None, pkm=pkm, json=(self.view == 'json'), sw='OpenSSH_1.2', protocol=(1, 5))
        if isinstance(r['ret'], Exc):
            return {'exc': r['ret']}
        if self.view == 'json':
            d = r['doc']
            return {'c': d.get('enc'), 'a': d.get('aut'), 'key': d.get('key')}
        heads = OL.first_lines_per_cat(r['lines'])
        return {'c': heads['enc'], 'a': heads['aut'], 'key': heads['key']}

    def check(self, inp, obs):
        if 'exc' in obs or isinstance(obs.get('c'), Exc) or isinstance(obs.get('a'), Exc):
            yield 'no-exception', False
            return
        cm, am = inp['cmask'], inp['amask']
        expc = [CIPHERS1[i] for i in range(len(CIPHERS1)) if bool((cm & (1 << i)) != 0)]
        expa = [AUTHS1[i] for i in range(1, len(AUTHS1)) if bool((am & (1 << i)) != 0)]
        yield 'ciphers==set-bits', obs['c'] == expc
        yield 'auths==set-bits', obs['a'] == expa
        if 'key' in obs:
            yield 'host-key-type', obs['key'] == ['ssh-rsa1']

    def classify(self, inp, obs, label):
        if self.view == 'json' and obs.get('c') is None:
            return 'ssh1-json-omits-ciphers-and-authentications'
        return label


def tasks(tier):
    q = tier == 'quick'
    T = []
    one = [(1,)] * 10
    T.append(Wire(one))
    T.append(Wire([()] * 10))
    for i in range(10):
        s = [(1,)] * 10
        s[i] = (1, 2)
        T.append(Wire(s))
        if not q:
            s = [(1,)] * 10
            s[i] = (2, 1, 1)
            T.append(Wire(s))
            s = [(1,)] * 10
            s[i] = ()
            T.append(Wire(s))
    T.append(Wire([('gss-group1-sha1-', 2), (1,), (1,), (1,), (1,), (1,), (1,), (1,), (), ()]))
    for f, n in ((0, 1), (1, 2), (3, 2), (5, 1)) if q else ((0, 1), (0, 2), (0, 3), (1, 2), (2, 2), (3, 2), (3, 3), (4, 1), (5, 2)):
        T.append(WireBytes(f, n))
    k = KNOWN
    shapes = [
        {'kex': (1,), 'key': (1,), 'enc': (1,), 'mac': (1,)},
        {'kex': (1, 2), 'key': (2,), 'enc': (1, 1), 'mac': (1,)},
        {'kex': (), 'key': (), 'enc': (), 'mac': ()},
        {'kex': (k['kex'][0], 1), 'key': (1, k['key'][1]), 'enc': (k['enc'][1], 1), 'mac': (k['mac'][0], k['mac'][1])},
        {'kex': (k['kex'][1], k['kex'][1]), 'key': (1, 1), 'enc': (k['enc'][0],), 'mac': (1,)},
    ]
    # a GSS key exchange of a family the table does not know (shown as advertised, not in the table's wildcard form); two of the same family; names around an
    # empty name (stray comma in the name-list)
    shapes.append({'kex': (('gss-group15-sha384-', 2), 1, ('gss-group15-sha384-', 1)), 'key': (1,), 'enc': (1, '', 1), 'mac': ('', 1)})
    shapes.append({'kex': (1, ''), 'key': (1, '', ''), 'enc': (1,), 'mac': (1, '', 'hmac-sha2-256')})
    er = empty_row_names()
    if all(er.values()):
        shapes.append({c: (er[c], 1) for c in OL.CATS})
        shapes.append({c: (1, er[c]) for c in OL.CATS})
    if not q:
        shapes += [{'kex': (1, 1, 1), 'key': (1,), 'enc': (2, 1), 'mac': (1, 2)}, {'kex': (2,), 'key': (1, 1, 1), 'enc': (), 'mac': (1, 1, 1)},
                   {'kex': (k['kex'][0], 2, k['kex'][1]), 'key': (k['key'][0],), 'enc': (1, k['enc'][1], 1), 'mac': ()}]
    for sh in shapes:
        for client in (False, True):
            T.append(Text(sh, client))
            T.append(Json(sh, client))
        T.append(Text(sh, False, verbose=True))
        T.append(Text(sh, False, batch=True))
    for comp in [(), ('none',), (1,), ('none', 1), (1, 'zlib@openssh.com')]:
        T.append(Text(shapes[0], False, comp=comp))
        T.append(Json(shapes[0], False, comp=comp))
    for a, b in ((1, 1), (1, 2), (2, 1)) if q else ((1, 1), (1, 2), (2, 1), (2, 2), (3, 1)):
        T.append(ClientDirections(a, b))
    T.append(ClientDirections(1, 1, batch=True))
    for comp in ([('zlib@openssh.com', 'none'), (1,), ('none', 1)] if q else [('zlib@openssh.com', 'none'), (1,), ('none', 1), ('none',), (1, 'none', 'zlib'), ('zlib',)]):
        for js in (True, False):
            T.append(AuditNames(comp, js))
    T.append(Ssh1('decode', 'ciphers'))
    T.append(Ssh1('decode', 'auths'))
    for v in ('text', 'json'):
        T.append(Ssh1(v, 'ciphers'))
        T.append(Ssh1(v, 'auths'))
    return T


def harness_by_name(name, params):
    k = name.split(':')[1].split('-')[0]
    p = params
    if k == 'wire':
        return Wire(p['shapes'])
    if k == 'text':
        return Text(p['shape'], p['client'], p['verbose'], p['batch'], p['comp'])
    if k == 'json':
        return Json(p['shape'], p['client'], p['comp'])
    if k == 'auditnames':
        return AuditNames(p['comp'], p['json'])
    if k == 'wirebytes':
        return WireBytes(p['field'], p['n'])
    if k == 'clientdirections':
        return ClientDirections(p['n_s2c'], p['n_c2s'], p.get('batch', False))
    if k == 'ssh1':
        return Ssh1(p['view'], p.get('which', 'both'))
    raise KeyError(name)


META = {
    'functions': ['SSH2_Kex.parse', 'ReadBuf.read_list', 'output()', 'output_algorithms/output_algorithm', 'build_struct', 'SSH1_PublicKeyMessage.supported_ciphers/'
                  'supported_authentications', 'Algorithms.*'],
    'bounds': {'quick': 'ten name-lists of 0..2 names (1..2 symbolic chars over the RFC 4251 alphabet, a gss-* form) through the real parser; reports for peers with '
                        '0..2 names per category mixing symbolic (unknown) and table-known names, duplicates, empty lists; both roles; plain/verbose/batch/JSON; '
                        'compression lists of 0..2; ALL 2^32 SSH-1 cipher masks and ALL 2^32 authentication masks (one symbolic at a time)',
               'thorough': 'lists of 3, three-name mixes'},
    'outside': ['the client-to-server lists (the tool reports the server-to-client lists for both roles)', 'names containing blanks', 'level filters (C15)',
                'non-UTF-8 bytes in names are C10/C09 (decoded with replacement by design)'],
    'stubs': ['json.dumps: capturing stub'],
    'assumptions': ['audit() hands the parsed object to output() unchanged (C09/O7 runs the real audit())'],
}
