"""Shared machinery for the report-rendering properties (C01, C02, C03, C04, C13, C15): runs the REAL output() /
output_algorithm() / build_struct() on peers with symbolic names and parses the produced lines symbolically."""
import zx
from zx import s_and, s_or, s_not, s_implies
from vf.harness import guarded, Exc
from vf import auditenv as AE
from props.c06 import make_kex

CATS = ['kex', 'key', 'enc', 'mac']
TAGS = [('[fail] ', 'fail'), ('[warn] ', 'warn'), ('[info] ', 'info')]
NAMECH = ((0x21, 0x2B), (0x2D, 0x7E))


class CaptureJson:
    """json.dumps stub: remembers the structure, returns an opaque concrete token (the library's rendering is trusted)"""

    def __init__(self):
        self.docs = []

    def dumps(self, obj, **kw):
        self.docs.append((obj, kw))
        return '@@JSON-DOC-%d@@' % (len(self.docs) - 1)

    def loads(self, s):
        import json
        if isinstance(s, str) and s.startswith('@@JSON-DOC-') and s.endswith('@@'):
            return self.docs[int(s[11:-2])][0]      # a document this stub rendered: well-formed by construction
        return json.loads(s)


def fresh_tables(M, patch=None):
    """per-thread rating tables as a fresh single-target process would have them; `patch(db2, db1)` may add synthetic rows"""
    M.ssh2_kexdb.SSH2_KexDB.DB_PER_THREAD.clear()
    M.ssh1_kexdb.SSH1_KexDB.DB_PER_THREAD.clear()
    db2 = M.ssh2_kexdb.SSH2_KexDB.get_db()
    db1 = M.ssh1_kexdb.SSH1_KexDB.get_db()
    if patch:
        patch(db2, db1)
    return db2, db1


def run_output(M, lists, json=False, batch=False, verbose=False, level='info', client=False, sw='OpenSSH_8.0', host_keys=None, dh=None,
               patch=None, pkm=None, header=(), notes='', print_target=False, host='host', port=22, protocol=(2, 0), comments=None, c2s=None, out_factory=None, valid_ascii=True, extra=None):
    """real output(); returns dict(ret, lines, doc)"""
    fresh_tables(M, patch)
    aconf = M.auditconf.AuditConf(host, port)
    aconf.json = json
    for k_, v_ in (extra or {}).items():
        setattr(aconf, k_, v_)
    out = (out_factory or M.outputbuffer.OutputBuffer)()
    out.use_colors = False
    out.batch, out.verbose, out.level = batch, verbose, level
    if json:
        out.json = True
    kex = None
    if lists is not None:
        L = dict(lists)
        # the tool reports the server-to-client lists; for server audits the client-to-server lists are decoys (a consumer of the wrong list becomes visible)
        if c2s is None:
            c2s = {'enc': ['decoy-c2s-cipher'], 'mac': ['decoy-c2s-mac', 'hmac-md5'], 'comp': ['decoy-c2s-compression']}
        kex = make_kex(M, L, host_keys=host_keys, dh=dh, c2s=c2s)
    banner = M.banner.Banner(protocol, sw, comments, valid_ascii) if sw is not None else None
    cj = CaptureJson()
    with AE.patched(M.ssh_audit, json=cj):
        r = guarded(M.ssh_audit.output, out, aconf, banner, list(header), '1.2.3.4' if client else None, kex, pkm, print_target, notes)
    lines = list(out.buffer) + list(out.section)
    doc = cj.docs[-1][0] if cj.docs else None
    return {'ret': r, 'lines': lines, 'doc': doc, 'kex': kex}


def _starts(line, p):
    if isinstance(line, str):
        return line.startswith(p)
    return bool(line.startswith(p))


def _find(line, p):
    return line.find(p)


def parse_alg_lines(lines, name_len_of=None):
    """-> list of (cat, head, level, text) for every '(cat) ...' line and continuation line; head is the rendered name part
    (may carry a size suffix).  Lines are str or SStr; the fixed decorations are concrete, so parsing does not fork on them."""
    out = []
    cur = None
    for ln in lines:
        cat = None
        for c in CATS + ['aut']:
            if _starts(ln, '(%s) ' % c):
                cat = c
                break
        if cat is None:
            # continuation line: blanks then `- [level] text
            i = _find(ln, '`- [')
            if cur is not None and i >= 0 and len(ln[:i].strip()) == 0:
                lvl = ln[i + 4:i + 8]
                out.append((cur[0], cur[1], lvl, ln[i + 10:]))
            continue
        body = ln[6:]
        i = _find(body, ' -- [')
        if i < 0:
            head = body.rstrip(' ') if isinstance(body, str) else body.rstrip(' ')
            cur = (cat, head)
            out.append((cat, head, 'info', ''))
            continue
        head = body[:i].rstrip(' ')
        lvl = body[i + 5:i + 9]
        text = body[i + 11:]
        cur = (cat, head)
        out.append((cat, head, lvl, text))
    return out


def names_per_cat(parsed):
    """sequence of rendered heads per category with runs of the same head collapsed (verbose mode prints one line per note)"""
    res = {c: [] for c in CATS + ['aut']}
    last = {c: None for c in CATS + ['aut']}
    for cat, head, lvl, text in parsed:
        if last[cat] is not None and last[cat] is head:
            continue
        res[cat].append(head)
        last[cat] = head
    return res


def first_lines_per_cat(lines):
    """heads of the FIRST line of each algorithm (non-verbose rendering: exactly one '(cat) ' line per algorithm)"""
    res = {c: [] for c in CATS + ['aut']}
    for ln in lines:
        for c in CATS + ['aut']:
            if _starts(ln, '(%s) ' % c):
                body = ln[6:]
                i = _find(body, ' -- [')
                head = body if i < 0 else body[:i]
                res[c].append(head.rstrip(' '))
                break
    return res


def severity_fold(parsed, initial=0):
    """independent spec of the exit status: 3 if any fail-tagged note, else 2 if any warn-tagged, else initial"""
    has_fail = any(lvl == 'fail' for _, _, lvl, _ in parsed)
    has_warn = any(lvl == 'warn' for _, _, lvl, _ in parsed)
    return 3 if has_fail else (2 if has_warn else initial)


def s_list_eq(a, b):
    if len(a) != len(b):
        return False
    return s_and(*[x == y for x, y in zip(a, b)]) if a else True
