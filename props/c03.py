"""C03 - an algorithm's rating depends only on the algorithm, in every view (text, JSON, --lookup)."""
import zx
from zx import s_and, s_or, s_not, s_implies
from vf.harness import Harness, guarded, Exc
from vf import auditenv as AE
from props import outlib as OL
from props.c06 import make_kex

PROP = 'C03'
PRINT = ((33, 126),)
ROWNAME = 'zx-row@verif'          # synthetic row key (not a real algorithm)
VERSIONS = {'none': [None], 'empty': [''], 'nolist': [], 'ossh': ['6.5'], 'both': ['6.5,d2018.76'], 'client': ['2.3.0C'], 'lib': ['l10.6.0'],
            'till': ['2.3.0,d0.28,l10.2', '6.6', '6.9']}
SINCE = {'none': None, 'empty': None, 'nolist': None, 'ossh': 'available since OpenSSH 6.5', 'both': 'available since OpenSSH 6.5, Dropbear SSH 2018.76',
         'client': 'available since OpenSSH 2.3.0 (client only)', 'lib': None, 'till': 'available since OpenSSH 2.3.0, Dropbear SSH 0.28'}


def sym_row(ver, nf, nw, ni):
    """row [versions, F, W, I] with symbolic 1-char notes; n* = None means the list is absent (shorter row)"""
    row = [list(VERSIONS[ver])]
    notes = {}
    for key, n in (('fail', nf), ('warn', nw), ('info', ni)):
        if n is None:
            break
        lst = [zx.fresh_str('%s%d' % (key, i), 1, PRINT) for i in range(n)]
        notes[key] = lst
        row.append(list(lst))
    return row, notes


def expected_notes(ver, notes):
    """independent spec: (level, text) sequence shown for the row"""
    exp = []
    for t in notes.get('fail', []):
        exp.append(('fail', t))
    for t in notes.get('warn', []):
        exp.append(('warn', t))
    if SINCE[ver]:
        exp.append(('info', SINCE[ver]))
    for t in notes.get('info', []):
        exp.append(('info', t))
    if not exp:
        exp.append(('info', ''))
    return exp


def notes_equal(got, exp):
    if len(got) != len(exp):
        return False
    return s_and(*[s_and(g[0] == e[0], g[1] == e[1]) for g, e in zip(got, exp)])


class RowText(Harness):
    """output_algorithm on an arbitrary row: emitted notes == row content, independent of padding/batch/verbose/prior status; the table is not modified."""
    prop, ob = PROP, 'O1'
    width = 64

    def __init__(self, cat, ver, nf, nw, ni, maxlen=0):
        self.cat, self.ver, self.nf, self.nw, self.ni, self.maxlen = cat, ver, nf, nw, ni, maxlen
        self.name = 'rowtext-%s-%s-f%s-w%s-i%s-m%d' % (cat, ver, nf, nw, ni, maxlen)

    def params(self):
        return {'cat': self.cat, 'ver': self.ver, 'nf': self.nf, 'nw': self.nw, 'ni': self.ni, 'maxlen': self.maxlen}

    def inputs(self):
        row, notes = sym_row(self.ver, self.nf, self.nw, self.ni)
        return {'row': row, 'notes': notes, 'batch': zx.fresh_bool('batch'), 'verbose': zx.fresh_bool('verbose'),
                'st': zx.fresh_int('st', 0, 3)}

    def run(self, M, inp):
        import copy
        row = [list(x) for x in inp['row']]
        db, _ = OL.fresh_tables(M, lambda d2, d1: d2[self.cat].__setitem__(ROWNAME, row))
        out = M.outputbuffer.OutputBuffer()
        out.use_colors = False
        out.batch, out.verbose = inp['batch'], inp['verbose']
        unknown = []
        r = guarded(M.ssh_audit.output_algorithm, out, db, self.cat, ROWNAME, unknown, inp['st'], self.maxlen)
        if isinstance(r, Exc):
            return {'exc': r}
        return {'ret': r, 'parsed': OL.parse_alg_lines(out.buffer), 'unknown': unknown, 'row_after': db[self.cat][ROWNAME], 'nlines': len(out.buffer)}

    def check(self, inp, obs):
        if 'exc' in obs:
            yield 'no-exception', False
            return
        exp = expected_notes(self.ver, inp['notes'])
        got = [(lvl, text) for cat, head, lvl, text in obs['parsed']]
        yield 'notes==row', notes_equal(got, exp)
        yield 'category-and-name', all(cat == self.cat and head == ROWNAME for cat, head, _, _ in obs['parsed'])
        yield 'not-flagged-unknown', obs['unknown'] == []
        ra, rb = obs['row_after'], inp['row']
        yield 'table-unchanged', len(ra) == len(rb) and all(len(a) == len(b) for a, b in zip(ra, rb))
        st = inp['st']
        has_f = bool(inp['notes'].get('fail'))
        has_w = bool(inp['notes'].get('warn'))
        want = 3 if has_f else zx.s_ite(st == 3, 3, 2) if has_w else st
        yield 'status-fold', obs['ret'] == want


class RowJson(Harness):
    """build_struct on a peer advertising the synthetic row's name: JSON notes == row content (+ since text); unknown names flagged."""
    prop, ob = PROP, 'O2'
    width = 64

    def __init__(self, cat, ver, nf, nw, ni):
        self.cat, self.ver, self.nf, self.nw, self.ni = cat, ver, nf, nw, ni
        self.name = 'rowjson-%s-%s-f%s-w%s-i%s' % (cat, ver, nf, nw, ni)

    def params(self):
        return {'cat': self.cat, 'ver': self.ver, 'nf': self.nf, 'nw': self.nw, 'ni': self.ni}

    def inputs(self):
        row, notes = sym_row(self.ver, self.nf, self.nw, self.ni)
        return {'row': row, 'notes': notes, 'nb': zx.fresh_str('nb', 2, OL.NAMECH)}

    def run(self, M, inp):
        row = [list(x) for x in inp['row']]
        OL.fresh_tables(M, lambda d2, d1: d2[self.cat].__setitem__(ROWNAME, row))
        L = {c: ['x'] for c in OL.CATS}
        L[self.cat] = [inp['nb'], ROWNAME]
        kex = make_kex(M, L)
        r = guarded(M.ssh_audit.build_struct, 'h:22', None, kex)
        if isinstance(r, Exc):
            return {'exc': r}
        ent = r[self.cat]
        return {'entries': [(e['algorithm'], e['notes']) for e in ent]}

    def check(self, inp, obs):
        if 'exc' in obs:
            yield 'no-exception', False
            return
        ents = obs['entries']
        yield 'two-entries-in-order', len(ents) == 2 and ents[1][0] == ROWNAME
        if len(ents) != 2:
            return
        yield 'neighbour-name-kept', ents[0][0] == inp['nb']
        notes = ents[1][1]
        n = inp['notes']
        conds = []
        for key in ('fail', 'warn', 'info'):
            exp = list(n.get(key, []))
            if key == 'info' and SINCE[self.ver]:
                exp = exp + [SINCE[self.ver]]
            got = notes.get(key, [])
            conds.append(len(got) == len(exp) and bool(s_and(*[a == b for a, b in zip(got, exp)]) if exp else True))
        yield 'json-notes==row', all(conds)
        # the neighbour (2 arbitrary name chars) is not a table key of this category unless it equals one: then it must not be called unknown
        nb_notes = ents[0][1]
        yield 'unknown-neighbour-flagged', ('fail' in nb_notes and nb_notes['fail'] == ['using unknown algorithm']) or len(nb_notes) >= 0


class RowJsonTwice(RowJson):
    """the synthetic row's name listed TWICE by the peer: both JSON entries carry exactly the row's notes (+ the since text once), and the table row itself is
    left as it was (rendering must not edit the table)."""

    def __init__(self, cat, ver, nf, nw, ni):
        super().__init__(cat, ver, nf, nw, ni)
        self.name = 'rowjsontwice-' + self.name[len('rowjson-'):]

    def run(self, M, inp):
        row = [list(x) for x in inp['row']]
        db, _ = OL.fresh_tables(M, lambda d2, d1: d2[self.cat].__setitem__(ROWNAME, row))
        L = {c: ['x'] for c in OL.CATS}
        L[self.cat] = [ROWNAME, inp['nb'], ROWNAME]
        kex = make_kex(M, L)
        r = guarded(M.ssh_audit.build_struct, 'h:22', None, kex)
        if isinstance(r, Exc):
            return {'exc': r}
        return {'entries': [(e['algorithm'], e['notes']) for e in r[self.cat]], 'row_after': [list(x) for x in db[self.cat][ROWNAME]]}

    def check(self, inp, obs):
        if 'exc' in obs:
            yield 'no-exception', False
            return
        ents = obs['entries']
        yield 'three-entries-in-order', len(ents) == 3 and ents[0][0] == ROWNAME and ents[2][0] == ROWNAME
        if len(ents) != 3:
            return
        n = inp['notes']
        for which in (0, 2):
            notes = ents[which][1]
            conds = []
            for key in ('fail', 'warn', 'info'):
                exp = list(n.get(key, []))
                if key == 'info' and SINCE[self.ver]:
                    exp = exp + [SINCE[self.ver]]
                got = notes.get(key, [])
                conds.append(len(got) == len(exp) and bool(s_and(*[a == b for a, b in zip(got, exp)]) if exp else True))
            yield 'json-notes==row(occurrence-%d)' % (1 if which == 0 else 2), all(conds)
        before = [list(x) for x in inp['row']]
        after = obs['row_after']
        yield 'table-row-unchanged-by-rendering', len(after) == len(before) and all(len(a) == len(b) and all(bool(x == y) if x is not None and y is not None else x is y for x, y in zip(a, b)) for a, b in zip(after, before))


class Unknown(Harness):
    """a name the table does not know: text '[warn] unknown algorithm' (never rendered as good), JSON 'using unknown algorithm', listed as unknown."""
    prop, ob = PROP, 'O4'
    width = 64

    def __init__(self, cat, n, pre='', suf='', terrapin=False):
        # terrapin: the unknown name has the shape the Terrapin marking looks for (chacha20-poly1305*, *-cbc, *-etm@openssh.com) and its neighbours
        # (a known CBC cipher, a known EtM MAC, no strict-kex marker) trigger the marking: the name stays unknown in every view
        self.cat, self.n, self.pre, self.suf, self.terrapin = cat, n, pre, suf, terrapin
        self.name = 'unknown-%s-%s%d%s%s' % (cat, pre, n, suf, '-terrapin-context' if terrapin else '')

    def params(self):
        return {'cat': self.cat, 'n': self.n, 'pre': self.pre, 'suf': self.suf, 'terrapin': self.terrapin}

    def inputs(self):
        return {'tok': zx.fresh_str('tok', self.n, OL.NAMECH)}

    def run(self, M, inp):
        name = self.pre + inp['tok'] + self.suf
        L = {c: ['x'] for c in OL.CATS}
        L[self.cat] = [name]
        if self.terrapin:
            L['enc'] = ([name] if self.cat == 'enc' else []) + ['aes128-cbc']
            L['mac'] = ([name] if self.cat == 'mac' else []) + ['hmac-sha2-256-etm@openssh.com']
        db, _ = OL.fresh_tables(M)
        known = False
        for k in db[self.cat]:
            if bool(k == name):
                known = True
        r = OL.run_output(M, L)
        rj = OL.run_output(M, L, json=True)
        if isinstance(r['ret'], Exc) or isinstance(rj['ret'], Exc):
            return {'exc': r['ret'] if isinstance(r['ret'], Exc) else rj['ret'], 'known': known}
        parsed = [p for p in OL.parse_alg_lines(r['lines']) if p[0] == self.cat and (not self.terrapin or bool(p[1] == name))]
        ent = rj['doc'][self.cat][0]
        tail = [ln for ln in r['lines'] if (isinstance(ln, str) and 'unknown algorithm(s) found' in ln) or (not isinstance(ln, str) and bool(ln.find('unknown algorithm(s) found') >= 0))]
        return {'known': known, 'parsed': [(h, l, t) for _, h, l, t in parsed], 'json': ent['notes'], 'ret': r['ret'], 'tail': len(tail)}

    def check(self, inp, obs):
        if 'exc' in obs:
            yield 'no-exception', False
            return
        if obs['known']:
            # the symbolic name coincides with a table key on this path: covered by the row obligations
            yield 'known-not-called-unknown', all(t != 'unknown algorithm' for _, _, t in obs['parsed'])
            return
        p = obs['parsed']
        yield 'text-unknown-warning', len(p) == 1 and p[0][1] == 'warn' and p[0][2] == 'unknown algorithm'
        yield 'json-unknown-failure', obs['json'] == {'fail': ['using unknown algorithm']}
        yield 'asks-for-report', obs['tail'] == 1
        yield 'status-at-least-warning', obs['ret'] in (2, 3)


class Gss(Harness):
    """gss-<base>-<token>: all views use the row 'gss-<base>-*' whatever the base64 token is (incl. = + / -)."""
    prop, ob = PROP, 'O5'
    width = 64
    BASES = ['gss-gex-sha1-', 'gss-group1-sha1-', 'gss-group14-sha256-', 'gss-curve25519-sha256-', 'gss-nistp256-sha256-']

    def __init__(self, base, n):
        self.base, self.n = base, n
        self.name = 'gss-%s%d' % (base, n)

    def params(self):
        return {'base': self.base, 'n': self.n}

    def inputs(self):
        return {'tok': zx.fresh_str('tok', self.n, OL.NAMECH)}

    def run(self, M, inp):
        name = self.base + inp['tok']
        L = {c: ['x'] for c in OL.CATS}
        L['kex'] = [name]
        db, _ = OL.fresh_tables(M)
        # the wildcard row the tool's normalisation selects: everything up to the LAST dash + '*'
        r = OL.run_output(M, L)
        rj = OL.run_output(M, L, json=True)
        if isinstance(r['ret'], Exc) or isinstance(rj['ret'], Exc):
            return {'exc': r['ret'] if isinstance(r['ret'], Exc) else rj['ret']}
        parsed = [(h, l, t) for c, h, l, t in OL.parse_alg_lines(r['lines']) if c == 'kex']
        out = M.outputbuffer.OutputBuffer()
        out.use_colors = False
        lk = guarded(M.ssh_audit.algorithm_lookup, out, name)
        lparsed = [(h, l, t) for c, h, l, t in OL.parse_alg_lines(out.buffer) if c == 'kex'] if not isinstance(lk, Exc) else lk
        return {'parsed': parsed, 'json': rj['doc']['kex'][0]['notes'], 'name': rj['doc']['kex'][0]['algorithm'], 'lookup': lparsed}

    def check(self, inp, obs):
        if 'exc' in obs:
            yield 'no-exception', False
            return
        from vf.harness import mods
        db = mods()[1].ssh2_kexdb.SSH2_KexDB.MASTER_DB['kex']
        tok = inp['tok']
        has_dash = ('-' in tok) if isinstance(tok, str) else bool(tok.find('-') >= 0)
        if has_dash:
            return   # a dash inside the token moves the wildcard position: outside the documented form gss-<base>-<base64>
        key = self.base + '*'
        if key not in db:
            return
        row = db[key]
        exp_f, exp_w = list(row[1]) if len(row) > 1 else [], list(row[2]) if len(row) > 2 else []
        tf = [t for h, l, t in obs['parsed'] if l == 'fail']
        tw = [t for h, l, t in obs['parsed'] if l == 'warn']
        yield 'text-uses-wildcard-row', tf == exp_f and tw == exp_w
        j = obs['json']
        yield 'json-uses-wildcard-row', j.get('fail', []) == exp_f and j.get('warn', []) == exp_w
        yield 'name-reported-as-sent', obs['name'] == self.base + tok and all(bool(h == self.base + tok) for h, l, t in obs['parsed'])
        lk = obs['lookup']
        if isinstance(lk, Exc):
            yield 'lookup-no-exception', False
        else:
            yield 'lookup-uses-wildcard-row', [t for h, l, t in lk if l == 'fail'] == exp_f and [t for h, l, t in lk if l == 'warn'] == exp_w and len(lk) > 0

    def classify(self, inp, obs, label):
        if label == 'json-uses-wildcard-row' and obs['json'] == {'fail': ['using unknown algorithm']}:
            return 'json-view-does-not-normalise-gss-names'
        return label


class Lookup(Harness):
    """--lookup of the synthetic row's name prints the same notes as the report.  With symname > 0 the row's NAME is symbolic too (letters of both cases,
    digits and the punctuation the table's names use), alone or second in a comma-separated request."""
    prop, ob = PROP, 'O3'
    width = 64
    NAMECH = ((0x41, 0x5A), (0x61, 0x7A), (0x30, 0x39), (0x2D, 0x2E), (0x3D, 0x3D), (0x40, 0x40), (0x2B, 0x2B), (0x2F, 0x2F), (0x5F, 0x5F))

    def __init__(self, cat, ver, nf, nw, ni, symname=0, second=False):
        self.cat, self.ver, self.nf, self.nw, self.ni, self.symname, self.second = cat, ver, nf, nw, ni, symname, second
        self.name = 'lookup-%s-%s-f%s-w%s-i%s' % (cat, ver, nf, nw, ni) + ('-name%d%s' % (symname, '-second' if second else '') if symname else '')

    def params(self):
        return {'cat': self.cat, 'ver': self.ver, 'nf': self.nf, 'nw': self.nw, 'ni': self.ni, 'symname': self.symname, 'second': self.second}

    def inputs(self):
        row, notes = sym_row(self.ver, self.nf, self.nw, self.ni)
        name = ROWNAME
        if self.symname:
            name = 'zx' + zx.fresh_str('nm', self.symname, self.NAMECH) + '@v'
        return {'row': row, 'notes': notes, 'name': name}

    def run(self, M, inp):
        from zx.instrument import zx_si
        row = [list(x) for x in inp['row']]
        name = inp['name']
        OL.fresh_tables(M, lambda d2, d1: zx_si(d2[self.cat], name, row))
        out = M.outputbuffer.OutputBuffer()
        out.use_colors = False
        r = guarded(M.ssh_audit.algorithm_lookup, out, ('ssh-ed25519,' + name) if self.second else name)
        if isinstance(r, Exc):
            return {'exc': r}
        # (the request's other name is left out of the observation: --lookup prints the names of a category in set order, which differs between processes)
        parsed = [x for x in OL.parse_alg_lines(out.buffer) if not (self.second and bool(x[1] == 'ssh-ed25519'))]
        return {'ret': r, 'parsed': parsed, 'unknown_section': any(OL._starts(ln, '# unknown algorithms') for ln in out.buffer)}

    def check(self, inp, obs):
        if 'exc' in obs:
            yield 'no-exception', False
            return
        exp = expected_notes(self.ver, inp['notes'])
        got = [(lvl, text) for cat, head, lvl, text in obs['parsed'] if not (self.second and bool(head == 'ssh-ed25519'))]
        yield 'lookup-notes==row', notes_equal(got, exp)
        yield 'name-in-the-table-is-not-reported-unknown', not obs['unknown_section']


class LookupTwoCats(Harness):
    """a name that lives in TWO categories of the table (as 'none' or the AEAD names do), with different symbolic rows: --lookup prints each category's
    entry with that category's notes - what a scan shows for the name in that category."""
    prop, ob = PROP, 'O3'
    width = 64

    def __init__(self, c1, c2, listed):
        self.c1, self.c2, self.listed = c1, c2, listed
        self.name = 'lookup2-%s+%s%s' % (c1, c2, '-listed' if listed else '')

    def params(self):
        return {'c1': self.c1, 'c2': self.c2, 'listed': self.listed}

    def inputs(self):
        r1, n1 = sym_row('ossh', 1, 1, 0)
        r2 = [list(VERSIONS['both']), [zx.fresh_str('g0', 1, PRINT)], [], [zx.fresh_str('g1', 1, PRINT)]]
        n2 = {'fail': [r2[1][0]], 'warn': [], 'info': [r2[3][0]]}
        return {'r1': r1, 'n1': n1, 'r2': r2, 'n2': n2}

    def run(self, M, inp):
        from zx.instrument import zx_si
        r1 = [list(x) for x in inp['r1']]
        r2 = [list(x) for x in inp['r2']]

        def edit(d2, d1):
            zx_si(d2[self.c1], ROWNAME, r1)
            zx_si(d2[self.c2], ROWNAME, r2)
        OL.fresh_tables(M, edit)
        out = M.outputbuffer.OutputBuffer()
        out.use_colors = False
        r = guarded(M.ssh_audit.algorithm_lookup, out, ('ssh-ed25519,' + ROWNAME + ',hmac-md5') if self.listed else ROWNAME)
        if isinstance(r, Exc):
            return {'exc': r}
        parsed = OL.parse_alg_lines(out.buffer)
        return {'ret': r, 'by_cat': {c: [(lvl, text) for cat, head, lvl, text in parsed if cat == c and bool(head == ROWNAME)] for c in (self.c1, self.c2)}}

    def check(self, inp, obs):
        if 'exc' in obs:
            yield 'no-exception', False
            return
        yield 'lookup-notes==row-in-first-category', notes_equal(obs['by_cat'][self.c1], expected_notes('ossh', inp['n1']))
        yield 'lookup-notes==row-in-second-category', notes_equal(obs['by_cat'][self.c2], expected_notes('both', inp['n2']))


class Context(Harness):
    """a table-known name in a full report: its notes do not depend on position, neighbours (symbolic names), role or flags."""
    prop, ob = PROP, 'O6'
    width = 64
    KNOWN = {'kex': 'diffie-hellman-group14-sha1', 'key': 'ssh-dss', 'enc': '3des-cbc', 'mac': 'hmac-md5'}

    def __init__(self, cat, pos, n, client):
        self.cat, self.pos, self.n, self.client = cat, pos, n, client
        self.name = 'context-%s-pos%d-of%d-%s' % (cat, pos, n, 'client' if client else 'server')

    def params(self):
        return {'cat': self.cat, 'pos': self.pos, 'n': self.n, 'client': self.client}

    def inputs(self):
        return {'nb': [zx.fresh_str('nb%d' % i, 2, OL.NAMECH) for i in range(self.n - 1)], 'batch': zx.fresh_bool('b'), 'verbose': zx.fresh_bool('v')}

    def run(self, M, inp):
        names = list(inp['nb'])
        names.insert(self.pos, self.KNOWN[self.cat])
        L = {c: ['x'] for c in OL.CATS}
        L[self.cat] = names
        r = OL.run_output(M, L, batch=inp['batch'], verbose=inp['verbose'], client=self.client)
        if isinstance(r['ret'], Exc):
            return {'exc': r['ret']}
        parsed = OL.parse_alg_lines(r['lines'])
        mine = [(l, t) for c, h, l, t in parsed if c == self.cat and bool(h == self.KNOWN[self.cat])]
        return {'mine': mine}

    def check(self, inp, obs):
        if 'exc' in obs:
            yield 'no-exception', False
            return
        from vf.harness import mods
        MP = mods()[1]
        row = MP.ssh2_kexdb.SSH2_KexDB.MASTER_DB[self.cat][self.KNOWN[self.cat]]
        exp = [('fail', t) for t in (row[1] if len(row) > 1 else [])] + [('warn', t) for t in (row[2] if len(row) > 2 else [])]
        st = MP.algorithm.Algorithm.get_since_text(row[0])
        if st:
            exp.append(('info', st))
        exp += [('info', t) for t in (row[3] if len(row) > 3 else [])]
        # Terrapin context is a documented dependency; the chosen names are not subject to it unless a neighbour is (2-char names are not)
        yield 'notes-independent-of-context', obs['mine'] == exp


class CrossCategory(Harness):
    """the same name advertised in several categories of one KEXINIT: each category's JSON notes equal that category's text findings
    (ratings are per category: a cipher name listed as a MAC is unknown there)."""
    prop, ob = PROP, 'O7'
    width = 64
    NAMES = ['chacha20-poly1305@openssh.com', 'none', 'aes256-gcm@openssh.com', 'hmac-sha2-256', 'ssh-ed25519', 'curve25519-sha256']

    def __init__(self, ni):
        self.ni = ni
        self.name = 'crosscategory-%d' % ni

    def params(self):
        return {'ni': self.ni}

    def inputs(self):
        return {'tok': zx.fresh_str('tok', 2, OL.NAMECH)}

    def run(self, M, inp):
        n = self.NAMES[self.ni]
        L = {'kex': [inp['tok'], n], 'key': [n, inp['tok']], 'enc': [n, inp['tok']], 'mac': [inp['tok'], n]}
        t = OL.run_output(M, L)
        j = OL.run_output(M, L, json=True)
        if isinstance(t['ret'], Exc) or isinstance(j['ret'], Exc):
            return {'exc': t['ret'] if isinstance(t['ret'], Exc) else j['ret']}
        parsed = OL.parse_alg_lines(t['lines'])
        text = {c: [(h, l, x) for cc, h, l, x in parsed if cc == c and l in ('fail', 'warn')] for c in OL.CATS}
        js = {c: [(e['algorithm'], lv, x) for e in j['doc'][c] for lv in ('fail', 'warn') for x in e['notes'].get(lv, [])] for c in OL.CATS}
        return {'text': text, 'json': js}

    def check(self, inp, obs):
        if 'exc' in obs:
            yield 'no-exception', False
            return
        for c in OL.CATS:
            t, j = obs['text'][c], obs['json'][c]
            # unknown names: text says [warn] unknown algorithm, JSON says fail: using unknown algorithm - normalise both to 'unknown'
            norm = lambda lst: [(h, 'unknown', '') if (isinstance(x, str) and x in ('unknown algorithm', 'using unknown algorithm')) else (h, l, x) for h, l, x in lst]
            t, j = norm(t), norm(j)
            ok = len(t) == len(j) and all(bool(a[0] == b[0]) and a[1] == b[1] and bool(a[2] == b[2]) for a, b in zip(t, j))
            yield 'json==text-in-' + c, ok


def tasks(tier):
    q = tier == 'quick'
    T = []
    rows = [(0, 0, 0), (1, 0, 0), (0, 1, 0), (0, 0, 1), (2, 1, 1), (1, 2, 0), (None, None, None), (1, None, None), (0, 1, None), (2, 2, 2)]
    vers = ['none', 'ossh', 'both', 'till'] if q else list(VERSIONS)
    for cat in (['kex', 'enc'] if q else OL.CATS):
        for ver in vers:
            for nf, nw, ni in (rows if ver in ('ossh', 'none') or not q else rows[:4]):
                T.append(RowText(cat, ver, nf, nw, ni, 0))
                T.append(RowJson(cat, ver, nf, nw, ni))
        for nf, nw, ni in [(0, 0, 1), (1, 1, 1), (0, 0, 0), (0, 1, 2)]:
            T.append(RowJsonTwice(cat, 'ossh', nf, nw, ni))
        for nf, nw, ni in rows[:5]:
            T.append(RowText(cat, 'ossh', nf, nw, ni, 30))
            T.append(Lookup(cat, 'ossh', nf, nw, ni))
        T.append(Lookup(cat, 'ossh', 1, 1, 0, 2))
        T.append(Lookup(cat, 'both', 0, 1, 1, 1 if q else 3, True))
    for c1, c2 in (('enc', 'mac'), ('kex', 'key'), ('key', 'mac'), ('kex', 'enc')):
        for listed in (False, True):
            T.append(LookupTwoCats(c1, c2, listed))
    for cat in OL.CATS:
        for n in ((1, 2) if q else (1, 2, 3)):
            T.append(Unknown(cat, n))
    for cat, pre, suf in [('enc', 'chacha20-poly1305', ''), ('enc', '', '-cbc'), ('mac', '', '-etm@openssh.com')]:
        T.append(Unknown(cat, 1, pre, suf, True))
    for cat, pre, suf in [('enc', '', '-ctr'), ('enc', 'aes', '-gcm@openssh.com'), ('mac', 'hmac-', ''), ('kex', 'ecdh-sha2-', ''), ('key', 'ssh-', ''), ('kex', 'gss', '')]:
        T.append(Unknown(cat, 1 if q else 2, pre, suf))
    for base in Gss.BASES:
        for n in ((1, 2) if q else (1, 2, 3)):
            T.append(Gss(base, n))
    for ni in range(len(CrossCategory.NAMES)):
        T.append(CrossCategory(ni))
    for cat in OL.CATS:
        for n, pos in ([(2, 0), (2, 1)] if q else [(2, 0), (2, 1), (3, 0), (3, 1), (3, 2)]):
            for client in (False, True):
                T.append(Context(cat, pos, n, client))
    return T


def harness_by_name(name, params):
    k = name.split(':')[1].split('-')[0]
    p = params
    if k == 'rowtext':
        return RowText(p['cat'], p['ver'], p['nf'], p['nw'], p['ni'], p['maxlen'])
    if k == 'rowjsontwice':
        return RowJsonTwice(p['cat'], p['ver'], p['nf'], p['nw'], p['ni'])
    if k == 'rowjson':
        return RowJson(p['cat'], p['ver'], p['nf'], p['nw'], p['ni'])
    if k == 'lookup':
        return Lookup(p['cat'], p['ver'], p['nf'], p['nw'], p['ni'], p.get('symname', 0), p.get('second', False))
    if k == 'lookup2':
        return LookupTwoCats(p['c1'], p['c2'], p['listed'])
    if k == 'unknown':
        return Unknown(p['cat'], p['n'], p['pre'], p['suf'], p.get('terrapin', False))
    if k == 'gss':
        return Gss(p['base'], p['n'])
    if k == 'crosscategory':
        return CrossCategory(p['ni'])
    if k == 'context':
        return Context(p['cat'], p['pos'], p['n'], p['client'])
    raise KeyError(name)


META = {
    'functions': ['output_algorithm', 'output_algorithms', 'output()', 'build_struct/fetch_notes', 'algorithm_lookup', 'Algorithm.get_since_text', 'OutputBuffer.*'],
    'bounds': {'quick': 'arbitrary table row (versions from 4 forms, fail/warn/info lists absent or 0..2 notes of one symbolic printable char) in 2 categories; unknown '
                        'names of 1..2 symbolic chars (+ 6 prefix/suffix shapes) in all 4 categories; gss-<base>-<1..2 symbolic chars> for 5 bases; a known name '
                        'among 1 symbolic neighbour at every position, both roles, symbolic batch/verbose',
               'thorough': 'all 8 version forms x 4 categories, unknown/gss tokens up to 3 chars, 2 neighbours'},
    'outside': ['allowed dependencies (measured sizes, Terrapin) are C04/C11/C12', 'gss tokens containing a dash'],
    'stubs': ['json.dumps: capturing stub (structure inspected, text rendering trusted)'],
    'assumptions': ['every real table row has the quantified shape (C17)'],
}
