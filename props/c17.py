"""C17 - the tool's knowledge tables agree with each other (TAB: tables of the CURRENT tree asserted as finite-domain facts into z3)."""
import ast
import os
import time
import z3

from vf import harness as H
from props import outlib as OL

PROP = 'C17'
# candidate primitive tokens; a token is BRANDED when at least one row whose name contains it carries a failure (derived at run time)
TOKENS = ['md5', 'sha1', 'arcfour', 'rc4', '3des', 'des', 'none', 'dss', 'dsa', 'group1-', 'nistp', 'blowfish', 'cast', 'idea', 'rijndael', 'ripemd', 'seed', 'serpent']
# documented exceptions (name, token, reason) - entries whose name contains the token without naming the broken primitive
EXCEPTIONS = {
    ('ecdsa', 'dsa'): 'ECDSA is not DSA', ('ed25519', 'dsa'): 'EdDSA', ('des', '3des'): None,
}


def _res(name):
    return {'harness': '%s/O1:%s' % (PROP, name), 'ob': PROP + '/O1', 'params': {}, 'status': 'ok', 'violations': [], 'paths': 0, 'decisions': 0,
            'queries': 0, 'solver_time_s': 0.0, 'xval': 0, 'replayed': 0, 'asserts': 0, 'sample': None, 'error': None}


def _viol(res, label, cls, witness):
    res['violations'].append({'ob': res['ob'], 'harness': res['harness'], 'label': label, 'class': cls, 'params': {}, 'witness': {'inputs': witness, 'observation': label}})
    res['replayed'] += 1


def member_query(res, candidates, allowed, what):
    """exists x in candidates with x not in allowed ?  (z3 over Strings; sat model = offending name)"""
    x = z3.String('x')
    s = z3.Solver()
    s.set('timeout', 30000)
    if not candidates:
        return
    s.add(z3.Or(*[x == z3.StringVal(c) for c in candidates]))
    s.add(*[x != z3.StringVal(a) for a in allowed])
    t0 = time.time()
    bad = []
    while True:
        r = s.check()
        res['queries'] += 1
        if r == z3.unknown:
            res['status'] = 'inconclusive'
            res['error'] = 'z3 unknown'
            break
        if r == z3.unsat:
            break
        v = s.model()[x].as_string()
        bad.append(v)
        s.add(x != z3.StringVal(v))
    res['solver_time_s'] += time.time() - t0
    res['paths'] += len(candidates)
    res['decisions'] += len(candidates)
    res['asserts'] += 1
    for v in bad:
        _viol(res, what, v, {'name': v})


def harvest_dict_keys(module, func, varname):
    p = os.path.join(H.SRC, 'ssh_audit', module + '.py')
    tree = ast.parse(open(p).read())
    for fn in ast.walk(tree):
        if isinstance(fn, ast.FunctionDef) and fn.name == func:
            for n in ast.walk(fn):
                if isinstance(n, ast.Assign) and any(isinstance(t, ast.Name) and t.id == varname for t in n.targets) and isinstance(n.value, ast.Dict):
                    return [k.value for k in n.value.keys if isinstance(k, ast.Constant)]
    return None


def cross_references():
    t0 = time.time()
    res = _res('cross-references')
    MP = H.mods()[1]
    db = MP.ssh2_kexdb.SSH2_KexDB.MASTER_DB
    keys = {c: list(db[c].keys()) for c in db}
    pol = MP.builtin_policies.BUILTIN_POLICIES
    for field, cat in (('host_keys', 'key'), ('optional_host_keys', 'key'), ('kex', 'kex'), ('ciphers', 'enc'), ('macs', 'mac')):
        names = sorted({n for p in pol.values() for n in (p[field] or [])})
        member_query(res, names, keys[cat], 'builtin-policy-%s-known-to-table' % field)
    sizes = sorted({n for p in pol.values() for n in (p['hostkey_sizes'] or {})})
    member_query(res, sizes, keys['key'], 'builtin-policy-hostkey_sizes-known-to-table')
    dhs = sorted({n for p in pol.values() for n in (p['dh_modulus_sizes'] or {})})
    member_query(res, dhs, keys['kex'], 'builtin-policy-dh_modulus_sizes-known-to-table')
    member_query(res, list(MP.hostkeytest.HostKeyTest.HOST_KEY_TYPES), keys['key'], 'host-key-probe-table-known-to-table')
    member_query(res, list(MP.hostkeytest.HostKeyTest.RSA_FAMILY), keys['key'], 'rsa-family-known-to-table')
    D = MP.dheat.DHEat
    member_query(res, list(D.gex_algs), keys['kex'], 'dheat-gex_algs-known-to-table')
    member_query(res, list(D.alg_priority), keys['kex'], 'dheat-alg_priority-known-to-table')
    member_query(res, list(D.alg_modulus_sizes), keys['kex'], 'dheat-alg_modulus_sizes-known-to-table')
    member_query(res, list(D.alg_priority), list(D.alg_modulus_sizes), 'dheat-priority-has-modulus-size')
    for mod, fn, var in (('hostkeytest', 'run', 'KEX_TO_DHGROUP'), ('gextest', 'run', 'GEX_ALGS'), ('gextest', 'granular_modulus_size_test', 'GEX_ALGS')):
        ks = harvest_dict_keys(mod, fn, var)
        if ks is None:
            res['status'] = 'inconclusive'
            res['error'] = 'pattern drift: %s.%s.%s not found' % (mod, fn, var)
        else:
            member_query(res, ks, keys['kex'], '%s-%s-known-to-table' % (mod, var))
    res['sample'] = {'inputs': {'policies': len(pol), 'table_rows': sum(len(v) for v in keys.values())}, 'observation': 'every referenced name is a key of the right category'}
    res['note'] = 'finite exhaustive (tables as they stand), decided by z3 over String equalities'
    res['wall_s'] = round(time.time() - t0, 3)
    return res


def policies_vs_ratings():
    """no built-in policy requires or permits an algorithm with a failure: exists p, field, name: name in p.field and nfail(name) > 0 ?"""
    t0 = time.time()
    res = _res('builtin-policies-have-no-failed-algorithm')
    MP = H.mods()[1]
    db = MP.ssh2_kexdb.SSH2_KexDB.MASTER_DB
    pol = MP.builtin_policies.BUILTIN_POLICIES
    nfail = z3.Function('nfail', z3.StringSort(), z3.StringSort(), z3.IntSort())
    s = z3.Solver()
    s.set('timeout', 60000)
    for c in db:
        for n, row in db[c].items():
            s.add(nfail(z3.StringVal(c), z3.StringVal(n)) == (len(row[1]) if len(row) > 1 else 0))
    x, c = z3.String('x'), z3.String('c')
    pairs = set()
    for p in pol.values():
        for field, cat in (('host_keys', 'key'), ('optional_host_keys', 'key'), ('kex', 'kex'), ('ciphers', 'enc'), ('macs', 'mac')):
            for n in (p[field] or []):
                if n in db[cat]:
                    pairs.add((cat, n))
    s.add(z3.Or(*[z3.And(c == z3.StringVal(cc), x == z3.StringVal(n)) for cc, n in sorted(pairs)]))
    s.add(nfail(c, x) > 0)
    while True:
        r = s.check()
        res['queries'] += 1
        if r == z3.unknown:
            res['status'] = 'inconclusive'
            res['error'] = 'z3 unknown'
            break
        if r == z3.unsat:
            break
        m = s.model()
        cc, n = m[c].as_string(), m[x].as_string()
        users = [pn for pn, p in pol.items() for f in ('host_keys', 'optional_host_keys', 'kex', 'ciphers', 'macs') if n in (p[f] or [])]
        _viol(res, 'builtin-policy-names-a-failed-algorithm', '%s:%s' % (cc, n), {'category': cc, 'name': n, 'policies': users[:3]})
        s.add(z3.Not(z3.And(c == z3.StringVal(cc), x == z3.StringVal(n))))
    res['paths'] = len(pairs)
    res['decisions'] = len(pairs)
    res['asserts'] = 1
    res['solver_time_s'] = round(time.time() - t0, 3)
    res['sample'] = {'inputs': {'policy_algorithm_pairs': len(pairs)}, 'observation': 'nfail == 0 for each'}
    res['note'] = 'finite exhaustive, z3 with an uninterpreted nfail function constrained by the extracted table'
    res['wall_s'] = round(time.time() - t0, 3)
    return res


def branded_primitives():
    t0 = time.time()
    res = _res('branded-primitives-fail-under-every-spelling')
    MP = H.mods()[1]
    dbs = [('ssh2', MP.ssh2_kexdb.SSH2_KexDB.MASTER_DB), ('ssh1', MP.ssh1_kexdb.SSH1_KexDB.MASTER_DB)]
    rows = [(v, c, n, row) for v, db in dbs for c in db for n, row in db[c].items()]

    def contains(n, t):
        if t == 'none':
            return n == 'none' or n.startswith('none@')
        if t == 'des':
            return 'des' in n
        if t == 'dsa':
            return 'dsa' in n and 'ecdsa' not in n and 'eddsa' not in n
        if t == 'seed':
            return n.startswith('seed')
        if t == 'cast':
            return n.startswith('cast')
        if t == 'idea':
            return n.startswith('idea')
        return t in n
    branded = [t for t in TOKENS if any(contains(n, t) and len(row) > 1 and len(row[1]) > 0 for _, _, n, row in rows)]
    nfail = z3.Function('nfail', z3.StringSort(), z3.IntSort())
    x = z3.String('x')
    for t in branded:
        cand = sorted({'%s/%s/%s' % (v, c, n) for v, c, n, row in rows if contains(n, t)})
        s = z3.Solver()
        s.set('timeout', 30000)
        for v, c, n, row in rows:
            if contains(n, t):
                s.add(nfail(z3.StringVal('%s/%s/%s' % (v, c, n))) == (len(row[1]) if len(row) > 1 else 0))
        s.add(z3.Or(*[x == z3.StringVal(k) for k in cand]))
        s.add(nfail(x) == 0)
        while True:
            r = s.check()
            res['queries'] += 1
            if r != z3.sat:
                if r == z3.unknown:
                    res['status'] = 'inconclusive'
                    res['error'] = 'z3 unknown'
                break
            k = s.model()[x].as_string()
            _viol(res, 'entry-with-branded-primitive-has-no-failure', '%s~%s' % (k, t), {'entry': k, 'primitive': t})
            s.add(x != z3.StringVal(k))
        res['paths'] += len(cand)
        res['asserts'] += 1
    res['decisions'] = res['paths']
    res['sample'] = {'inputs': {'branded_tokens': branded}, 'observation': 'every entry containing a branded token has nfail > 0'}
    res['note'] = 'brand set derived from the table itself (token is branded when some entry containing it carries a failure)'
    res['solver_time_s'] = round(time.time() - t0, 3)
    res['wall_s'] = round(time.time() - t0, 3)
    return res


def row_shapes():
    t0 = time.time()
    res = _res('documented-row-shape')
    MP = H.mods()[1]
    n = 0
    for v, db in (('ssh2', MP.ssh2_kexdb.SSH2_KexDB.MASTER_DB), ('ssh1', MP.ssh1_kexdb.SSH1_KexDB.MASTER_DB)):
        for c in db:
            for name, row in db[c].items():
                n += 1
                ok = isinstance(name, str) and len(name.strip()) > 0 and isinstance(row, list) and 1 <= len(row) <= 4 and all(isinstance(x, list) for x in row)
                ok = ok and all(x is None or isinstance(x, str) for x in row[0]) and len(row[0]) <= 3
                ok = ok and all(isinstance(t, str) and len(t) > 0 for lst in row[1:] for t in lst)
                ok = ok and (len(row) < 3 or len(row[2]) <= 8)
                if not ok:
                    _viol(res, 'row-shape', '%s/%s/%s' % (v, c, name), {'entry': name, 'row': repr(row)[:200]})
    res['paths'] = res['decisions'] = n
    res['asserts'] = n
    res['sample'] = {'inputs': {'rows': n}, 'observation': '[[versions<=3 of str|None], F?, W?(<=8), I?] with non-empty string notes'}
    res['note'] = 'finite exhaustive structural check (this is the shape C03 quantifies over)'
    res['wall_s'] = round(time.time() - t0, 3)
    return res


def policy_peer_has_no_failure():
    """lift: a peer configured exactly per each built-in policy shows no [fail] line in a standard report (real output())."""
    t0 = time.time()
    res = _res('peer-per-builtin-policy-shows-no-failure')
    MP = H.mods()[1]
    pol = MP.builtin_policies.BUILTIN_POLICIES
    for name, p in pol.items():
        L = {'kex': list(p['kex'] or ['curve25519-sha256']), 'key': list(p['host_keys'] or ['ssh-ed25519']) + list(p['optional_host_keys'] or []),
             'enc': list(p['ciphers'] or ['aes256-ctr']), 'mac': list(p['macs'] or ['hmac-sha2-256-etm@openssh.com'])}
        hk = {k: (v['hostkey_size'], v.get('ca_key_type', ''), v.get('ca_key_size', 0)) for k, v in (p['hostkey_sizes'] or {}).items()}
        r = OL.run_output(MP, L, host_keys=hk, dh=dict(p['dh_modulus_sizes'] or {}), client=not p['server_policy'])
        fails = [ln for ln in r['lines'] if '[fail]' in ln]
        res['paths'] += 1
        res['asserts'] += 1
        res['xval'] += 1
        if fails or r['ret'] == 3:
            _viol(res, 'policy-conformant-peer-shows-failure', name, {'policy': name, 'lines': fails[:3]})
    res['decisions'] = res['paths']
    res['sample'] = {'inputs': {'policies': res['paths']}, 'observation': 'no [fail] line, status != 3'}
    res['note'] = 'finite exhaustive concrete run of the real output() per policy'
    res['wall_s'] = round(time.time() - t0, 3)
    return res


def policy_rejects_failed_extra():
    """lift of 'permits': the real Policy.evaluate of every built-in policy FAILS a peer that is configured per the policy but additionally offers one
    algorithm the table rates as a failure (every such name, every category, first and last position)."""
    t0 = time.time()
    res = _res('builtin-policy-rejects-a-peer-with-an-extra-failed-algorithm')
    MP = H.mods()[1]
    from props.c06 import make_kex
    db = MP.ssh2_kexdb.SSH2_KexDB.MASTER_DB
    pol = MP.builtin_policies.BUILTIN_POLICIES
    failed = {c: [n for n, row in db[c].items() if len(row) > 1 and row[1]] for c in ('kex', 'key', 'enc', 'mac')}
    for name, p in pol.items():
        P = MP.policy.Policy.load_builtin_policy(name)
        if P is None:
            res['status'] = 'inconclusive'
            res['error'] = 'built-in policy %r does not load' % name
            break
        base = {'kex': list(p['kex'] or []), 'key': list(p['host_keys'] or []), 'enc': list(p['ciphers'] or []), 'mac': list(p['macs'] or [])}
        hk = {k: (v['hostkey_size'], v.get('ca_key_type', ''), v.get('ca_key_size', 0)) for k, v in (p['hostkey_sizes'] or {}).items()}
        dh = dict(p['dh_modulus_sizes'] or {})
        banner = MP.banner.Banner((2, 0), 'OpenSSH_9.9', None, True)
        # reachability witness: the unmodified peer passes
        k0 = make_kex(MP, base, host_keys=hk, dh=dh)
        ok0 = P.evaluate(banner, k0)[0]
        res['asserts'] += 1
        if not ok0:
            _viol(res, 'policy-conformant-peer-fails-its-own-policy', name, {'policy': name})
            continue
        for c in ('kex', 'key', 'enc', 'mac'):
            if p[{'kex': 'kex', 'key': 'host_keys', 'enc': 'ciphers', 'mac': 'macs'}[c]] is None:
                continue        # the policy does not constrain this category
            for x in failed[c]:
                if x in base[c] or (c == 'key' and x in (p['optional_host_keys'] or [])):
                    continue
                for front in (False, True):
                    L = dict(base)
                    L[c] = ([x] + base[c]) if front else (base[c] + [x])
                    k1 = make_kex(MP, L, host_keys=hk, dh=dh)
                    passed = P.evaluate(banner, k1)[0]
                    res['paths'] += 1
                    if passed:
                        _viol(res, 'builtin-policy-permits-a-failed-algorithm', '%s:%s' % (c, x), {'policy': name, 'category': c, 'extra': x, 'front': front})
                        break
    res['decisions'] = res['paths']
    res['xval'] = res['paths']
    res['sample'] = {'inputs': {'evaluations': res['paths']}, 'observation': 'every peer with an extra failed algorithm fails the policy'}
    res['note'] = 'finite exhaustive concrete run of the real Policy.evaluate per (policy, category, failed name, position)'
    res['wall_s'] = round(time.time() - t0, 3)
    return res


def _wellformed_blob(kt):
    """public key blob of host-key type kt as OpenSSH encodes it (PROTOCOL, PROTOCOL.certkeys, PROTOCOL.u2f), good-sized; None if the type is unknown here"""
    import struct
    S = lambda b: struct.pack('>I', len(b)) + b
    base = kt.replace('-cert-v01@openssh.com', '')
    rsa_n = b'\x00' + b'\xc3' * 512          # 4096-bit modulus as mpint
    if base in ('ssh-rsa', 'rsa-sha2-256', 'rsa-sha2-512'):
        key = [S(b'\x01\x00\x01'), S(rsa_n)]
        wire = 'ssh-rsa'
    elif base == 'ssh-ed25519':
        key, wire = [S(b'\x11' * 32)], 'ssh-ed25519'
    elif base == 'ssh-ed448':
        key, wire = [S(b'\x11' * 57)], 'ssh-ed448'
    elif base.startswith('ecdsa-sha2-nistp'):
        n = {'256': 32, '384': 48, '521': 66}[base[-3:]]
        key, wire = [S(base[11:].encode()), S(b'\x04' + b'\x22' * (2 * n))], base
    elif base == 'ssh-dss':
        key, wire = [S(b'\x00' + b'\xd5' * 128), S(b'\x00' + b'\xd5' * 20), S(b'\x05'), S(b'\x00' + b'\xd5' * 128)], 'ssh-dss'
    elif base == 'sk-ssh-ed25519@openssh.com':
        key, wire = [S(b'\x11' * 32), S(b'ssh:')], base
    elif base == 'sk-ecdsa-sha2-nistp256@openssh.com':
        key, wire = [S(b'nistp256'), S(b'\x04' + b'\x22' * 64), S(b'ssh:')], base
    else:
        return None
    if kt.endswith('-cert-v01@openssh.com'):
        ca = S(b'ssh-ed25519') + S(b'\x33' * 32)
        wirecert = (wire if wire != 'ssh-rsa' else 'ssh-rsa') + '-cert-v01@openssh.com'
        return S(wirecert.encode()) + S(b'\x44' * 32) + b''.join(key) + b'\x00' * 8 + struct.pack('>I', 2) + S(b'id') + S(b'') + b'\x00' * 8 + b'\xff' * 8 + S(b'') + S(b'') + S(b'') + S(ca) + S(b'sig')
    return S(wire.encode()) + b''.join(key)


def probe_table_vs_policies():
    """every host-key type of the probe table that a built-in policy requires or permits: probing a WELL-FORMED, good-sized key of that type with the real
    reply parser and the real perform_test must not add a failure to its row (otherwise a policy-conformant server fails the standard audit)."""
    import struct
    t0 = time.time()
    res = _res('probed-host-key-types-of-policies-measure-without-failure')
    MP = H.mods()[1]
    from vf.harness import fresh_process_state
    from props.c09 import FakeSockRW
    from props.c11 import StubSock
    from props.c06 import make_kex
    pol = MP.builtin_policies.BUILTIN_POLICIES
    permitted = sorted({n for p in pol.values() for f in ('host_keys', 'optional_host_keys') for n in (p[f] or [])})
    S = lambda b: struct.pack('>I', len(b)) + b
    for kt in MP.hostkeytest.HostKeyTest.HOST_KEY_TYPES:
        if kt not in permitted:
            continue
        blob = _wellformed_blob(kt)
        res['paths'] += 1
        res['asserts'] += 1
        if blob is None:
            res['status'] = 'inconclusive'
            res['error'] = 'no well-formed key layout known for probed type %s' % kt
            continue
        fresh_process_state(MP)
        OL.fresh_tables(MP)
        out = MP.outputbuffer.OutputBuffer()
        payload = S(blob) + S(b'f') + S(b'sig')

        class Grp(MP.kexdh.KexDH):
            def __init__(self_):
                MP.kexdh.KexDH.__init__(self_, out, 'x', 'sha256', 0, 0)

            def send_init(self_, s, init_msg=30):
                pass

            def recv_reply(self_, s, parse_host_key_size=True):
                return MP.kexdh.KexDH.recv_reply(self_, FakeSockRW([(31, payload)]), parse_host_key_size)
        kex = make_kex(MP, {'key': [kt]})
        try:
            MP.hostkeytest.HostKeyTest.perform_test(out, StubSock(), kex, 'curve25519-sha256', Grp(), MP.hostkeytest.HostKeyTest.HOST_KEY_TYPES)
        except Exception as e:   # noqa
            _viol(res, 'probe-of-policy-permitted-type-crashes', kt, {'type': kt, 'exception': type(e).__name__})
            continue
        row = MP.ssh2_kexdb.SSH2_KexDB.get_db()['key'][kt]
        base = MP.ssh2_kexdb.SSH2_KexDB.MASTER_DB['key'][kt]
        added = (row[1] if len(row) > 1 else [])[len(base[1]) if len(base) > 1 else 0:]
        res['xval'] += 1
        if added:
            _viol(res, 'probe-of-policy-permitted-type-adds-failure', kt, {'type': kt, 'notes': added, 'recorded': {k: v for k, v in kex.host_keys().get(kt, {}).items() if k != 'raw_hostkey_bytes'}})
    res['decisions'] = res['paths']
    res['sample'] = {'inputs': {'types': res['paths']}, 'observation': 'no failure note added by probing a well-formed good-sized key'}
    res['note'] = 'finite exhaustive over HOST_KEY_TYPES x built-in policies, real recv_reply + perform_test on concrete well-formed blobs'
    res['wall_s'] = round(time.time() - t0, 3)
    return res


def tasks(tier):
    return [cross_references, policies_vs_ratings, branded_primitives, row_shapes, policy_peer_has_no_failure, policy_rejects_failed_extra, probe_table_vs_policies]


def harness_by_name(name, params):
    raise KeyError('C17 violations are table facts; re-run the check to reproduce')


META = {
    'functions': ['SSH2_KexDB.MASTER_DB', 'SSH1_KexDB.MASTER_DB', 'BUILTIN_POLICIES', 'HostKeyTest.HOST_KEY_TYPES/RSA_FAMILY', 'DHEat.gex_algs/alg_priority/alg_modulus_sizes',
                  'KEX_TO_DHGROUP / GEX_ALGS (AST-harvested)', 'output() (lift)'],
    'bounds': 'exhaustive over the tables of the current tree (the one property where the bound is the tables as they stand)',
    'outside': ['tables added in the future that are not named here'],
    'stubs': [],
    'assumptions': ['rendered severity == row severity for every row (C03)'],
    'engines': ['TAB+z3'],
}
