"""C15 - output options change presentation only, never findings or verdict."""
import itertools
import zx
from zx import s_and, s_or, s_not, s_implies
from vf.harness import Harness, guarded, Exc
from vf import auditenv as AE
from props import outlib as OL
from props.c03 import sym_row, ROWNAME, expected_notes, notes_equal

PROP = 'C15'
LEVELS = ['info', 'warn', 'fail']
RANK = {'info': 0, 'good': 0, 'warn': 1, 'fail': 2}


def findings(lines):
    """(category, algorithm, severity, note) tuples of a rendering (verbose prints the algorithm name on every line; plain prints it once)"""
    return [(c, h, l, t) for c, h, l, t in OL.parse_alg_lines(lines)]


class TwoRenderings(Harness):
    """one peer (an arbitrary row with symbolic notes + symbolic unknown neighbour) rendered under two symbolic flag vectors:
    same status; same findings at level info; a higher minimum level only removes lines below it."""
    prop, ob = PROP, 'O1'
    width = 64

    def __init__(self, cat, nf, nw, ni):
        self.cat, self.nf, self.nw, self.ni = cat, nf, nw, ni
        self.name = 'tworender-%s-f%d-w%d-i%d' % (cat, nf, nw, ni)

    def params(self):
        return {'cat': self.cat, 'nf': self.nf, 'nw': self.nw, 'ni': self.ni}

    def inputs(self):
        row, notes = sym_row('ossh', self.nf, self.nw, self.ni)
        return {'row': row, 'notes': notes, 'nb': zx.fresh_str('nb', 2, OL.NAMECH), 'b1': zx.fresh_bool('b1'), 'v1': zx.fresh_bool('v1'),
                'b2': zx.fresh_bool('b2'), 'v2': zx.fresh_bool('v2'), 'l2': zx.fresh_int('l2', 0, 2)}

    def run(self, M, inp):
        row = [list(x) for x in inp['row']]
        patch = lambda d2, d1: d2[self.cat].__setitem__(ROWNAME, [list(x) for x in row])
        L = {c: ['x'] for c in OL.CATS}
        L[self.cat] = [ROWNAME, inp['nb']]
        l2 = inp['l2'] if isinstance(inp['l2'], int) else inp['l2'].__index__()
        a = OL.run_output(M, L, batch=bool(inp['b1']), verbose=bool(inp['v1']), level='info', patch=patch)
        b = OL.run_output(M, L, batch=bool(inp['b2']), verbose=bool(inp['v2']), level='info', patch=patch)
        c = OL.run_output(M, L, batch=bool(inp['b1']), verbose=bool(inp['v1']), level=LEVELS[l2], patch=patch)
        for r in (a, b, c):
            if isinstance(r['ret'], Exc):
                return {'exc': r['ret']}
        return {'ra': a['ret'], 'rb': b['ret'], 'rc': c['ret'], 'fa': findings(a['lines']), 'fb': findings(b['lines']),
                'la': list(a['lines']), 'lc': list(c['lines']), 'l2': l2}

    def check(self, inp, obs):
        if 'exc' in obs:
            yield 'no-exception', False
            return
        yield 'same-status-across-batch-verbose', obs['ra'] == obs['rb']
        yield 'same-status-across-levels', obs['ra'] == obs['rc']
        fa, fb = obs['fa'], obs['fb']
        ok = len(fa) == len(fb) and all(x[0] == y[0] and bool(x[1] == y[1]) and x[2] == y[2] and bool(x[3] == y[3]) for x, y in zip(fa, fb))
        yield 'same-findings-across-batch-verbose', ok
        # raising the level only removes lines: lc is a subsequence of la and every removed line is an info/good or warn line below the level
        la, lc = obs['la'], obs['lc']
        i = 0
        sub = True
        for ln in lc:
            while i < len(la) and not bool(la[i] == ln):
                i += 1
            if i >= len(la):
                sub = False
                break
            i += 1
        yield 'higher-level-is-subsequence', sub
        yield 'nothing-at-or-above-level-removed', self._kept(la, lc, obs['l2'])

    @staticmethod
    def _kept(la, lc, l2):
        # count tagged lines at or above the level in both
        def cnt(lines):
            n = 0
            for ln in lines:
                for tag, lv in OL.TAGS:
                    has = (tag in ln) if isinstance(ln, str) else bool(ln.find(tag) >= 0)
                    if has and RANK[lv] >= l2 and l2 > 0:
                        n += 1
            return n
        return cnt(la) == cnt(lc)


class JsonVsText(Harness):
    """the same peer as text and as JSON: same status; for the table-known row the JSON notes equal the text findings; one JSON line."""
    prop, ob = PROP, 'O2'
    width = 64

    def __init__(self, cat, nf, nw, ni, indent):
        self.cat, self.nf, self.nw, self.ni, self.indent = cat, nf, nw, ni, indent
        self.name = 'jsonvstext-%s-f%d-w%d-i%d-%s' % (cat, nf, nw, ni, 'jj' if indent else 'j')

    def params(self):
        return {'cat': self.cat, 'nf': self.nf, 'nw': self.nw, 'ni': self.ni, 'indent': self.indent}

    def inputs(self):
        row, notes = sym_row('ossh', self.nf, self.nw, self.ni)
        return {'row': row, 'notes': notes}

    def run(self, M, inp):
        row = [list(x) for x in inp['row']]
        patch = lambda d2, d1: d2[self.cat].__setitem__(ROWNAME, [list(x) for x in row])
        L = {c: ['x'] for c in OL.CATS}
        L[self.cat] = [ROWNAME]
        t = OL.run_output(M, L, patch=patch)
        j = OL.run_output(M, L, json=True, patch=patch)
        jl = [OL.run_output(M, L, json=True, patch=patch, level=lv) for lv in ('warn', 'fail')]
        if isinstance(t['ret'], Exc) or isinstance(j['ret'], Exc) or any(isinstance(x['ret'], Exc) for x in jl):
            return {'exc': t['ret'] if isinstance(t['ret'], Exc) else j['ret']}
        ft = [(l, x) for c, h, l, x in findings(t['lines']) if c == self.cat]
        return {'rt': t['ret'], 'rj': j['ret'], 'ft': ft, 'jn': j['doc'][self.cat][0]['notes'], 'nlines': len(j['lines']),
                'nlines_by_level': [len(x['lines']) for x in jl], 'ret_by_level': [x['ret'] for x in jl]}

    def check(self, inp, obs):
        if 'exc' in obs:
            yield 'no-exception', False
            return
        yield 'same-status', obs['rt'] == obs['rj'] and all(r == obs['rt'] for r in obs['ret_by_level'])
        yield 'one-json-document', obs['nlines'] == 1
        yield 'json-document-under-every-minimum-level', obs['nlines_by_level'] == [1, 1]
        jn = obs['jn']
        flat = [('fail', x) for x in jn.get('fail', [])] + [('warn', x) for x in jn.get('warn', [])]
        infos = [x for x in jn.get('info', [])]
        ft = obs['ft']
        tfw = [(l, x) for l, x in ft if l in ('fail', 'warn')]
        tin = [x for l, x in ft if l == 'info' and not (isinstance(x, str) and x == '')]
        ok = len(tfw) == len(flat) and all(a[0] == b[0] and bool(a[1] == b[1]) for a, b in zip(tfw, flat))
        yield 'json-fail-warn-notes==text', ok
        # info notes: same multiset (the JSON view appends the 'available since' text last, the text view prints it first)
        ok2 = len(tin) == len(infos) and all(any(bool(a == b) for b in infos) for a in tin)
        yield 'json-info-notes==text', ok2


class JsonVsTextTwoCats(Harness):
    """the SAME name listed in two categories whose rows differ (symbolic notes): per category the JSON notes equal that category's text findings."""
    prop, ob = PROP, 'O2'
    width = 64

    def __init__(self, cat1, cat2):
        self.cat1, self.cat2 = cat1, cat2
        self.name = 'jsonvstext2-%s-%s' % (cat1, cat2)

    def params(self):
        return {'cat1': self.cat1, 'cat2': self.cat2}

    def inputs(self):
        r1, n1 = sym_row('ossh', 1, 1, 0)
        r2, n2 = sym_row('both', 0, 1, 1)
        return {'r1': r1, 'r2': r2}

    def run(self, M, inp):
        def patch(d2, d1):
            d2[self.cat1][ROWNAME] = [list(x) for x in inp['r1']]
            d2[self.cat2][ROWNAME] = [list(x) for x in inp['r2']]
        L = {c: ['x'] for c in OL.CATS}
        L[self.cat1] = [ROWNAME]
        L[self.cat2] = ['y', ROWNAME]
        t = OL.run_output(M, L, patch=patch)
        j = OL.run_output(M, L, json=True, patch=patch)
        if isinstance(t['ret'], Exc) or isinstance(j['ret'], Exc):
            return {'exc': t['ret'] if isinstance(t['ret'], Exc) else j['ret']}
        f = findings(t['lines'])
        out = {'rt': t['ret'], 'rj': j['ret']}
        for c in (self.cat1, self.cat2):
            out['ft-' + c] = [(l, x) for cc, h, l, x in f if cc == c and bool(h == ROWNAME)]
            out['jn-' + c] = [e['notes'] for e in j['doc'][c] if e['algorithm'] == ROWNAME]
        return out

    def check(self, inp, obs):
        if 'exc' in obs:
            yield 'no-exception', False
            return
        yield 'same-status', obs['rt'] == obs['rj']
        for c in (self.cat1, self.cat2):
            jn = obs['jn-' + c]
            if len(jn) != 1:
                yield 'one-json-entry-per-listed-name', False
                continue
            jn = jn[0]
            flat = [('fail', x) for x in jn.get('fail', [])] + [('warn', x) for x in jn.get('warn', [])]
            infos = list(jn.get('info', []))
            ft = obs['ft-' + c]
            tfw = [(l, x) for l, x in ft if l in ('fail', 'warn')]
            tin = [x for l, x in ft if l == 'info' and not (isinstance(x, str) and x == '')]
            yield 'json-fail-warn-notes==text', len(tfw) == len(flat) and all(a[0] == b[0] and bool(a[1] == b[1]) for a, b in zip(tfw, flat))
            yield 'json-info-notes==text', len(tin) == len(infos) and all(any(bool(a == b) for b in infos) for a in tin)


def _stdout_text(sink, buf):
    """everything the run printed, as one str (instrumented run: captured print calls; pristine run: redirected stdout)"""
    text = buf.getvalue()
    for a, k in sink:
        piece = k.get('sep', ' ').join(x if isinstance(x, str) else zx.shims.concretize_str(x) if isinstance(x, zx.SStr) else str(x) for x in a)
        text = text + piece + k.get('end', '\n')
    return text


class MainJsonStdout(Harness):
    """real main() with -j / -jj against a scripted healthy server, under symbolic -v, -b and -l: the whole of stdout is one JSON document; the compact and
    the indented document parse to the same value; the exit status does not depend on the presentation flags."""
    prop, ob = PROP, 'O4'
    width = 64

    def __init__(self, arch):
        self.arch = arch
        self.name = 'mainjson-%s' % arch

    def params(self):
        return {'arch': self.arch}

    def inputs(self):
        return {'verbose': zx.fresh_bool('v'), 'batch': zx.fresh_bool('b'), 'level': zx.fresh_int('l', 0, 2)}

    def one(self, M, inp, jcount):
        import io, contextlib, sys, json as _json
        from props.c18 import StubArgparse
        from props.c09 import BANNER, kexinit_pkt
        lists = {'weak': (['diffie-hellman-group1-sha1', 'curve25519-sha256'], ['ssh-dss', 'ssh-ed25519']), 'clean': (['curve25519-sha256'], ['ssh-ed25519']),
                 'unknown': (['curve25519-sha256', 'zz-unknown-kex'], ['ssh-ed25519']),
                 'proto-1.99': (['curve25519-sha256'], ['ssh-ed25519']),     # a finding of the general section only (SSH-1 enabled)
                 # the probe phases run into errors (connections refused / no banner / reset after the first one): their messages are status lines, too
                 'probes-refused': (['curve25519-sha256', 'diffie-hellman-group-exchange-sha256'], ['ssh-ed25519', 'ssh-rsa']),
                 'probes-no-banner': (['curve25519-sha256', 'diffie-hellman-group-exchange-sha256'], ['ssh-ed25519', 'ssh-rsa']),
                 'probes-reset': (['curve25519-sha256', 'diffie-hellman-group-exchange-sha256'], ['ssh-ed25519', 'ssh-rsa'])}[self.arch]
        pk = kexinit_pkt(*lists)
        if self.arch == 'proto-1.99':
            BANNER = b'SSH-1.99-OpenSSH_8.0\r\n'
        if self.arch == 'probes-refused':
            net = AE.FakeNet([AE.Conn([BANNER, pk])] + [AE.Conn([], refuse=True) for _ in range(20)])
        elif self.arch == 'probes-no-banner':
            net = AE.FakeNet([AE.Conn([BANNER, pk])], default_end='timeout')
        elif self.arch == 'probes-reset':
            net = AE.FakeNet([AE.Conn([BANNER, pk])] + [AE.Conn([BANNER, pk[:9]], 'reset') for _ in range(20)])
        else:
            net = AE.FakeNet([AE.Conn([BANNER, pk])] + [AE.Conn([BANNER, pk], 'close') for _ in range(6)], default_end='close')
        lv = inp['level']
        lv = lv if isinstance(lv, int) else zx.cur().concretize(lv.e)
        vals = {'host': 'target', 'json': jcount, 'verbose': bool(inp['verbose']), 'batch': bool(inp['batch']), 'level': LEVELS[lv], 'skip_rate_test': True}
        OL.fresh_tables(M)      # each run is a new process: the per-thread rating tables start from the master copy
        sink = []
        if zx.active():
            zx.cur().stdout = sink
        buf = io.StringIO()
        old_argv = sys.argv
        sys.argv = ['ssh-audit', 'target']
        try:
            with AE.patched(M.ssh_audit, argparse=StubArgparse(vals)), AE.patched(M.ssh_socket, socket=net), contextlib.redirect_stdout(buf):
                r = guarded(M.ssh_audit.main)
        finally:
            sys.argv = old_argv
        text = _stdout_text(sink, buf)
        try:
            doc = _json.loads(text)
            ok = True
        except ValueError:
            doc, ok = None, False
        return r, ok, doc, text

    def run(self, M, inp):
        r1, ok1, d1, t1 = self.one(M, inp, 1)
        r2, ok2, d2, t2 = self.one(M, inp, 2)
        r0, _, _, _ = self.one(M, inp, 0)        # the text report of the same peer under the same presentation flags
        if isinstance(r1, Exc) or isinstance(r2, Exc) or isinstance(r0, Exc):
            return {'exc': r1 if isinstance(r1, Exc) else (r2 if isinstance(r2, Exc) else r0)}
        return {'r0': r0, 'r1': r1, 'r2': r2, 'ok1': ok1, 'ok2': ok2, 'same': ok1 and ok2 and d1 == d2, 'head1': t1[:40], 'indented': '\n' in t2.strip(), 'compact': '\n' not in t1.strip()}

    def check(self, inp, obs):
        if 'exc' in obs:
            yield 'no-exception', False
            return
        yield 'stdout-is-one-json-document(-j)', obs['ok1']
        yield 'stdout-is-one-json-document(-jj)', obs['ok2']
        if obs['ok1'] and obs['ok2']:
            yield 'compact-and-indented-parse-to-the-same-value', obs['same']
        yield 'same-status', obs['r1'] == obs['r2']
        yield 'same-status-as-the-text-report', obs['r0'] == obs['r1']

    def classify(self, inp, obs, label):
        if label.startswith('stdout-is-one-json-document') and isinstance(obs.get('head1'), str) and obs['head1'].startswith('Starting audit of'):
            return 'verbose-status-line-precedes-the-json-document'
        return label


class VerboseLevels(MainJsonStdout):
    """real main(), text report with -v (status lines printed while the audit runs) at a raised minimum level: what is printed is a subsequence of what is
    printed at level info - raising the level only removes lines, it never adds or alters one (a filtered status line does not leave a blank line behind)."""
    ob = 'O3'

    def __init__(self, arch, level):
        MainJsonStdout.__init__(self, arch)
        self.level = level
        self.name = 'verboselevels-%s-%s' % (arch, level)

    def params(self):
        return {'arch': self.arch, 'level': self.level}

    def inputs(self):
        return {'batch': zx.fresh_bool('b')}

    def run(self, M, inp):
        base = {'verbose': True, 'batch': inp['batch'], 'level': 0}
        r0, _, _, t0 = self.one(M, base, 0)
        r1, _, _, t1 = self.one(M, dict(base, level=LEVELS.index(self.level)), 0)
        if isinstance(r0, Exc) or isinstance(r1, Exc):
            return {'exc': r0 if isinstance(r0, Exc) else r1}
        a, b = t0.split('\n'), t1.split('\n')
        i = 0
        for ln in b:                      # is b a subsequence of a ?
            while i < len(a) and a[i] != ln:
                i += 1
            if i == len(a):
                return {'r0': r0, 'r1': r1, 'subsequence': False, 'first_extra': ln[:60]}
            i += 1
        return {'r0': r0, 'r1': r1, 'subsequence': True, 'first_extra': None}

    def check(self, inp, obs):
        if 'exc' in obs:
            yield 'no-exception', False
            return
        yield 'raised-level-only-removes-lines', obs['subsequence']
        yield 'same-status', obs['r0'] == obs['r1']

    def classify(self, inp, obs, label):
        return label



class PolicyLevels(Harness):
    """policy report (real evaluate_policy) at a raised minimum level: what is shown is a subsequence of the lines shown at level info (no line is altered,
    e.g. by losing its first half), for passing and failing peers and an out-dated built-in policy."""
    prop, ob = PROP, 'O3'
    width = 64

    def __init__(self, level, passing):
        self.level, self.passing = level, passing
        self.name = 'policylevels-%s-%s' % (level, 'pass' if passing else 'fail')

    def params(self):
        return {'level': self.level, 'passing': self.passing}

    def inputs(self):
        return {'outdated': zx.fresh_bool('od'), 'pk': 'kk'}

    def render(self, M, inp, level):
        from props.c06 import make_policy, make_kex
        OL.fresh_tables(M)
        aconf = M.auditconf.AuditConf('host', 22)
        pol = make_policy(M, {'_kex': [inp['pk']] if self.passing else [inp['pk'], 'other']}, False, False)
        pol._updated_builtin_policy_available = bool(inp['outdated'])
        aconf.policy = pol
        out = M.outputbuffer.OutputBuffer()
        out.use_colors = False
        out.level = level
        kex = make_kex(M, {'kex': [inp['pk']]})
        r = guarded(M.ssh_audit.evaluate_policy, out, aconf, M.banner.Banner((2, 0), 'OpenSSH_8.0', None, True), None, kex)
        if isinstance(r, Exc):
            return r, None
        text = out.get_buffer()
        if not isinstance(text, str):
            text = zx.shims.concretize_str(text)
        return r, text.split('\n')

    def run(self, M, inp):
        r0, a = self.render(M, inp, 'info')
        r1, b = self.render(M, inp, self.level)
        if isinstance(r0, Exc) or isinstance(r1, Exc):
            return {'exc': r0 if isinstance(r0, Exc) else r1}
        i = 0
        for ln in b:
            while i < len(a) and a[i] != ln:
                i += 1
            if i == len(a):
                return {'subsequence': False, 'extra': ln[:40], 'same_verdict': r0 == r1}
            i += 1
        return {'subsequence': True, 'extra': None, 'same_verdict': r0 == r1}

    def obs_key(self, obs):
        return {k: v for k, v in obs.items() if k != 'extra'} if isinstance(obs, dict) else obs

    def check(self, inp, obs):
        if 'exc' in obs:
            yield 'no-exception', False
            return
        yield 'raised-level-only-removes-lines', obs['subsequence']
        yield 'same-verdict', obs['same_verdict']



SEED_PEERS = {
    'strict-cbc-dups': {'kex': ['curve25519-sha256', 'kex-strict-s-v00@openssh.com'], 'key': ['ssh-ed25519', 'ssh-rsa'],
                        'enc': ['chacha20-poly1305@openssh.com', 'aes128-cbc', 'aes128-cbc', '3des-cbc', 'aes128-ctr'],
                        'mac': ['hmac-sha1-etm@openssh.com', 'umac-64-etm@openssh.com', 'hmac-sha2-256-etm@openssh.com', 'hmac-sha1-etm@openssh.com']},
    # two mechanisms of the same GSS key-exchange families: one table row stands for several advertised names (the recommendation pass groups them)
    'gss-two-mechanisms': {'kex': ['gss-group1-sha1-toWM5Slw5Ew8Mqkay+al2g==', 'gss-gex-sha1-toWM5Slw5Ew8Mqkay+al2g==', 'gss-group1-sha1-eipGX3TCiQSrx573bT1o1Q==',
                                   'gss-gex-sha1-eipGX3TCiQSrx573bT1o1Q==', 'gss-group1-sha1-aaaaaaaaaaaaaaaaaaaaaa==', 'curve25519-sha256'],
                           'key': ['ssh-ed25519'], 'enc': ['aes128-ctr'], 'mac': ['hmac-sha2-256']},
    'weak-unknowns': {'kex': ['diffie-hellman-group1-sha1', 'zz-unknown-b', 'curve25519-sha256', 'zz-unknown-a'], 'key': ['ssh-dss', 'ssh-ed25519', 'zz-unknown-a'],
                      'enc': ['3des-cbc', 'arcfour', 'zz-unknown-c', 'aes128-ctr'], 'mac': ['hmac-md5', 'hmac-sha2-256', 'hmac-md5']},
}
_NATIVE = """
import sys, json
sys.path.insert(0, sys.argv[1])
from ssh_audit import ssh_audit, auditconf, outputbuffer, banner, ssh2_kex, ssh2_kexparty
L = json.loads(sys.argv[2]); js = sys.argv[3] == '1'
aconf = auditconf.AuditConf('host', 22); aconf.json = js
out = outputbuffer.OutputBuffer(); out.use_colors = False
if js: out.json = True
srv = ssh2_kexparty.SSH2_KexParty(L['enc'], L['mac'], ['none'], [''])
kex = ssh2_kex.SSH2_Kex(out, b'\\x00' * 16, L['kex'], L['key'], srv, srv, False, 0)
r = ssh_audit.output(out, aconf, banner.Banner((2, 0), 'OpenSSH_8.0', None, True), [], None, kex)
print(r); print('\\n'.join(out.buffer + out.section))
"""


class HashSeedOrder(Harness):
    """byte-identity under different hash seeds, decided through a model of what a hash seed can change: the iteration order of sets.  The report of a peer (with
    duplicates, Terrapin notes, unknown names, many recommendations) is rendered once with every set iterated in insertion order and once with every set iteration
    (for loops, comprehensions, list()/tuple()/enumerate()/join over a set) in a solver-chosen order - all orders for sets of up to 4 elements; the two renderings
    must be equal.  A difference is confirmed natively by running the pristine code in subprocesses under several PYTHONHASHSEED values before it is reported."""
    prop, ob = PROP, 'O5'
    width = 64
    SEEDS = (0, 1, 2, 3, 5, 8, 13, 21)

    def __init__(self, peer, json):
        self.peer, self.json = peer, json
        self.name = 'hashseed-%s-%s' % (peer, 'json' if json else 'text')

    def params(self):
        return {'peer': self.peer, 'json': self.json}

    def inputs(self):
        return {}

    def render(self, M, permute):
        if zx.active():
            zx.cur().permute_sets = permute
        try:
            r = OL.run_output(M, SEED_PEERS[self.peer], json=self.json)
        finally:
            if zx.active():
                zx.cur().permute_sets = False
        if isinstance(r['ret'], Exc):
            return r['ret']
        doc = None
        if self.json and r['doc'] is not None:
            import json as _json
            doc = _json.dumps(AE.ConcJson._conc(r['doc']), sort_keys=True)
        return (r['ret'], [ln if isinstance(ln, str) else zx.shims.concretize_str(ln) for ln in r['lines']] if not self.json else doc)

    def run(self, M, inp):
        if M.kind == 'pristine':
            # native counterpart: the unmodified code under several real hash seeds
            import subprocess, json as _json, os
            from vf import harness as H
            outs = set()
            for sd in self.SEEDS:
                env = dict(os.environ, PYTHONHASHSEED=str(sd))
                p = subprocess.run(['/venv/bin/python', '-c', _NATIVE, H.SRC, _json.dumps(SEED_PEERS[self.peer]), '1' if self.json else '0'], capture_output=True, text=True, env=env, timeout=120)
                outs.add(p.stdout + p.stderr[-200:])
            return {'same': len(outs) == 1, 'orders_explored': 0}
        a = self.render(M, False)
        b = self.render(M, True)
        if isinstance(a, Exc) or isinstance(b, Exc):
            return {'exc': a if isinstance(a, Exc) else b}
        return {'same': a == b, 'orders_explored': getattr(zx.cur(), 'set_orders', 0) if zx.active() else 0}

    def obs_key(self, obs):
        # per-path cross-validation does not apply: the native counterpart (several real hash seeds) corresponds to ALL explored orders together; a difference
        # found by the model is confirmed natively by the replay step (which evaluates the oracle on the native observation) before it is reported
        return {}

    def describe(self, inp, obs):
        return {'inputs': {'peer': SEED_PEERS[self.peer]}, 'observation': {'same_report_under_every_order': obs.get('same'), 'set_iterations_permuted': obs.get('orders_explored')}}

    def check(self, inp, obs):
        if 'exc' in obs:
            yield 'no-exception', False
            return
        yield 'report-independent-of-set-iteration-order', obs['same']


class BufferFilter(Harness):
    """OutputBuffer: an arbitrary sequence of <=4 print calls at symbolic levels under a symbolic minimum level and batch flag:
    exactly the calls at or above the level are kept, in order; head()/sep() vanish in batch mode."""
    prop, ob = PROP, 'O3'
    width = 64

    def __init__(self, n):
        self.n = n
        self.name = 'bufferfilter-%d' % n

    def params(self):
        return {'n': self.n}

    def inputs(self):
        return {'kinds': [zx.fresh_int('k%d' % i, 0, 5) for i in range(self.n)], 'level': zx.fresh_int('lvl', 0, 2), 'batch': zx.fresh_bool('batch'),
                'texts': [zx.fresh_str('t%d' % i, 1, ((33, 126),)) for i in range(self.n)], 'section': zx.fresh_bool('section')}

    def run(self, M, inp):
        out = M.outputbuffer.OutputBuffer()
        out.use_colors = False
        lvl = inp['level'] if isinstance(inp['level'], int) else inp['level'].__index__()
        out.level = LEVELS[lvl]
        out.batch = bool(inp['batch'])
        sect = bool(inp['section'])
        kinds = [k if isinstance(k, int) else k.__index__() for k in inp['kinds']]
        fns = [out.info, out.good, out.warn, out.fail, out.head, None]

        def emit():
            for k, t in zip(kinds, inp['texts']):
                if k == 5:
                    out.sep()
                else:
                    fns[k](t)
        if sect:
            with out:
                emit()
            out.flush_section()
        else:
            emit()
        return {'buf': list(out.buffer), 'kinds': kinds, 'level': lvl}

    def check(self, inp, obs):
        kinds, lvl, batch = obs['kinds'], obs['level'], bool(inp['batch'])
        exp = []
        for k, t in zip(kinds, inp['texts']):
            if k in (0, 1):
                r = 0
            elif k == 2:
                r = 1
            elif k == 3:
                r = 2
            elif k == 4:      # head: dropped in batch mode; 'head' is not a level name -> rank sys.maxsize (always shown)
                if batch:
                    continue
                exp.append(t)
                continue
            else:             # sep: an empty info line, dropped in batch mode
                if batch or lvl > 0:
                    continue
                exp.append('')
                continue
            if r >= lvl:
                exp.append(t)
        got = obs['buf']
        yield 'kept==calls-at-or-above-level', len(got) == len(exp) and all(bool(a == b) for a, b in zip(got, exp))


def tasks(tier):
    q = tier == 'quick'
    T = []
    rows = [(0, 0, 0), (1, 0, 0), (0, 1, 0), (0, 0, 1), (1, 1, 1), (2, 1, 0)] if q else list(itertools.product((0, 1, 2), repeat=3))
    for cat in (['kex', 'mac'] if q else OL.CATS):
        for nf, nw, ni in rows:
            T.append(TwoRenderings(cat, nf, nw, ni))
            T.append(JsonVsText(cat, nf, nw, ni, False))
    T.append(JsonVsText('enc', 1, 1, 1, True))
    for c1, c2 in ([('enc', 'mac'), ('kex', 'key')] if q else [('enc', 'mac'), ('mac', 'enc'), ('kex', 'key'), ('key', 'enc'), ('kex', 'mac')]):
        T.append(JsonVsTextTwoCats(c1, c2))
    for arch in ('weak', 'clean', 'unknown', 'proto-1.99', 'probes-refused', 'probes-no-banner', 'probes-reset'):
        T.append(MainJsonStdout(arch))
    for arch in ('weak', 'probes-refused', 'proto-1.99'):
        for lvl in ('warn', 'fail'):
            T.append(VerboseLevels(arch, lvl))
    for lvl in ('warn', 'fail'):
        for passing in (True, False):
            T.append(PolicyLevels(lvl, passing))
    for peer in SEED_PEERS:
        for js in (False, True):
            T.append(HashSeedOrder(peer, js))
    for n in ((1, 2, 3) if q else (1, 2, 3, 4)):
        T.append(BufferFilter(n))
    return T


def harness_by_name(name, params):
    k = name.split(':')[1].split('-')[0]
    p = params
    if k == 'tworender':
        return TwoRenderings(p['cat'], p['nf'], p['nw'], p['ni'])
    if k == 'jsonvstext':
        return JsonVsText(p['cat'], p['nf'], p['nw'], p['ni'], p['indent'])
    if k == 'jsonvstext2':
        return JsonVsTextTwoCats(p['cat1'], p['cat2'])
    if k == 'hashseed':
        return HashSeedOrder(p['peer'], p['json'])
    if k == 'mainjson':
        return MainJsonStdout(p['arch'])
    if k == 'policylevels':
        return PolicyLevels(p['level'], p['passing'])
    if k == 'verboselevels':
        return VerboseLevels(p['arch'], p['level'])
    if k == 'bufferfilter':
        return BufferFilter(p['n'])
    raise KeyError(name)


META = {
    'functions': ['OutputBuffer._print/level/head/sep/flush_section/__enter__/__exit__', 'output()', 'output_algorithm(s)', 'build_struct', 'main() (JSON stdout)', 'post_process_findings'],
    'bounds': {'quick': 'one arbitrary row (0..2 symbolic notes per level) + one symbolic 2-char neighbour in 2 categories, all batch/verbose pairs and all three '
                        'minimum levels symbolic; JSON vs text for the same rows and for one name in two categories; OutputBuffer call sequences of 1..3 calls over 6 call kinds; '
                        'real main() with -j/-jj for 3 peers under symbolic -v/-b/-l; hash seeds: 2 peers (duplicates, Terrapin notes, unknown names) x text/JSON with every '
                        'iteration over a set in every order (sets of <= 4 elements; larger sets: every first element, rest forwards/backwards)',
               'thorough': 'all 27 note-count rows in all 4 categories; sequences of 4 calls'},
    'outside': ['hash seeds: what a seed can change is MODELLED as the iteration order of sets (for loops, comprehensions, list/tuple/enumerate/join over a set); other conceivable channels '
                '(hash() values printed or compared, dict ordering is insertion ordered and not affected, set.pop()) are not modelled; CPython string hashing itself is not modelled',
                'compact vs indented JSON: compared on the concrete documents of each explored path (json library trusted)', 'colour escape codes (use_colors=False in harnesses)'],
    'stubs': ['json.dumps: capturing stub (real json in main()-level and hash-seed harnesses)', 'set iteration order: solver-chosen permutation'],
    'assumptions': ['a difference found by the set-order model is reported only after the pristine code shows it natively under one of 8 PYTHONHASHSEED values'],
}
