"""C04 - Terrapin (CVE-2023-48795) exposure is flagged exactly per the published rule."""
import copy
import itertools
import zx
from zx import s_and, s_or, s_not, s_implies
from vf.harness import Harness, guarded, Exc
from vf import auditenv as AE
from props import outlib as OL

PROP = 'C04'
MS, MC = 'kex-strict-s-v00@openssh.com', 'kex-strict-c-v00@openssh.com'
NOTE = 'vulnerable to the Terrapin attack (CVE-2023-48795), allowing message prefix truncation'
TOK = ((0x61, 0x7A), (0x30, 0x39), (0x2D, 0x2D), (0x40, 0x40))   # a-z 0-9 - @  (shape-relevant characters)

# cipher / MAC name constructors: (kind, literal or (prefix, ntok, suffix))
ENC_FORMS = {
    'chacha-db': 'chacha20-poly1305@openssh.com', 'chacha-tok': ('chacha20-poly1305', 1, ''), 'cbc-db': 'aes128-cbc', 'cbc-db2': '3des-cbc',
    'cbc-tok': ('', 1, '-cbc'), 'cbcorg-tok': ('', 1, '-cbc@openssh.org'), 'cbcssh-db': 'aes128-cbc@ssh.com', 'rijndael': 'rijndael-cbc@lysator.liu.se',
    'ctr-db': 'aes128-ctr', 'gcm-db': 'aes256-gcm@openssh.com', 'free-tok': ('', 2, ''), 'nearcbc-tok': ('', 1, 'cbc'), 'nearchacha-tok': ('chacha20-poly130', 1, ''),
}
MAC_FORMS = {
    'etm-db': 'hmac-sha2-256-etm@openssh.com', 'etm-db2': 'umac-128-etm@openssh.com', 'etm-tok': ('', 1, '-etm@openssh.com'), 'plain-db': 'hmac-sha2-256',
    'free-tok': ('', 2, ''), 'nearetm-tok': ('', 1, 'etm@openssh.com'),
}


def build(forms, kinds, pfx):
    out = []
    for i, k in enumerate(kinds):
        f = forms[k]
        if isinstance(f, str):
            out.append(f)
        else:
            out.append(f[0] + zx.fresh_str('%s%d' % (pfx, i), f[1], TOK) + f[2])
    return out


def is_chacha(n):
    return n.startswith('chacha20-poly1305')


def is_cbc(n):
    return s_or(n.endswith('-cbc'), n.endswith('-cbc@openssh.org'), n.endswith('-cbc@ssh.com'), n == 'rijndael-cbc@lysator.liu.se', n == 'des-cbc-ssh1')


def is_etm(n):
    return n.endswith('-etm@openssh.com')


class Rule(Harness):
    prop, ob = PROP, 'O1'
    width = 64

    def __init__(self, client, markers, enc, mac):
        self.client, self.markers, self.enc, self.mac = client, markers, tuple(enc), tuple(mac)
        self.name = 'rule-%s-m(%s)-enc(%s)-mac(%s)' % ('client' if client else 'server', markers or 'none', ','.join(enc), ','.join(mac))

    def params(self):
        return {'client': self.client, 'markers': self.markers, 'enc': list(self.enc), 'mac': list(self.mac)}

    def inputs(self):
        if self.enc == ('ALL',):
            # the whole table at once: every cipher and MAC name the table knows, plus one arbitrary unknown cipher (a row edited through an alias of
            # another row, or an edit that leaks to a row of another name, shows as a changed row outside the rule's set)
            from vf.harness import mods
            master = mods()[1].ssh2_kexdb.SSH2_KexDB.MASTER_DB
            return {'enc': list(master['enc']) + [zx.fresh_str('e0', 2, TOK)], 'mac': list(master['mac'])}
        return {'enc': build(ENC_FORMS, self.enc, 'e'), 'mac': build(MAC_FORMS, self.mac, 'm')}

    def run(self, M, inp):
        db, _ = OL.fresh_tables(M)
        before = copy.deepcopy(M.ssh2_kexdb.SSH2_KexDB.MASTER_DB)
        kexl = ['curve25519-sha256'] + ([MS] if 's' in self.markers else []) + ([MC] if 'c' in self.markers else [])
        out = M.outputbuffer.OutputBuffer()
        # the lists the tool reports, rates and evaluates are the server-to-client ones, for servers and clients alike (C01); the Terrapin marks must follow
        # the lists that are shown.  The client-to-server direction holds neutral decoys, so a consumer of the wrong direction marks nothing.
        own_e, own_m = list(inp['enc']) or [''], list(inp['mac']) or ['']
        cli = M.ssh2_kexparty.SSH2_KexParty(['aes128-ctr'], ['hmac-sha2-256'], ['none'], [''])
        srv = M.ssh2_kexparty.SSH2_KexParty(own_e, own_m, ['none'], [''])
        kex = M.ssh2_kex.SSH2_Kex(out, b'\x00' * 16, kexl, ['ssh-ed25519'], cli, srv, False, 0)
        algs = M.algorithms.Algorithms(None, kex)
        banner = M.banner.Banner((2, 0), 'OpenSSH_9.0', None, True)
        r = guarded(M.ssh_audit.post_process_findings, banner, algs, self.client, '')
        if isinstance(r, Exc):
            return {'exc': r}
        sup, notes = r
        # table diff against the pristine master table
        changed = []
        for cat in db:
            for name, row in db[cat].items():
                if name not in before[cat] or row != before[cat][name]:
                    extra = None
                    if name in before[cat]:
                        b = before[cat][name]
                        bw = b[2] if len(b) > 2 else []
                        if row[0] == b[0] and (row[1] if len(row) > 1 else []) == (b[1] if len(b) > 1 else []) and len(row) >= 3 and row[2][:len(bw)] == bw \
                                and row[3:] == b[3:]:
                            extra = row[2][len(bw):]
                    changed.append((cat, name, extra))
        return {'sup': list(sup), 'notes': list(notes), 'changed': changed}

    def vulnerable(self, inp):
        """independent published rule -> list of (category, name, condition that the name is vulnerable)"""
        enc, mac = inp['enc'], inp['mac']
        any_cbc = s_or(*[is_cbc(n) for n in enc]) if enc else False
        any_etm = s_or(*[is_etm(n) for n in mac]) if mac else False
        v = []
        for n in enc:
            v.append(('enc', n, s_or(is_chacha(n), s_and(is_cbc(n), any_etm))))
        for n in mac:
            v.append(('mac', n, s_and(is_etm(n), any_cbc)))
        return v

    def check(self, inp, obs):
        if 'exc' in obs:
            yield 'no-exception', False
            return
        from vf.harness import mods
        master = mods()[1].ssh2_kexdb.SSH2_KexDB.MASTER_DB
        marker = ('c' in self.markers) if self.client else ('s' in self.markers)
        vul = self.vulnerable(inp)
        changed = obs['changed']
        if marker:
            yield 'marker-present:no-row-changed', changed == []
            names = [n for _, n, c in vul if bool(c)]
            # advisory note names exactly the vulnerable-if-unpatched-peer algorithms, order: chacha, cbc, etm
            ordered = [n for c_, n, c in vul if c_ == 'enc' and bool(c) and bool(is_chacha(n))] + \
                      [n for c_, n, c in vul if c_ == 'enc' and bool(c) and not bool(is_chacha(n))] + [n for c_, n, c in vul if c_ == 'mac' and bool(c)]
            uniq = []
            for n in ordered:          # a name listed twice is named once
                if not any(bool(n == u) for u in uniq):
                    uniq.append(n)
            ordered = uniq
            adv = [x for x in obs['notes'] if (isinstance(x, str) and 'Terrapin' in x) or (not isinstance(x, str) and bool(x.find('Terrapin') >= 0))]
            if not names:
                yield 'marker-present:no-advisory-when-nothing-to-name', adv == []
            else:
                ok = len(adv) == 1
                if ok:
                    lst = zx.shims.zx_join(', ', ordered)
                    ok = bool(adv[0].find('channels with this target: ' + lst + '.  If any CBC') >= 0)
                yield 'marker-present:advisory-names-exactly-the-algorithms', ok
        else:
            yield 'no-advisory-without-marker', not any((isinstance(x, str) and 'Terrapin' in x) or (not isinstance(x, str) and bool(x.find('Terrapin') >= 0)) for x in obs['notes'])
            # exactly the vulnerable table-known names got exactly one Terrapin warning; nothing else changed
            want = set()
            unknown_vul = []
            for cat, n, c in vul:
                if bool(c):
                    known = None
                    for k in master[cat]:
                        if bool(n == k):
                            known = k
                    if known is not None:
                        want.add((cat, known))
                    else:
                        unknown_vul.append(n)
            got_ok = all(ex == [NOTE] * max(1, len(ex or [])) and ex is not None for _, _, ex in changed)
            yield 'warning-appended-well-formed', got_ok
            yield 'exactly-the-vulnerable-algorithms-marked', set((c, n) for c, n, _ in changed) == want
            dup = [ex for _, _, ex in changed if ex is not None and len(ex) != 1]
            # a name the peer lists twice is still one algorithm: it carries the warning once
            yield 'marked-once', dup == []
            yield 'unknown-names-of-vulnerable-shape-also-carry-the-warning', unknown_vul == []
        # suppression: every table name of the three classes that is not advertised is suppressed (never recommended for addition)
        sup = obs['sup']
        adv_e, adv_m = inp['enc'], inp['mac']
        miss = []
        for k in master['enc']:
            if (k.startswith('chacha20-poly1305') or k.endswith('-cbc') or k.endswith('-cbc@openssh.org') or k.endswith('-cbc@ssh.com') or k == 'rijndael-cbc@lysator.liu.se'):
                if not any(bool(a == k) for a in adv_e) and k not in sup:
                    miss.append(k)
        for k in master['mac']:
            if k.endswith('-etm@openssh.com') and not any(bool(a == k) for a in adv_m) and k not in sup:
                miss.append(k)
        yield 'disabled-class-members-suppressed', miss == []

    def classify(self, inp, obs, label):
        if 'exc' in obs and obs['exc'].type == 'KeyError':
            return 'KeyError-for-unknown-name-of-vulnerable-shape'
        return label


class Rendering(Harness):
    """whole report: the Terrapin note appears on exactly the vulnerable names in text and JSON, and suppressed names are never recommended for addition."""
    prop, ob = PROP, 'O2'
    width = 64

    def __init__(self, enc, mac, marker, client=False):
        self.enc, self.mac, self.marker, self.client = tuple(enc), tuple(mac), marker, client
        self.name = 'render-enc(%s)-mac(%s)-%s%s' % (','.join(enc), ','.join(mac), 'marker' if marker else 'nomarker', '-client' if client else '')

    def params(self):
        return {'enc': list(self.enc), 'mac': list(self.mac), 'marker': self.marker, 'client': self.client}

    def inputs(self):
        return {'enc': build(ENC_FORMS, self.enc, 'e'), 'mac': build(MAC_FORMS, self.mac, 'm')}

    def run(self, M, inp):
        # the lists the report shows are the harness's lists; the other direction carries decoys (no ChaCha20 / CBC / EtM name), also in client audits
        L = {'kex': ['curve25519-sha256'] + ([MC if self.client else MS] if self.marker else []), 'key': ['ssh-ed25519'], 'enc': list(inp['enc']), 'mac': list(inp['mac'])}
        t = OL.run_output(M, L, client=self.client)
        j = OL.run_output(M, L, json=True, client=self.client)
        if isinstance(t['ret'], Exc) or isinstance(j['ret'], Exc):
            return {'exc': t['ret'] if isinstance(t['ret'], Exc) else j['ret']}
        parsed = OL.parse_alg_lines(t['lines'])
        tn = [(c, h) for c, h, l, x in parsed if isinstance(x, str) and x == NOTE]
        jn = [(c, e['algorithm']) for c in ('enc', 'mac') for e in j['doc'][c] if NOTE in e['notes'].get('warn', [])]
        rec = j['doc']['recommendations']
        adds = [(c, e['name']) for lvl in rec for act in rec[lvl] if act == 'add' for c in rec[lvl][act] for e in rec[lvl][act][c]]
        return {'text': tn, 'json': jn, 'adds': adds}

    def check(self, inp, obs):
        if 'exc' in obs:
            yield 'no-exception', False
            return
        from vf.harness import mods
        master = mods()[1].ssh2_kexdb.SSH2_KexDB.MASTER_DB
        r = Rule(self.client, ('c' if self.client else 's') if self.marker else '', self.enc, self.mac)
        vul = [(c, n) for c, n, cond in r.vulnerable(inp) if bool(cond) and not self.marker and any(bool(n == k) for k in master[c])]
        same = lambda a, b: len(a) == len(b) and all(x[0] == y[0] and bool(x[1] == y[1]) for x, y in zip(a, b))
        yield 'text-note-on-exactly-the-vulnerable', same(obs['text'], vul)
        yield 'json-note-on-exactly-the-vulnerable', same(obs['json'], vul)
        bad = [a for a in obs['adds'] if a[0] == 'enc' and (a[1].startswith('chacha20-poly1305') or '-cbc' in a[1])] + \
              [a for a in obs['adds'] if a[0] == 'mac' and a[1].endswith('-etm@openssh.com')]
        yield 'disabled-class-members-never-recommended', bad == []


class Advisory(Harness):
    """whole report of a peer that advertises its role's marker and still offers vulnerable-class algorithms: the advisory note is shown in the text report and in
    the JSON document and names exactly those algorithms - also when the peer has no other finding at all (post-quantum key exchange, Ed25519 key)."""
    prop, ob = PROP, 'O2'
    width = 64
    NOTE_HEAD = '(nfo) Be aware that, while this target properly supports the strict key exchange method'

    def __init__(self, flawless, client):
        self.flawless, self.client = flawless, client
        self.name = 'advisory-%s-%s' % ('flawless' if flawless else 'typical', 'client' if client else 'server')

    def params(self):
        return {'flawless': self.flawless, 'client': self.client}

    def inputs(self):
        return {}

    def run(self, M, inp):
        kex = ['mlkem768x25519-sha256', 'sntrup761x25519-sha512@openssh.com'] if self.flawless else ['curve25519-sha256', 'diffie-hellman-group14-sha256']
        L = {'kex': kex + [MC if self.client else MS], 'key': ['ssh-ed25519'], 'enc': ['chacha20-poly1305@openssh.com', 'aes256-gcm@openssh.com'], 'mac': ['hmac-sha2-256-etm@openssh.com']}
        t = OL.run_output(M, L, client=self.client, sw='OpenSSH_9.9')
        j = OL.run_output(M, L, json=True, client=self.client, sw='OpenSSH_9.9')
        if isinstance(t['ret'], Exc) or isinstance(j['ret'], Exc):
            return {'exc': t['ret'] if isinstance(t['ret'], Exc) else j['ret']}
        notes = [ln for ln in t['lines'] if OL._starts(ln, self.NOTE_HEAD)]
        recs = [ln for ln in t['lines'] if OL._starts(ln, '(rec) -') or OL._starts(ln, '(rec) !')]      # removals / changes: the report's notion of "problems"
        return {'text_notes': notes, 'json_notes': [n for n in j['doc']['additional_notes'] if 'strict key exchange' in n], 'nrec': len(recs), 'ret': t['ret']}

    def check(self, inp, obs):
        if 'exc' in obs:
            yield 'no-exception', False
            return
        if self.flawless:
            yield 'peer-has-no-other-finding(reachability)', obs['nrec'] == 0
        names = 'chacha20-poly1305@openssh.com.'
        yield 'advisory-in-text-names-exactly-the-algorithms', len(obs['text_notes']) == 1 and ('create vulnerable SSH channels with this target: ' + names) in obs['text_notes'][0]
        yield 'advisory-in-json-names-exactly-the-algorithms', len(obs['json_notes']) == 1 and ('create vulnerable SSH channels with this target: ' + names) in obs['json_notes'][0]


def tasks(tier):
    q = tier == 'quick'
    T = []
    encs = [(), ('ctr-db',), ('chacha-db',), ('chacha-tok',), ('cbc-db',), ('cbc-tok',), ('cbcorg-tok',), ('cbcssh-db',), ('rijndael',), ('free-tok',), ('nearcbc-tok',),
            ('nearchacha-tok',), ('chacha-db', 'cbc-db'), ('cbc-db', 'cbc-db2', 'ctr-db'), ('gcm-db', 'free-tok'), ('chacha-db', 'ctr-db', 'chacha-db'), ('cbc-db', 'cbc-db')]
    macs = [(), ('plain-db',), ('etm-db',), ('etm-tok',), ('nearetm-tok',), ('free-tok',), ('etm-db', 'etm-db2'), ('etm-db', 'plain-db'), ('etm-db', 'etm-db')]
    combos = list(itertools.product(encs, macs))
    if q:
        keep = []
        for e, m in combos:
            if len(e) <= 1 and len(m) <= 1:
                keep.append((e, m))
            elif (e, m) in ((('chacha-db', 'cbc-db'), ('etm-db', 'plain-db')), (('cbc-db', 'cbc-db2', 'ctr-db'), ('etm-db', 'etm-db2')), (('gcm-db', 'free-tok'), ('etm-db',)),
                            (('chacha-db', 'ctr-db', 'chacha-db'), ('plain-db',)), (('cbc-db', 'cbc-db'), ('etm-db', 'etm-db'))):
                keep.append((e, m))
        combos = keep
    for e, m in combos:
        for client in (False, True):
            for markers in ('', 's', 'c', 'sc'):
                if q and markers == 'sc':
                    continue
                if q and client and (len(e) > 1 or len(m) > 1):
                    continue
                T.append(Rule(client, markers, e, m))
    for client in (False, True):
        for markers in ('', 's', 'c'):
            T.append(Rule(client, markers, ('ALL',), ('ALL',)))
    for e, m in [(('chacha-db',), ('plain-db',)), (('cbc-db',), ('etm-db',)), (('cbc-db',), ('plain-db',)), (('ctr-db',), ('etm-db',)), (('cbc-db', 'ctr-db'), ('etm-db', 'plain-db')),
                 (('free-tok',), ('etm-db',)), (('cbc-db',), ('free-tok',))]:
        for marker in (False, True):
            T.append(Rendering(e, m, marker))
            T.append(Rendering(e, m, marker, True))
    for flawless in (True, False):
        for client in (False, True):
            T.append(Advisory(flawless, client))
    return T


def harness_by_name(name, params):
    k = name.split(':')[1].split('-')[0]
    p = params
    if k == 'rule':
        return Rule(p['client'], p['markers'], p['enc'], p['mac'])
    if k == 'advisory':
        return Advisory(p['flawless'], p['client'])
    if k == 'render':
        return Rendering(p['enc'], p['mac'], p['marker'], p.get('client', False))
    raise KeyError(name)


META = {
    'functions': ['post_process_findings (incl. nested _add_terrapin_warning, _get_*_enabled, _get_*_not_enabled)', 'output()', 'build_struct', 'get_algorithm_recommendations'],
    'bounds': {'quick': 'role x strict-kex marker (none/server/client) x cipher list from 15 forms x MAC list from 8 forms (<=1 name each plus 3 mixed lists); '
                        'names of vulnerable shape instantiated with table names and with symbolic tokens over [a-z0-9-@] incl. near-miss shapes (xcbc, chacha20-poly130x, '
                        'xetm@openssh.com); decoy lists on the other direction',
               'thorough': 'all 15x8 list combinations, both markers at once'},
    'outside': ['duplicate names inside one list (the note is appended once per occurrence)'],
    'stubs': ['json.dumps: capturing stub'],
    'assumptions': [],
}
