"""C16 - identification strings are recognised, decomposed and sanitised correctly."""
import zx
from zx import s_and, s_or, s_not, s_implies, s_ite
from vf.harness import Harness, guarded, Exc
from vf import stubs

PROP = 'C16'
NOSPACE = ((33, 126),)
PRINT = ((32, 126),)
PROTOS = [('1.3', (1, 3)), ('1.5', (1, 5)), ('1.99', (1, 99)), ('2.0', (2, 0)), ('2.1', (2, 1)), ('9.9', (9, 9)), ('1.0123', (1, 123))]
MULTI = [('2.0-SSH-1.99', (1, 99)), ('1.5-SSH-2.0', (1, 5)), ('1.99-SSH-2.0-SSH-1.3', (1, 3))]


def norm_comments(cm):
    """independent oracle: strip, collapse runs of blanks, None if empty"""
    parts = [p for p in cm.split(' ') if not (p == '')] if not isinstance(cm, str) else [p for p in cm.split(' ') if p]
    if not parts:
        return None
    r = parts[0]
    for p in parts[1:]:
        r = r + ' ' + p
    return r


def banner_parts(b):
    if b is None or isinstance(b, Exc):
        return b
    return {'protocol': list(b.protocol), 'software': b.software, 'comments': b.comments, 'valid_ascii': b.valid_ascii}


def s_eq_opt(a, b):
    """equality of Optional[str] values that may be symbolic"""
    if a is None or b is None:
        return a is None and b is None
    return a == b


class Accept(Harness):
    """'SSH-'+proto+'-'+sw[+' '+cm] is accepted, parts recovered, str() round trip stable."""
    prop, ob = PROP, 'O1'
    width = 64

    def __init__(self, proto, expect, nsw, ncm, sep=' '):
        self.proto, self.expect, self.nsw, self.ncm, self.sep = proto, tuple(expect), nsw, ncm, sep
        self.name = 'accept-%s-sw%d-cm%s-sep%d' % (proto, nsw, ncm, len(sep))

    def params(self):
        return {'proto': self.proto, 'expect': list(self.expect), 'nsw': self.nsw, 'ncm': self.ncm, 'sep': self.sep}

    def inputs(self):
        sw = zx.fresh_str('sw', self.nsw, NOSPACE)
        if self.nsw >= 4:
            zx.cur().assume(s_not(sw.startswith('SSH-')))
        d = {'sw': sw}
        if self.ncm is not None:
            d['cm'] = zx.fresh_str('cm', self.ncm, PRINT)
        return d

    def line(self, inp):
        s = 'SSH-' + self.proto + '-' + inp['sw']
        if self.ncm is not None:
            s = s + self.sep + inp['cm']
        return s

    def run(self, M, inp):
        B = M.banner.Banner
        b = guarded(B.parse, self.line(inp))
        if b is None or isinstance(b, Exc):
            return {'b': b}
        s2 = guarded(b.__str__)
        b2 = guarded(B.parse, s2) if not isinstance(s2, Exc) else s2
        return {'b': banner_parts(b), 'str': s2, 'b2': banner_parts(b2)}

    def check(self, inp, obs):
        b = obs['b']
        if isinstance(b, Exc):
            yield 'no-exception', False
            return
        yield 'accepted', b is not None
        if b is None:
            return
        yield 'protocol', b['protocol'] == list(self.expect)
        yield 'valid-ascii', b['valid_ascii'] is True or b['valid_ascii'] == True  # noqa: E712
        cm = norm_comments(inp['cm']) if self.ncm is not None else None
        if self.nsw > 0:
            yield 'software', s_eq_opt(b['software'], inp['sw'])
            yield 'comments', s_eq_opt(b['comments'], cm)
        elif cm is None:
            yield 'software-empty', s_eq_opt(b['software'], '')
        b2 = obs['b2']
        ok2 = b2 is not None and not isinstance(b2, Exc)
        yield 'roundtrip-accepted', ok2
        if ok2:
            yield 'roundtrip-parts', s_and(b2['protocol'] == b['protocol'], s_eq_opt(b2['software'], b['software']),
                                           s_eq_opt(b2['comments'], b['comments']))


class Total(Harness):
    """Banner.parse is total on arbitrary code points; valid_ascii false iff a char outside 32..126; rendering is printable."""
    prop, ob = PROP, 'O2'
    width = 64

    def __init__(self, prefix, n):
        self.prefix, self.n = prefix, n
        self.name = 'total-%s-%d' % (prefix.replace(' ', '_') or 'none', n)

    def params(self):
        return {'prefix': self.prefix, 'n': self.n}

    def inputs(self):
        return {'s': zx.fresh_str('s', self.n)}

    def run(self, M, inp):
        line = self.prefix + inp['s']
        b = guarded(M.banner.Banner.parse, line)
        if b is None or isinstance(b, Exc):
            return {'b': b}
        return {'b': banner_parts(b), 'str': guarded(b.__str__)}

    def check(self, inp, obs):
        b = obs['b']
        yield 'no-exception', not isinstance(b, Exc)
        if b is None or isinstance(b, Exc):
            return
        s = inp['s']
        allp = True
        els = zx.to_els(s)
        import z3
        for c in els:
            allp = s_and(allp, (32 <= c <= 126) if isinstance(c, int) else zx.mkbool(z3.And(z3.UGE(c, 32), z3.ULE(c, 126))))
        yield 'valid-ascii-flag', b['valid_ascii'] == allp
        if self.prefix == 'SSH-2.0-':
            # parts of the sanitised line: software = up to the first blank, comments = the rest (blank runs collapsed)
            san = zx.mkstr([c if isinstance(c, int) and 32 <= c <= 126 else (63 if isinstance(c, int) else z3.If(z3.And(z3.UGE(c, 32), z3.ULE(c, 126)), c, z3.BitVecVal(63, 24))) for c in els])
            pieces = san.split(' ') if not isinstance(san, str) else san.split(' ')
            if not bool(pieces[0] == ''):
                rest = [p_ for p_ in pieces[1:] if not bool(p_ == '')]
                cm = None
                if rest:
                    cm = rest[0]
                    for p_ in rest[1:]:
                        cm = cm + ' ' + p_
                yield 'parts-of-the-sanitised-line', s_and(s_eq_opt(b['software'], pieces[0]), s_eq_opt(b['comments'], cm), b['protocol'] == [2, 0])
        r = obs['str']
        yield 'str-no-exception', not isinstance(r, Exc)
        if not isinstance(r, Exc):
            pr = True
            for c in zx.to_els(r):
                pr = s_and(pr, (32 <= c <= 126) if isinstance(c, int) else zx.mkbool(z3.And(z3.UGE(c, 32), z3.ULE(c, 126))))
            yield 'rendered-printable', pr


class Header(Harness):
    """get_banner: header lines are exactly the non-blank lines before the first banner line; the banner is found after them."""
    prop, ob = PROP, 'O3'
    width = 64

    def __init__(self, hlens, eol, split, dom='any'):
        self.hlens, self.eol, self.split, self.dom = tuple(hlens), eol, split, dom
        self.name = 'header-%s-%s-split%s-%s' % ('x'.join(map(str, hlens)) or 'none', 'crlf' if eol == '\r\n' else 'lf', split, dom)
        self.cost = 10 ** sum(hlens) if dom == 'any' else 1

    def params(self):
        return {'hlens': list(self.hlens), 'eol': self.eol, 'split': self.split, 'dom': self.dom}

    def inputs(self):
        hs = []
        for i, n in enumerate(self.hlens):
            if self.dom == 'any':
                hs.append(zx.fresh_bytes('h%d' % i, n))
            else:
                t = zx.fresh_str('h%d' % i, n, PRINT)
                hs.append(t.encode('ascii') if not isinstance(t, str) else t.encode())
        return {'h': hs, 'sw': zx.fresh_str('sw', 2, NOSPACE)}

    def classify(self, inp, obs, label):
        if self.split is not None and label in ('header-lines', 'banner-found', 'banner-parts'):
            hb = sum(len(h) + len(self.eol) for h in inp['h'])
            total = hb + 8 + len(inp['sw']) + len(self.eol)
            if hb < self.split < total - len(self.eol) + 1 and obs.get('b') is None:
                return 'banner-line-split-across-tcp-segments'
            # a split strictly inside a header line (not at its end)
            pos = 0
            for h in inp['h']:
                if pos < self.split < pos + len(h):
                    return 'header-line-split-across-tcp-segments'
                pos += len(h) + len(self.eol)
        return label

    def run(self, M, inp):
        eol = self.eol.encode()
        data = b''
        for h in inp['h']:
            data = data + h + eol
        sw = inp['sw']
        data = data + b'SSH-2.0-' + (sw.encode('ascii') if not isinstance(sw, bytes) else sw) + eol
        if self.split is None:
            chunks = [data]
        else:
            k = min(self.split, len(data))
            chunks = [data[:k], data[k:]] if 0 < k < len(data) else [data]
        s, ss, out = stubs.ssh_socket(M, chunks, end='timeout')
        r = guarded(s.get_banner)
        if isinstance(r, Exc):
            return {'r': r}
        b, hdr, err = r
        return {'b': banner_parts(b), 'hdr': list(hdr), 'err': err, 'recv': ss.recv_calls}

    def check(self, inp, obs):
        if 'r' in obs:
            yield 'no-exception', False
            return
        b = obs['b']
        # header bytes containing a newline change the line structure: excluded by the oracle's precondition
        import z3
        pre = True
        for h in inp['h']:
            for c in zx.to_els(h):
                pre = s_and(pre, s_not(c == 10) if isinstance(c, int) else zx.mkbool(c != 10))
        exp = []
        for h in inp['h']:
            t = h.rstrip().decode('utf-8', 'replace') if not isinstance(h, bytes) else h.rstrip().decode('utf-8', 'replace')
            exp.append(t)
        # non-blank lines only (a header line of <= 3 bytes cannot itself be a banner)
        conds = []
        got = obs['hdr']
        # build expected list by filtering blank lines (forks in the oracle on symbolic blanks)
        explist = [t for t in exp if not (len(t.strip()) == 0)]
        ok = len(got) == len(explist)
        if ok:
            for a, e in zip(got, explist):
                conds.append(a == e)
        yield 'header-lines', s_implies(pre, s_and(ok, *conds))
        yield 'banner-found', s_implies(pre, s_and(b is not None, obs['err'] is None))
        if b is not None:
            yield 'banner-parts', s_implies(pre, s_and(b['protocol'] == [2, 0], s_eq_opt(b['software'], inp['sw'])))


FAMILIES = [
    ('OpenSSH_', 'OpenSSH', None), ('OpenSSH-', 'OpenSSH', None), ('dropbear_', 'Dropbear SSH', None), ('libssh-', 'libssh', None),
    ('libssh_', 'libssh', None), ('RomSShell_', 'RomSShell', 'Allegro Software'), ('mpSSH_', 'iLO (Integrated Lights-Out) sshd', 'HP'),
    ('Cisco-', 'IOS/PIX sshd', 'Cisco'),
]
FREEFORM = [('tinyssh_', 'TinySSH'), ('PuTTY_Release_', 'PuTTY'), ('lancom', 'LCOS sshd')]
DIG = ((48, 57),)


class HeaderSanitised(Harness):
    """real output() with a pre-banner header line that contains one ARBITRARY character (control characters, escape, DEL, non-ASCII): what the report shows
    for the header consists of printable ASCII only (as for the banner), and the rest of the line is shown as sent."""
    prop, ob = PROP, 'O2'
    width = 64

    def __init__(self, json):
        self.json = json
        self.name = 'headersanitised-%s' % ('json' if json else 'text')

    def params(self):
        return {'json': self.json}

    def inputs(self):
        c = zx.fresh_str('c', 1, ((0x01, 0x09), (0x0B, 0x0C), (0x0E, 0xFFFF)))       # anything but NUL, LF, CR (line structure)
        return {'c': c}

    def run(self, M, inp):
        from props import outlib as OL
        hdr = 'ab' + inp['c'] + 'cd'
        r = OL.run_output(M, {c: ['x'] for c in OL.CATS}, header=[hdr], json=self.json)
        if isinstance(r['ret'], Exc):
            return {'exc': r['ret']}
        if self.json:
            return {'skip': True}
        lines = [ln for ln in r['lines'] if OL._starts(ln, '(gen) header: ')]
        return {'shown': lines[0][len('(gen) header: '):] if len(lines) == 1 else None, 'n': len(lines)}

    def check(self, inp, obs):
        if 'exc' in obs:
            yield 'no-exception', False
            return
        if 'skip' in obs:
            return
        yield 'one-header-line', obs['n'] == 1
        if obs['n'] != 1:
            return
        sh = obs['shown']
        c = zx.shims.z_ord(inp['c'])
        printable = s_and(c >= 32, c <= 126)
        yield 'printable-character-shown-as-sent', s_implies(printable, sh == 'ab' + inp['c'] + 'cd')
        ok = len(sh) == 5
        if ok:
            m = zx.shims.z_ord(sh[2])
            ok = s_and(sh[:2] == 'ab', sh[3:] == 'cd', m >= 32, m <= 126)
        yield 'header-shown-in-printable-ascii-only', s_implies(s_not(printable), ok)


class FlagLine(Harness):
    """real Banner.parse + real output(): an identification line with one arbitrary character in its software part, for protocol 2.0, 1.99 and 1.5: the report
    carries the line '(gen) banner contains non-printable ASCII' exactly when the character is outside printable ASCII, whatever the protocol version."""
    prop, ob = PROP, 'O2'
    width = 64

    def __init__(self, proto):
        self.proto = proto
        self.name = 'flagline-%s' % proto

    def params(self):
        return {'proto': self.proto}

    def inputs(self):
        return {'c': zx.fresh_str('c', 1, ((0x01, 0x09), (0x0B, 0x0C), (0x0E, 0x1F), (0x21, 0xFFFF)))}      # not NUL / LF / CR / space (line and field structure)

    def run(self, M, inp):
        from props import outlib as OL
        line = 'SSH-' + self.proto + '-ab' + inp['c'] + 'cd'
        b = guarded(M.banner.Banner.parse, line)
        if isinstance(b, Exc) or b is None:
            return {'exc': b if isinstance(b, Exc) else Exc('NoBanner', 'not accepted')}
        OL.fresh_tables(M)
        aconf = M.auditconf.AuditConf('h', 22)
        out = M.outputbuffer.OutputBuffer()
        out.use_colors = False
        from props.c06 import make_kex
        r = guarded(M.ssh_audit.output, out, aconf, b, [], None, make_kex(M, {c: ['x'] for c in OL.CATS}))
        if isinstance(r, Exc):
            return {'exc': r}
        lines = list(out.buffer) + list(out.section)
        return {'flag': sum(1 for ln in lines if OL._starts(ln, '(gen) banner contains non-printable ASCII')), 'ret': r}

    def check(self, inp, obs):
        if 'exc' in obs:
            yield 'no-exception', False
            return
        c = zx.shims.z_ord(inp['c'])
        printable = s_and(c >= 32, c <= 126)
        yield 'flag-line-iff-non-printable', s_and(s_implies(printable, obs['flag'] == 0), s_implies(s_not(printable), obs['flag'] == 1))


class AuditHeader(Harness):
    """the whole real audit(): a server sends header lines (symbolic printable text) before its identification string; the probes that follow reconnect several
    times (each probe connection is answered with banner + KEXINIT and closed).  The report still shows exactly the header text of the first connection and the
    banner parts - nothing done after the handshake may lose or alter them."""
    prop, ob = PROP, 'O3'
    width = 64

    def __init__(self, nlines):
        self.nlines = nlines
        self.name = 'auditheader-%d' % nlines

    def params(self):
        return {'nlines': self.nlines}

    def inputs(self):
        return {'hdr': [zx.fresh_str('h%d' % i, 2, ((0x61, 0x7A),)) for i in range(self.nlines)], 'sw': zx.fresh_str('sw', 2, ((0x61, 0x7A),))}

    def run(self, M, inp):
        from vf import auditenv as AE
        from props import outlib as OL
        pre = b''
        for h in inp['hdr']:
            pre = pre + b'notice ' + h.encode('utf-8') + b'\r\n'
        ban = pre + b'SSH-2.0-' + inp['sw'].encode('utf-8') + b'\r\n'
        pk = AE.frame(AE.kexinit_payload(['curve25519-sha256', 'diffie-hellman-group-exchange-sha256'], ['ssh-ed25519', 'ssh-rsa'], ['aes128-ctr'], ['hmac-sha2-256']))
        conns = [AE.Conn([ban, pk])] + [AE.Conn([ban, pk], 'close') for _ in range(14)]
        if zx.active():
            zx.cur().stdout = []
        r = AE.run_audit(M, conns)
        if isinstance(r['ret'], Exc):
            return {'exc': r['ret']}
        lines = r['lines']
        flat = []
        for ln in lines:
            flat.extend(ln.split('\n'))
        i0 = [i for i, ln in enumerate(flat) if OL._starts(ln, '(gen) header: ')]
        # the header text: the lines carrying the '(gen) header: ' prefix, in order (every line of the peer's text carries it: no line of the peer's choosing
        # stands alone in the report)
        hdr = [flat[i][len('(gen) header: '):] for i in i0]
        alone = [ln for ln in flat if any(bool(ln == 'notice ' + h) for h in inp['hdr'])]
        # a second peer, audited afterwards in the same process, sends no header text at all
        ban2 = b'SSH-2.0-' + inp['sw'].encode('utf-8') + b'\r\n'
        r2 = AE.run_audit(M, [AE.Conn([ban2, pk])] + [AE.Conn([ban2, pk], 'close') for _ in range(14)])
        leak = isinstance(r2['ret'], Exc) or any(OL._starts(ln, '(gen) header: ') for ln in r2['lines'])
        return {'hdr': hdr, 'nhdr': len(i0), 'alone': len(alone), 'banner': [ln for ln in flat if OL._starts(ln, '(gen) banner: ')], 'nprobe': len(r['net'].made) - 1, 'leak': leak}

    def check(self, inp, obs):
        if 'exc' in obs:
            yield 'no-exception', False
            return
        yield 'probes-reconnected(reachability)', obs['nprobe'] >= 2
        if self.nlines == 0:
            yield 'no-header-line-without-header-text', obs['nhdr'] == 0
        else:
            ok = obs['nhdr'] == self.nlines and obs['hdr'] is not None and len(obs['hdr']) == self.nlines
            if ok:
                ok = s_and(*[g == 'notice ' + h for g, h in zip(obs['hdr'], inp['hdr'])])
            yield 'header-text-as-sent-after-the-probes', ok
            yield 'no-header-line-stands-alone-in-the-report', obs['alone'] == 0
        yield 'banner-as-sent-after-the-probes', len(obs['banner']) == 1 and bool(obs['banner'][0] == '(gen) banner: SSH-2.0-' + inp['sw'])
        yield 'header-text-does-not-appear-in-the-next-peers-report', not obs['leak']


class Product(Harness):
    """Software.parse: product, version and patch extracted from '<family><d..>.<d..>[patch]'."""
    prop, ob = PROP, 'O4'
    width = 64

    def __init__(self, fam, shape, npatch):
        self.fam, self.shape, self.npatch = fam, tuple(shape), npatch
        self.name = 'product-%s-%s-p%d' % (fam.rstrip('_-'), 'x'.join(map(str, shape)), npatch) + ('u' if fam.endswith('_') else 'd')

    def params(self):
        return {'fam': self.fam, 'shape': list(self.shape), 'npatch': self.npatch}

    def inputs(self):
        parts = [zx.fresh_str('v%d' % i, k, DIG) for i, k in enumerate(self.shape)]
        # patch: starts with a letter (so that the version/patch boundary is unambiguous), then printable non-space
        patch = ''
        if self.npatch:
            patch = zx.fresh_str('pl', 1, ((97, 122),)) + (zx.fresh_str('pr', self.npatch - 1, NOSPACE) if self.npatch > 1 else '')
        return {'parts': parts, 'patch': patch}

    def version(self, inp):
        v = inp['parts'][0]
        for p in inp['parts'][1:]:
            v = v + '.' + p
        return v

    def run(self, M, inp):
        sw = self.fam + self.version(inp) + inp['patch']
        b = M.banner.Banner((2, 0), sw, None, True)
        r = guarded(M.software.Software.parse, b)
        if r is None or isinstance(r, Exc):
            return {'r': r}
        return {'r': {'product': r.product, 'version': r.version, 'patch': r.patch, 'vendor': r.vendor}}

    def check(self, inp, obs):
        r = obs['r']
        yield 'no-exception', not isinstance(r, Exc)
        if isinstance(r, Exc):
            return
        yield 'recognised', r is not None
        if r is None:
            return
        fam = [f for f in FAMILIES if f[0] == self.fam][0]
        yield 'product', r['product'] == fam[1]
        yield 'version', r['version'] == self.version(inp)
        if self.fam.startswith(('mpSSH', 'Cisco')):
            return
        exp_patch = inp['patch'] if self.npatch else None
        yield 'patch', s_eq_opt(r['patch'], exp_patch)


class FreeProduct(Harness):
    prop, ob = PROP, 'O4'
    width = 64

    def __init__(self, fam, n):
        self.fam, self.n = fam, n
        self.name = 'freeproduct-%s-%d' % (fam.rstrip('_'), n)

    def params(self):
        return {'fam': self.fam, 'n': self.n}

    def inputs(self):
        return {'v': zx.fresh_str('v', self.n, NOSPACE)}

    def run(self, M, inp):
        b = M.banner.Banner((2, 0), self.fam + inp['v'], None, True)
        r = guarded(M.software.Software.parse, b)
        if r is None or isinstance(r, Exc):
            return {'r': r}
        return {'r': {'product': r.product, 'version': r.version}}

    def check(self, inp, obs):
        r = obs['r']
        yield 'recognised', r is not None and not isinstance(r, Exc)
        if r is None or isinstance(r, Exc):
            return
        yield 'product', r['product'] == dict(FREEFORM)[self.fam]
        yield 'version', r['version'] == inp['v']


def tasks(tier):
    T = []
    q = tier == 'quick'
    for proto, exp in PROTOS + MULTI:
        main = proto == '2.0'
        for nsw in (range(0, 5) if (main or not q) else (0, 2)):
            T.append(Accept(proto, exp, nsw, None))
        for nsw, ncm in ([(1, 0), (1, 1), (2, 2), (1, 3), (3, 3)] if main else [(2, 2)]):
            T.append(Accept(proto, exp, nsw, ncm))
        if main:
            T.append(Accept(proto, exp, 2, 2, '  '))
            T.append(Accept(proto, exp, 2, 1, '   '))
    if not q:
        for nsw in (5, 6, 8):
            T.append(Accept('2.0', (2, 0), nsw, None))
        for nsw, ncm in [(2, 4), (4, 4), (1, 5), (2, 6)]:
            T.append(Accept('2.0', (2, 0), nsw, ncm))
    for prefix in ('', 'SSH-', 'SSH-2.0', 'SSH-2.0-', 'SSH-1.99-x ', 'SSH-2.'):
        for n in ((1, 2, 3) if q else (1, 2, 3, 4)):
            T.append(Total(prefix, n))
    for hl in ([(), (0,), (1,), (2,), (1, 1)] if q else [(), (0,), (1,), (2,), (1, 1), (0, 2), (2, 0), (1, 0, 1)]):
        for eol in ('\r\n', '\n'):
            for split in ((None, 3) if q else (None, 1, 3, 5, 9)):
                T.append(Header(hl, eol, split))
    for hl in ([(3,), (4, 2), (0, 3)] if q else [(3,), (4, 2), (0, 3), (6,), (2, 2, 2), (5, 0, 2)]):
        for eol in ('\r\n', '\n'):
            for split in ((None, 6) if q else (None, 2, 6, 11)):
                T.append(Header(hl, eol, split, 'print'))
    for fam, prod, vend in FAMILIES:
        for shape in ([(1, 1), (1, 2), (1, 1, 1)] if q else [(1, 1), (1, 2), (2, 1), (1, 1, 1), (4, 2), (1, 2, 1), (2,)]):
            for npatch in ((0, 2) if q else (0, 1, 2, 3)):
                T.append(Product(fam, shape, npatch))
    for fam, prod in FREEFORM:
        for n in ((1, 3) if q else (0, 1, 2, 3, 4, 5)):
            T.append(FreeProduct(fam, n))
    for n in ((0, 1, 2) if q else (0, 1, 2, 3)):
        T.append(AuditHeader(n))
    T.append(HeaderSanitised(False))
    for proto in ('2.0', '1.99', '1.5'):
        T.append(FlagLine(proto))
    return T


def harness_by_name(name, params):
    k = name.split(':')[1].split('-')[0]
    if k == 'accept':
        return Accept(params['proto'], params['expect'], params['nsw'], params['ncm'], params['sep'])
    if k == 'total':
        return Total(params['prefix'], params['n'])
    if k == 'header':
        return Header(params['hlens'], params['eol'], params['split'], params.get('dom', 'any'))
    if k == 'product':
        return Product(params['fam'], params['shape'], params['npatch'])
    if k == 'flagline':
        return FlagLine(params['proto'])
    if k == 'headersanitised':
        return HeaderSanitised(params['json'])
    if k == 'auditheader':
        return AuditHeader(params['nlines'])
    if k == 'freeproduct':
        return FreeProduct(params['fam'], params['n'])
    raise KeyError(name)


META = {
    'functions': ['Banner.parse/__str__', 'Utils.is_print_ascii/to_print_ascii/_is_ascii/_to_ascii/ctoi', 'SSH_Socket.get_banner/recv/read_line',
                  'Software.parse/_fix_patch'],
    'bounds': {'quick': 'protocol from 10 concrete forms (incl. multi-version prefixes); software token 0..4 printable non-space chars; comments 0..3 '
                        'printable chars incl. blanks; separators of 1..3 blanks; arbitrary code points 1..3 after 6 prefixes; 0..2 header lines of 0..3 '
                        'arbitrary bytes, CRLF/LF, 2 chunkings; product strings of 8 families with 1..3 numeric components of 1..2 digits and 0/2-char patch',
               'thorough': 'software up to 8, comments up to 6, arbitrary strings up to 4 code points, header lines up to 2 arbitrary bytes or 6 printable chars / 3 lines / 5 chunkings, '
                           'versions up to 3 components of up to 4 digits, patches up to 3 chars'},
    'outside': ['software tokens that start with "SSH-" (ambiguous with the multi-protocol prefix)', 'empty software followed by comments (ambiguous line)',
                'comments are compared modulo collapsing of blank runs (pinned by the existing tests)', 'header lines containing LF'],
    'stubs': ['socket: ScriptSock (scripted chunks then timeout)', 're: backtracking regex model; bytearray/io: pure-Python models (validated per path)'],
    'assumptions': [],
}
