"""C12 - group-exchange modulus size is measured and rated correctly."""
import copy
import zx
from zx import s_and, s_or, s_not, s_implies, s_ite
from vf.harness import Harness, guarded, Exc
from vf.symutil import sym_size
from vf import auditenv as AE
from props import outlib as OL
from props.c06 import make_kex
from props.c09 import FakeSockRW

PROP = 'C12'
SIZES = [512, 768, 1024, 1536, 2048, 3072, 4096, 6144, 8192]
G1, G256 = 'diffie-hellman-group-exchange-sha1', 'diffie-hellman-group-exchange-sha256'
W2K = '2048-bit modulus only provides 112-bits of symmetric strength'
PROBES = [(512, 1024, 1536)] + [(b, b, b) for b in (512, 768, 1024, 1536, 2048, 3072, 4096)]
SECOND = (2048, 3072, 4096)


def server_reply(have, style, mn, pref, mx):
    """monotone server moduli policy as a symbolic function of the have-set (no forks): returns the modulus size handed out for a
    request (min, pref, max), or -1 when the server refuses.
      strict      : smallest available size s with pref <= s <= max, else refuse
      round-up    : as strict, else the largest available size in [min, pref)
      openssh     : as round-up, else the fixed 2048-bit fallback group (OpenSSH's behaviour, bugzilla 2793)
      nearest     : smallest available size >= pref, else the largest available size (range ignored)"""
    r = -1
    if style == 'nearest':
        # RFC 4419 section 3 read literally: the smallest group the server knows that is at least the preferred size, else the largest group it knows;
        # min and max are not consulted, so a reply may lie outside the requested range
        for s, h in zip(SIZES, have):
            r = s_ite(h, s, r)
        for s, h in reversed(list(zip(SIZES, have))):
            if pref <= s:
                r = s_ite(h, s, r)
        return r
    # largest available in [min, pref): iterate ascending so that later (larger) overrides
    if style in ('round-up', 'openssh'):
        for s, h in zip(SIZES, have):
            if mn <= s < pref:
                r = s_ite(h, s, r)
    if style == 'openssh':
        r = s_ite(r == -1, 2048, r) if isinstance(r, int) and r == -1 else s_ite(r == -1, 2048, r)
    # smallest available in [pref, max]: iterate descending so that later (smaller) overrides
    for s, h in reversed(list(zip(SIZES, have))):
        if pref <= s <= mx:
            r = s_ite(h, s, r)
    return r


class Loop(Harness):
    """real GEXTest.run against every monotone moduli policy (symbolic have-set) in three selection styles: the recorded size is the smallest modulus handed
    out across the fixed probe sequence (OpenSSH 2048 case: the follow-up reply, with the explanatory note); rating by thresholds; <= 9 probes."""
    prop, ob = PROP, 'O1'
    width = 64

    def __init__(self, style, alg, openssh):
        self.style, self.alg, self.openssh = style, alg, openssh
        self.name = 'loop-%s-%s-%s' % (style, 'sha1' if alg == G1 else 'sha256', 'openssh' if openssh else 'other')

    def params(self):
        return {'style': self.style, 'alg': self.alg, 'openssh': self.openssh}

    def inputs(self):
        return {'have': [zx.fresh_bool('have%d' % s) for s in SIZES]}

    def run(self, M, inp):
        db, _ = OL.fresh_tables(M)
        before = copy.deepcopy(M.ssh2_kexdb.SSH2_KexDB.MASTER_DB['kex'])
        kex = make_kex(M, {'kex': [self.alg, 'curve25519-sha256']})
        banner = M.banner.Banner((2, 0), 'OpenSSH_8.0' if self.openssh else 'dropbear_2020.81', None, True)
        out = M.outputbuffer.OutputBuffer()
        calls = []

        def fake_send_init(out_, s_, kex_group, kex_, gex_alg, mn, pref, mx):
            calls.append((gex_alg, mn, pref, mx))
            if len(calls) > 100:
                raise RuntimeError('more than 100 probes')       # a probe loop that never ends is cut off (and reported) instead of hanging the check
            return server_reply(inp['have'], self.style, mn, pref, mx), False

        class S:
            def is_connected(self): return False
            def close(self): pass
        orig = M.gextest.GEXTest._send_init
        M.gextest.GEXTest._send_init = staticmethod(fake_send_init)
        try:
            r = guarded(M.gextest.GEXTest.run, out, S(), banner, kex)
        finally:
            M.gextest.GEXTest._send_init = orig
        if isinstance(r, Exc):
            return {'exc': r}
        row, b = db['kex'][self.alg], before[self.alg]
        return {'master_changed': M.ssh2_kexdb.SSH2_KexDB.MASTER_DB['kex'] != before, 'size': kex.dh_modulus_sizes().get(self.alg), 'calls': calls, 'fails': list(row[1]) if len(row) > 1 else [], 'warns': list(row[2]) if len(row) > 2 else [],
                'infos': list(row[3]) if len(row) > 3 else [], 'b_fails': list(b[1]) if len(b) > 1 else [], 'b_warns': list(b[2]) if len(b) > 2 else [],
                'others_changed': [k for k in db['kex'] if k != self.alg and db['kex'][k] != before[k]]}

    def check(self, inp, obs):
        if 'exc' in obs:
            yield 'no-exception', False
            return
        have = inp['have']
        replies = [server_reply(have, self.style, *p) for p in PROBES]
        # smallest positive reply over the whole fixed probe list (monotone server => the early exit loses nothing)
        best = -1
        for r in replies:
            best = s_ite(s_and(r > 0, s_or(best == -1, r < best)), r, best)
        second = server_reply(have, self.style, *SECOND)
        if self.openssh:
            final = s_ite(best == 2048, second, best)
        else:
            final = best
        size = obs['size']
        if size is None:
            yield 'no-size-only-when-nothing-positive', s_not(final > 0)
        else:
            yield 'size==smallest-handed-out', s_and(final > 0, size == final)
            # rating
            f, w = obs['fails'], obs['warns']
            small = bool(size < 2048)
            mid = bool(s_and(size >= 2048, size < 3072))
            txt = 'using small ' + zx.shims.z_str(size) + '-bit modulus'
            if small:
                yield 'failure-below-2048', len(f) == 1 and bool(f[0] == txt) and w == obs['b_warns']
            elif mid:
                yield 'warning-2048..3071', f == obs['b_fails'] and w == obs['b_warns'] + [W2K]
            else:
                yield 'no-size-note-from-3072', f == obs['b_fails'] and w == obs['b_warns']
            if self.alg == G1:
                yield 'sha1-keeps-a-failure', len(f) >= 1
            if self.openssh:
                updated = bool(s_and(best == 2048, second > 0, second != 2048))
                yield 'openssh-fallback-note', (len(obs['infos']) > 0 and any('fallback mechanism' in (x if isinstance(x, str) else '') or (not isinstance(x, str) and bool(x.find('fallback mechanism') >= 0)) for x in obs['infos'])) == updated
        yield 'at-most-9-probes', len(obs['calls']) <= 9 and all(c[0] == self.alg for c in obs['calls'])
        yield 'probe-sequence-is-the-fixed-one', all((c[1], c[2], c[3]) in PROBES + [SECOND] for c in obs['calls'])
        yield 'no-other-row-touched', obs['others_changed'] == []
        # the size notes go into this scan's copy of the table; the master table (what the next scan starts from) stays as it was
        yield 'master-table-untouched', not obs['master_changed']


class FlakyLoop(Loop):
    """as Loop, but ONE probe of the sequence (a symbolic position) gets no answer although the server's policy has one (a stall, a throttled connection): the
    recorded size is still the smallest modulus the server actually handed out in the answered probes - or no size at all; never a larger one."""
    ob = 'O6'

    def __init__(self, style, alg, openssh):
        super().__init__(style, alg, openssh)
        self.name = 'flakyloop-' + self.name[len('loop-'):]

    def inputs(self):
        d = Loop.inputs(self)
        d['stall'] = zx.fresh_int('stall', 0, 9)
        return d

    def run(self, M, inp):
        db, _ = OL.fresh_tables(M)
        kex = make_kex(M, {'kex': [self.alg, 'curve25519-sha256']})
        banner = M.banner.Banner((2, 0), 'OpenSSH_8.0' if self.openssh else 'dropbear_2020.81', None, True)
        out = M.outputbuffer.OutputBuffer()
        calls, answers = [], []

        def fake_send_init(out_, s_, kex_group, kex_, gex_alg, mn, pref, mx):
            idx = len(calls)
            calls.append((gex_alg, mn, pref, mx))
            if idx > 100:
                raise RuntimeError('more than 100 probes')
            a = s_ite(inp['stall'] == idx, -1, server_reply(inp['have'], self.style, mn, pref, mx))
            answers.append(a)
            return a, False

        class S:
            def is_connected(self): return False
            def close(self): pass
        orig = M.gextest.GEXTest._send_init
        M.gextest.GEXTest._send_init = staticmethod(fake_send_init)
        try:
            r = guarded(M.gextest.GEXTest.run, out, S(), banner, kex)
        finally:
            M.gextest.GEXTest._send_init = orig
        if isinstance(r, Exc):
            return {'exc': r}
        return {'size': kex.dh_modulus_sizes().get(self.alg), 'calls': calls, 'answers': answers}

    def check(self, inp, obs):
        if 'exc' in obs:
            yield 'no-exception', False
            return
        first = [a for c, a in zip(obs['calls'], obs['answers']) if (c[1], c[2], c[3]) != SECOND]
        second = [a for c, a in zip(obs['calls'], obs['answers']) if (c[1], c[2], c[3]) == SECOND]
        best = -1
        for r in first:
            best = s_ite(s_and(r > 0, s_or(best == -1, r < best)), r, best)
        final = best
        if second:
            final = second[0]
        size = obs['size']
        if size is not None:
            yield 'size-is-the-smallest-modulus-actually-handed-out', s_and(final > 0, size == final)
        yield 'at-most-9-probes', len(obs['calls']) <= 9


class LoopReal(Loop):
    """as Loop, but with the real GEXTest._send_init and GEXTest.reconnect on a scripted connection that always succeeds; only the DH group object is a
    stand-in that hands out the modelled server's modulus.  What _send_init does with a reply (e.g. discarding one) is therefore part of the claim."""

    def __init__(self, style, alg, openssh):
        super().__init__(style, alg, openssh)
        self.name = 'loopreal-' + self.name[len('loop-'):]

    def run(self, M, inp):
        from props.c19 import PSock
        db, _ = OL.fresh_tables(M)
        before = copy.deepcopy(M.ssh2_kexdb.SSH2_KexDB.MASTER_DB['kex'])
        kex = make_kex(M, {'kex': [self.alg, 'curve25519-sha256']})
        banner = M.banner.Banner((2, 0), 'OpenSSH_8.0' if self.openssh else 'dropbear_2020.81', None, True)
        out = M.outputbuffer.OutputBuffer()
        calls = []
        KE = M.kexdh.KexDHException
        harness = self
        s = PSock({'connect_fail': [False], 'banner_fail': [False], 'kexinit_garbage': [False]})

        class Grp:
            def __init__(self_, out_):
                self_.size = -1

            def send_init_gex(self_, sock, mn, pref, mx):
                calls.append((harness.alg, mn, pref, mx))
                if len(calls) > 100:
                    raise RuntimeError('more than 100 probes')
                self_.size = server_reply(inp['have'], harness.style, mn, pref, mx)
                if bool(self_.size == -1):
                    raise KE('no group')

            def recv_reply(self_, sock, parse=True): return b''
            def get_dh_modulus_size(self_): return self_.size
        with AE.patched(M.gextest, KexGroupExchange_SHA1=Grp, KexGroupExchange_SHA256=Grp):
            r = guarded(M.gextest.GEXTest.run, out, s, banner, kex)
        if isinstance(r, Exc):
            return {'exc': r}
        row, b = db['kex'][self.alg], before[self.alg]
        return {'master_changed': M.ssh2_kexdb.SSH2_KexDB.MASTER_DB['kex'] != before, 'size': kex.dh_modulus_sizes().get(self.alg), 'calls': calls, 'fails': list(row[1]) if len(row) > 1 else [], 'warns': list(row[2]) if len(row) > 2 else [],
                'infos': list(row[3]) if len(row) > 3 else [], 'b_fails': list(b[1]) if len(b) > 1 else [], 'b_warns': list(b[2]) if len(b) > 2 else [],
                'others_changed': [k for k in db['kex'] if k != self.alg and db['kex'][k] != before[k]]}


class Measure(Harness):
    """send_init_gex + get_dh_modulus_size on a GEX_GROUP message whose modulus has exactly b bits (content symbolic): measured size == b."""
    prop, ob = PROP, 'O2'

    def __init__(self, bits, lead_zero, symtop=None):
        self.bits, self.lead_zero, self.symtop = bits, lead_zero, symtop
        self.name = 'measure-%d-%s%s' % (bits, 'lz' if lead_zero else 'nolz', ('-top%d' % symtop) if symtop else '')
        self.width = bits + 80

    def params(self):
        return {'bits': self.bits, 'lead_zero': self.lead_zero, 'symtop': self.symtop}

    def inputs(self):
        nb = (self.bits + 7) // 8
        if self.symtop:
            # the largest sizes: only the leading bytes (which decide the bit length) and the last one are symbolic, the middle is fixed
            body = zx.fresh_bytes('p', self.symtop) + b'\x5a' * (nb - self.symtop - 1) + zx.fresh_bytes('q', 1)
        else:
            body = zx.fresh_bytes('p', nb)
        top = self.bits - 8 * (nb - 1)          # number of significant bits in the first byte
        if zx.active():
            b0 = body[0]
            zx.cur().assume(s_and(b0 >= (1 << (top - 1)), b0 < (1 << top)))
            last = body[nb - 1]
            zx.cur().assume((last & 1) == 1)
        return {'p': body, 'x': zx.fresh_int('x', 0, 1 << (self.bits + 1))}

    def run(self, M, inp):
        p = (b'\x00' if self.lead_zero else b'') + inp['p']
        payload = AE.sshstr(p) + AE.sshstr(b'\x02')
        out = M.outputbuffer.OutputBuffer()
        k = M.kexdh.KexGroupExchange_SHA256(out)
        x = inp['x']

        class Rnd:
            class SystemRandom:
                def randrange(self, a, b=None):
                    if not bool(a < b):
                        raise ValueError('empty range for randrange()')
                    if zx.active():
                        zx.cur().assume(s_and(a <= x, x < b))
                    return x if zx.active() or a <= x < b else a
        if zx.active():
            zx.cur().pow_hook = lambda g, e, p_: 1
        with AE.patched(M.kexdh, random=Rnd):
            r = guarded(k.send_init_gex, FakeSockRW([(31, payload)]), 2048, 2048, 2048)
        if isinstance(r, Exc):
            return {'exc': r}
        return {'size': guarded(k.get_dh_modulus_size)}

    def check(self, inp, obs):
        if 'exc' in obs:
            yield 'no-exception', False
            return
        yield 'measured==bit-length', obs['size'] == self.bits


class SendInitOutcomes(Harness):
    """real GEXTest._send_init with the real KexGroupExchange object, twice on the same object (as GEXTest.run does): first request answered with a
    well-formed group of b bits and a reply; second request answered by one of: connection dead, silence (timeout), DISCONNECT, a message of another type, a
    group message cut short.  The first call reports b, the second reports NO size (-1) - never the size left over from the first, never a made-up one."""
    prop, ob = PROP, 'O4'

    def __init__(self, bits, second):
        self.bits, self.second = bits, second
        self.name = 'sendinit-%d-then-%s' % (bits, second)
        self.width = 64

    def params(self):
        return {'bits': self.bits, 'second': self.second}

    def inputs(self):
        # the modulus is concrete here (its measurement for arbitrary contents is O2); symbolic: the type byte of the unexpected message
        nb = self.bits // 8
        return {'p': b'\x80' + b'\x00' * (nb - 2) + b'\x01', 't': zx.fresh_bytes('t', 1), 'desc': zx.fresh_bytes('desc', 5)}

    def run(self, M, inp):
        S = AE.sshstr
        group = (31, S(b'\x00' + inp['p']) + S(b'\x02'))
        reply = (33, S(b'hostkey') + S(b'\x05') + S(b'sig'))
        sec = self.second
        if sec == 'dead':
            second = []
        elif sec == 'disconnect':
            second = [(1, AE.u32(2) + S(b'bye') + S(b''))]
        elif sec == 'other-type':
            second = [(inp['t'][0] if isinstance(inp['t'], bytes) else inp['t'][0], b'zz')]
        elif sec == 'short-group':
            second = [(31, S(b'\x00' + inp['p'])[:6])]
        elif sec == 'debug-then-disconnect':
            # a refusal preceded by a debug message; the description text is symbolic (it must never be read as a group)
            second = [(4, b'\x00' + S(b'note') + S(b'')), (1, AE.u32(11) + S(b'no matching DH group ' + inp['desc']) + S(b''))]
        elif sec == 'debug-then-group':
            second = [(4, b'\x00' + S(b'note') + S(b'')), group, reply]
        elif sec == 'group-without-reply':
            second = [group]
        else:
            raise ValueError(sec)
        out = M.outputbuffer.OutputBuffer()
        k = M.kexdh.KexGroupExchange_SHA256(out)
        kex = make_kex(M, {'kex': [G256]})
        class Rnd:
            class SystemRandom:
                def randrange(self, a, b=None):
                    return a

        class Sock(FakeSockRW):
            def is_connected(self_): return True
            def close(self_): pass
        if zx.active():
            zx.cur().pow_hook = lambda g, e, p_: 1        # only reached with symbolic operands, i.e. when peer text is (wrongly) taken for a group
        orig = M.gextest.GEXTest.reconnect
        M.gextest.GEXTest.reconnect = staticmethod(lambda *a, **kw: True)
        try:
            with AE.patched(M.kexdh, random=Rnd):
                r1 = guarded(M.gextest.GEXTest._send_init, out, Sock([group, reply]), k, kex, G256, 2048, 2048, 2048)
                if sec == 'other-type' and zx.active():
                    t = inp['t'][0]
                    zx.cur().assume(s_and(t != 31, t != 4))        # 31 would be a group message, 4 (DEBUG) is skipped by design
                r2 = guarded(M.gextest.GEXTest._send_init, out, Sock(second), k, kex, G256, 3072, 3072, 3072)
        finally:
            M.gextest.GEXTest.reconnect = orig
        return {'r1': r1, 'r2': r2}

    def check(self, inp, obs):
        r1, r2 = obs['r1'], obs['r2']
        yield 'no-exception', not isinstance(r1, Exc) and not isinstance(r2, Exc)
        if isinstance(r1, Exc) or isinstance(r2, Exc):
            return
        yield 'answered-request-reports-the-group-size', s_and(r1[0] == self.bits, r1[1] is False)
        if self.second == 'debug-then-group':
            yield 'debug-messages-are-skipped', r2[0] == self.bits
        elif self.second == 'group-without-reply':
            # the group was handed out; whether a missing follow-up reply voids the measurement is not fixed by the property: either the size or no size
            yield 'size-of-this-request-or-none', s_or(r2[0] == self.bits, r2[0] == -1)
        else:
            yield 'unanswered-request-reports-no-size', r2[0] == -1


class PostProcess(Harness):
    """post_process_findings: the OpenSSH-2048 note and the recommendation suppression are added iff size == 2048 and the banner says OpenSSH and sha256 GEX is advertised."""
    prop, ob = PROP, 'O3'
    width = 64

    def __init__(self, sw, advertised, nd):
        self.sw, self.advertised, self.nd = sw, advertised, nd
        self.name = 'postprocess-%s-%s-d%d' % (sw.split('_')[0], 'adv' if advertised else 'notadv', nd)

    def params(self):
        return {'sw': self.sw, 'advertised': self.advertised, 'nd': self.nd}

    def inputs(self):
        return {'size': sym_size('sz', self.nd)}

    def run(self, M, inp):
        db, _ = OL.fresh_tables(M)
        before = copy.deepcopy(M.ssh2_kexdb.SSH2_KexDB.MASTER_DB['kex'][G256])
        kex = make_kex(M, {'kex': ([G256] if self.advertised else []) + ['curve25519-sha256']}, dh={G256: inp['size']})
        algs = M.algorithms.Algorithms(None, kex)
        banner = M.banner.Banner((2, 0), self.sw, None, True)
        r = guarded(M.ssh_audit.post_process_findings, banner, algs, False, '')
        if isinstance(r, Exc):
            return {'exc': r}
        row = db['kex'][G256]
        return {'sup': G256 in r[0], 'infos': (list(row[3]) if len(row) > 3 else [])[len(before[3]) if len(before) > 3 else 0:]}

    def check(self, inp, obs):
        if 'exc' in obs:
            yield 'no-exception', False
            return
        cond = s_and(inp['size'] == 2048, 'OpenSSH' in self.sw, self.advertised)
        yield 'suppressed-iff-openssh-2048', obs['sup'] == cond
        yield 'note-iff-openssh-2048', (len(obs['infos']) == 1) == cond and len(obs['infos']) <= 1


def tasks(tier):
    q = tier == 'quick'
    T = []
    for style in ('strict', 'round-up', 'openssh', 'nearest'):
        for alg in (G1, G256):
            for openssh in (False, True):
                T.append(Loop(style, alg, openssh))
                T.append(LoopReal(style, alg, openssh))
                if alg == G256 or not q:
                    T.append(FlakyLoop(style, alg, openssh))
    for bits in ((512, 1023, 1024, 1025, 2048, 3072) if q else (512, 768, 1023, 1024, 1025, 1536, 2047, 2048, 2049, 3071, 3072, 3073, 4096, 6144)):
        T.append(Measure(bits, True))
        # without the leading zero byte: also for sizes that are a multiple of 8, where the first byte then has its top bit set (an unsigned modulus as some
        # servers send it - it must not be read as a negative number)
        if bits % 8 or bits in (1024, 2048, 4096):
            T.append(Measure(bits, False))
    for bits in ((8192,) if q else (6144, 8191, 8192)):
        T.append(Measure(bits, True, 2))
        T.append(Measure(bits, False, 2))
    for bits in ((1024, 2048) if q else (512, 1024, 2048, 3072, 4096)):
        for sec in ('dead', 'disconnect', 'other-type', 'short-group', 'group-without-reply', 'debug-then-disconnect', 'debug-then-group'):
            T.append(SendInitOutcomes(bits, sec))
    for sw in ('OpenSSH_8.0', 'dropbear_2020.81', 'NotOpenSSH-but-OpenSSH-inside'):
        for adv in (True, False):
            for nd in ((4,) if q else (3, 4, 5)):
                T.append(PostProcess(sw, adv, nd))
    return T


def harness_by_name(name, params):
    k = name.split(':')[1].split('-')[0]
    p = params
    if k == 'loopreal':
        return LoopReal(p['style'], p['alg'], p['openssh'])
    if k == 'flakyloop':
        return FlakyLoop(p['style'], p['alg'], p['openssh'])
    if k == 'loop':
        return Loop(p['style'], p['alg'], p['openssh'])
    if k == 'sendinit':
        return SendInitOutcomes(p['bits'], p['second'])
    if k == 'measure':
        return Measure(p['bits'], p['lead_zero'], p.get('symtop'))
    if k == 'postprocess':
        return PostProcess(p['sw'], p['advertised'], p['nd'])
    raise KeyError(name)


META = {
    'functions': ['GEXTest.run', 'KexGroupExchange.send_init_gex', 'KexDH.set_params/get_dh_modulus_size', 'post_process_findings (OpenSSH 2048 note)'],
    'bounds': {'quick': 'ALL 2^9 subsets of {512,768,1024,1536,2048,3072,4096,6144,8192} as a symbolic have-set x 3 selection styles x sha1/sha256 x OpenSSH/other banner; '
                        'group messages with a modulus of exactly 512/1023/1024/1025/2048/3072 bits (all such moduli, with/without leading zero byte); post-processing with '
                        'all 4-digit sizes x 3 banners x advertised or not',
               'thorough': 'more bit lengths up to 4096, sizes of 3..5 digits'},
    'outside': ['non-monotone servers (the loop reports the last answer; the property quantifies over monotone policies)', 'even moduli (p odd is assumed: a prime)'],
    'stubs': ['GEXTest._send_init replaced by the symbolic server model (reply = function of the have-set)', 'randrange: arbitrary value in range; pow: arbitrary'],
    'assumptions': [],
}
