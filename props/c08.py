"""C08 - one bad target never costs the others their results."""
import itertools
import json as _json
import zx
from zx import s_and, s_or, s_not, s_implies
from vf.harness import Harness, guarded, Exc
from vf import auditenv as AE
from props import outlib as OL
from props.c09 import BANNER, kexinit_pkt

PROP = 'C08'
RANK = [0, 2, 3, 1, -1]      # GOOD < WARNING < FAILURE < CONNECTION_ERROR < UNKNOWN_ERROR


class StubFuture:
    def __init__(self, fn, args):
        self.fn, self.args = fn, args
        self._r = None
        self._done = False

    def result(self):
        if not self._done:
            self._r = self.fn(*self.args)
            self._done = True
        return self._r


class StubConcurrent:
    """concurrent.futures stand-in: every submitted task runs exactly once; as_completed yields them in the harness's permutation"""

    def __init__(self, order):
        outer = self
        self.order = order
        self.submitted = []

        class Ex:
            def __init__(self, max_workers=None):
                self.max_workers = max_workers

            def __enter__(self): return self
            def __exit__(self, *a): return False

            def submit(self, fn, *args):
                f = StubFuture(fn, args)
                outer.submitted.append(f)
                return f

        class futures:
            ThreadPoolExecutor = Ex

            @staticmethod
            def as_completed(fs):
                fl = list(fs)
                for i in outer.order:
                    if i < len(fl):
                        yield fl[i]
        self.futures = futures


class Aggregate(Harness):
    """real main() over N targets whose worker results (status, text) and completion order are arbitrary: exactly N blocks, each text once, exit status =
    highest ranked status, JSON mode prints '[' + ', '.join(texts) + ']'."""
    prop, ob = PROP, 'O1'
    width = 64

    def __init__(self, n, order, json):
        self.n, self.order, self.json = n, tuple(order), json
        self.name = 'aggregate-n%d-order%s-%s' % (n, ''.join(map(str, order)), 'json' if json else 'text')

    def params(self):
        return {'n': self.n, 'order': list(self.order), 'json': self.json}

    def inputs(self):
        return {'st': [zx.fresh_int('st%d' % i, -1, 3) for i in range(self.n)], 'tx': [zx.fresh_str('tx%d' % i, 2, ((97, 122),)) for i in range(self.n)]}

    def run(self, M, inp):
        printed = []
        if zx.active():
            zx.cur().stdout = printed
        aconf = M.auditconf.AuditConf('', 22)
        aconf.json = self.json
        aconf.target_list = ['t%d' % i for i in range(self.n)]
        aconf.threads = 2
        seen = []

        def worker(host, port, shared):
            i = int(host[1:])
            seen.append((host, port))
            return inp['st'][i], inp['tx'][i]
        sc = StubConcurrent(self.order)
        cap = []

        def fake_print(*a, **k):
            cap.append((a, k))
        with AE.patched(M.ssh_audit, concurrent=sc, target_worker_thread=worker, process_commandline=lambda out, args: aconf):
            M.ssh_audit.__dict__['print'] = fake_print
            try:
                r = guarded(M.ssh_audit.main)
            finally:
                M.ssh_audit.__dict__['print'] = zx.shims.z_print
        # rebuild stdout
        text = ''
        for a, k in cap:
            piece = a[0] if a else ''
            text = text + piece + k.get('end', '\n')
        return {'ret': r, 'stdout': text, 'seen': seen}

    def check(self, inp, obs):
        r = obs['ret']
        yield 'no-exception', not isinstance(r, Exc)
        if isinstance(r, Exc):
            return
        st, tx = inp['st'], inp['tx']
        # highest ranked status
        best = st[0]
        conds = []
        rank = lambda v: zx.s_ite(v == 0, 0, zx.s_ite(v == 2, 1, zx.s_ite(v == 3, 2, zx.s_ite(v == 1, 3, 4))))
        rk = [rank(v) for v in st]
        mx = rk[0]
        for x in rk[1:]:
            mx = zx.s_ite(x > mx, x, mx)
        yield 'exit-status-is-highest-ranked', rank(r) == mx if not isinstance(r, int) or True else True
        yield 'every-target-scanned-once', sorted(obs['seen']) == sorted(('t%d' % i, 22) for i in range(self.n))
        ordered = [tx[i] for i in self.order]
        if self.json:
            want = '['
            for i, t in enumerate(ordered):
                want = want + (', ' if i else '') + t
            want = want + ']\n'
        else:
            want = ''
            for i, t in enumerate(ordered):
                want = want + t + '\n'
                if i < len(ordered) - 1:
                    want = want + ('-' * 80) + '\n\n'
        yield 'one-block-per-target-in-completion-order', obs['stdout'] == want


ESCAPES = ['ValueError', 'KeyError', 'struct.error', 'RuntimeError', 'OSError', 'KexDHException', 'UnicodeDecodeError', 'RecursionError', 'SystemExit(1)', 'SystemExit(str)']


class Containment(Harness):
    """real target_worker_thread when audit() ends in each escape class (ordinary exceptions and the sys.exit() sites of the packet reader / connect path):
    the worker always returns a (status, text) pair."""
    prop, ob = PROP, 'O2'
    width = 64

    def __init__(self, esc):
        self.esc = esc
        self.name = 'containment-' + esc

    def params(self):
        return {'esc': self.esc}

    def inputs(self):
        return {'t': zx.fresh_str('t', 1, ((97, 122),))}

    def run(self, M, inp):
        import struct
        e = self.esc

        def bad_audit(out, aconf, sshv=None, print_target=False):
            out.info('partial ' + inp['t'])
            if e == 'SystemExit(1)':
                raise SystemExit(1)
            if e == 'SystemExit(str)':
                raise SystemExit('bye')
            if e == 'struct.error':
                raise struct.error('x')
            if e == 'KexDHException':
                raise M.kexdh.KexDHException('x')
            if e == 'UnicodeDecodeError':
                raise UnicodeDecodeError('utf-8', b'x', 0, 1, 'r')
            raise {'ValueError': ValueError, 'KeyError': KeyError, 'RuntimeError': RuntimeError, 'OSError': OSError, 'RecursionError': RecursionError}[e]('x')
        aconf = M.auditconf.AuditConf('', 22)
        aconf.target_list = ['a', 'b']
        with AE.patched(M.ssh_audit, audit=bad_audit):
            r = guarded(M.ssh_audit.target_worker_thread, 'h', 22, aconf)
        return {'r': r if isinstance(r, Exc) else (r[0], None)}

    def check(self, inp, obs):
        r = obs['r']
        yield 'worker-returns-a-result-pair', not isinstance(r, Exc)
        if not isinstance(r, Exc):
            yield 'status-is-a-ranked-code', r[0] in (0, 1, 2, 3, -1)

    def classify(self, inp, obs, label):
        if isinstance(obs['r'], Exc) and obs['r'].type == 'SystemExit':
            return 'SystemExit-escapes-the-worker'
        return label


class RealRun(Harness):
    """real main() -> real target_worker_thread -> real audit() on a scripted network with a healthy target and a failing one (all failure archetypes, both
    positions): both yield a block, the exit status is the ranked maximum and JSON stdout is ONE well-formed array with one element per target."""
    prop, ob = PROP, 'O3'
    width = 64
    BAD = ['refused', 'unresolvable', 'silent', 'early-close', 'bad-block-size', 'truncated-kexinit', 'garbage-kexinit', 'probe-garbage', 'type-byte-only-kexinit', 'probe-type-byte-only',
           'ssh1-fallback', 'unresolvable-idna', 'packet-text-forges-ruler', 'header-forges-ruler', 'gex-probes-refused']

    def __init__(self, bad, pos, json, verbose=False, colors=False, rev=False):
        # rev: the targets finish in the reverse of the order in which they are listed (several worker threads)
        self.bad, self.pos, self.json, self.verbose, self.colors, self.rev = bad, pos, json, verbose, colors, rev
        self.name = 'realrun-%s-at%d-%s%s%s%s' % (bad, pos, 'json' if json else 'text', '-v' if verbose else '', '-colors' if colors else '', '-rev' if rev else '')

    def params(self):
        return {'bad': self.bad, 'pos': self.pos, 'json': self.json, 'verbose': self.verbose, 'colors': self.colors, 'rev': self.rev}

    def inputs(self):
        x = zx.fresh_bytes('x', 1)
        if zx.active():
            zx.cur().assume(s_or(x[0] == 0, x[0] == 65))     # the byte is echoed in error texts: two representatives keep the rendering enumerable
        return {'x': x}

    def net_for(self, inp):
        import socket
        healthy = [AE.Conn([BANNER, kexinit_pkt(['curve25519-sha256'], ['unknown-key'])], 'close')]
        b = self.bad
        kp = kexinit_pkt(['curve25519-sha256'], ['unknown-key'])
        if b == 'refused':
            bad = [AE.Conn([], refuse=True)]
        elif b == 'silent':
            bad = [AE.Conn([], 'timeout')]
        elif b == 'early-close':
            bad = [AE.Conn([BANNER], 'close')]
        elif b == 'bad-block-size':
            bad = [AE.Conn([BANNER, AE.u32(13) + bytes([4]) + b'\x14' + inp['x'] + b'\x00' * 20], 'close')]
        elif b == 'truncated-kexinit':
            bad = [AE.Conn([BANNER, kp[:20] + inp['x']], 'close')]
        elif b == 'garbage-kexinit':
            bad = [AE.Conn([BANNER, AE.frame(bytes([20]) + b'\x00' * 16 + b'\xff\xff\xff\xff' + inp['x'])], 'close')]
        elif b == 'gex-probes-refused':
            # answers the first connection (offering group exchange), then refuses every further connection while the probes reconnect (MaxStartups, fail2ban)
            kp3 = kexinit_pkt(['curve25519-sha256', 'diffie-hellman-group-exchange-sha256'], ['unknown-key'])
            bad = [AE.Conn([BANNER, kp3])] + [AE.Conn([], refuse=True) for _ in range(20)]
        elif b == 'packet-text-forges-ruler':
            # the peer closes mid-packet; what it sent so far is text of its choosing: a line break, the 80-dash ruler that separates two targets' blocks and a
            # made-up target line (the first four bytes pass the reader's length check)
            bad = [AE.Conn([BANNER, b'oool\n' + b'-' * 80 + b'\n(gen) target: good' + inp['x'][:0]], 'close')]
        elif b == 'header-forges-ruler':
            # the same through the lines a peer may send before its banner
            bad = [AE.Conn([b'welcome\r\n' + b'-' * 80 + b'\r\n(gen) target: good\r\n' + BANNER, kp], 'close')]
        elif b == 'ssh1-fallback':
            # the peer asks for the other protocol version in plain text; the retry over SSH-1 is answered by a close
            bad = [AE.Conn([BANNER, b'Protocol major versions differ.\n'], 'close'), AE.Conn([b'SSH-1.5-old\r\n'], 'close')]
        elif b == 'type-byte-only-kexinit':
            bad = [AE.Conn([BANNER, AE.frame(b'\x14')], 'close')]
        elif b == 'probe-type-byte-only':
            kp2 = kexinit_pkt(['diffie-hellman-group14-sha256'], ['ssh-rsa'])
            bad = [AE.Conn([BANNER, kp2]), AE.Conn([BANNER, AE.frame(b'\x14')])]
        elif b == 'probe-garbage':
            kp2 = kexinit_pkt(['diffie-hellman-group14-sha256'], ['ssh-rsa'])
            bad = [AE.Conn([BANNER, kp2]), AE.Conn([BANNER, kp2, AE.frame(bytes([31]) + inp['x'])])]
        else:
            bad = []
        return healthy, bad

    def run(self, M, inp):
        import socket
        healthy, bad = self.net_for(inp)
        by_host = {'good': healthy, 'bad': bad}
        hosts = ['good', 'bad'] if self.pos == 1 else ['bad', 'good']

        class Net(AE.FakeNet):
            def getaddrinfo(self_, host, port, family=0, stype=0, *a):
                if host == 'bad' and self.bad == 'unresolvable':
                    raise socket.gaierror(-2, 'Name or service not known')
                if host == 'bad' and self.bad == 'unresolvable-idna':
                    # what getaddrinfo() raises for a name that cannot be IDNA-encoded ('a..b', a label of more than 63 characters)
                    raise UnicodeError('encoding with \'idna\' codec failed (UnicodeError: label empty or too long)')
                self_.cur = host
                return [(socket.AF_INET, socket.SOCK_STREAM, 6, '', (host, port))]

            def socket(self_, family=2, type=1, *a):
                lst = by_host[self_.cur]
                c = lst.pop(0) if lst else AE.Conn([], 'close')
                self_.made.append(c)
                return c
        net = Net([])
        aconf = M.auditconf.AuditConf('', 22)
        aconf.json = self.json
        aconf.verbose = self.verbose          # -v: status lines must stay out of a JSON run's stdout, in main() and in every worker
        aconf.skip_rate_test = True
        aconf.colors = self.colors           # colours on (the default on a terminal): a JSON document must not carry terminal colour codes
        aconf.target_list = list(hosts)
        aconf.threads = 2 if self.rev else 1
        cap = []
        sc = StubConcurrent([1, 0] if self.rev else [0, 1])
        import io, contextlib
        buf = io.StringIO()
        with AE.patched(M.ssh_audit, concurrent=sc, json=AE.ConcJson, process_commandline=lambda out, args: aconf), AE.patched(M.ssh_socket, socket=net):
            M.ssh_audit.__dict__['print'] = lambda *a, **k: cap.append((a, k))
            try:
                with contextlib.redirect_stdout(buf):
                    r = guarded(M.ssh_audit.main)
            finally:
                M.ssh_audit.__dict__['print'] = zx.shims.z_print
        text = ''
        for a, k in cap:
            text = text + (a[0] if a else '') + k.get('end', '\n')
        if not isinstance(text, str):
            text = zx.shims.concretize_str(text)
        js = jt = None
        if self.json:
            try:
                v = _json.loads(text)
                js = isinstance(v, list) and len(v) == 2
                done = list(reversed(hosts)) if self.rev else hosts
                jt = js and [e.get('target') if isinstance(e, dict) else None for e in v] == [h + ':22' for h in done]
                # an element that reports an error names the target the error is about
                for e in (v if js else []):
                    if isinstance(e, dict) and 'error' in e and 'banner' not in e:
                        jt = jt and (e.get('target') == 'bad:22')
            except ValueError:
                js = jt = False
        return {'ret': r, 'json_ok': js, 'json_targets': jt, 'seps': len([ln for ln in text.split('\n') if ln == '-' * 80]),
                'target_lines': len([ln for ln in text.split('\n') if ln.startswith('(gen) target: ')]), 'good': 'good' in text or '"target": "good' in text,
                'bad': ('bad' in text), 'leaked': buf.getvalue() != '', 'traceback': 'Traceback (most recent call last)' in text, 'ansi': '\x1b[' in text or '\\u001b' in text}

    def check(self, inp, obs):
        r = obs['ret']
        yield 'run-completes', not isinstance(r, Exc)
        if isinstance(r, Exc):
            return
        if self.json:
            yield 'stdout-is-one-json-array-with-one-element-per-target', obs['json_ok'] is True
            yield 'each-json-element-names-its-target', obs['json_targets'] is True
            yield 'no-terminal-colour-codes-in-json', not obs['ansi']
        else:
            yield 'two-result-blocks', obs['seps'] == 1 and obs['good']
            # nothing a peer sends can pass for the ruler between two blocks or for a block's target line
            yield 'at-most-one-target-line-per-block', obs['target_lines'] <= 2      # (a target that cannot be connected to is named in its error line instead)
            yield 'each-block-names-its-target', obs['good'] and obs['bad']
        yield 'exit-status-ranked-max', r in (1, -1) or ((self.bad.startswith('probe-') or self.bad in ('header-forges-ruler', 'gex-probes-refused')) and r in (0, 2, 3))
        if self.bad in ('refused', 'unresolvable', 'silent', 'unresolvable-idna'):
            # a target that cannot be reached is a connection error (the healthy target here rates below it), reported as such - not an internal error
            yield 'unreachable-target-is-a-connection-error', r == 1 and not obs['traceback']
        yield 'nothing-printed-outside-the-blocks', not obs['leaked']

    def classify(self, inp, obs, label):
        r = obs['ret']
        if isinstance(r, Exc) and r.type == 'SystemExit':
            # the known finding is the sys.exit for a packet of invalid block size; any other input that aborts the run is a different violation
            return 'sys.exit-in-packet-reader-aborts-the-whole-run' if self.bad == 'bad-block-size' else 'run-aborted-by-SystemExit(%s)' % self.bad
        if label == 'stdout-is-one-json-array-with-one-element-per-target':
            return 'per-target-error-text-is-spliced-raw-into-the-json-array'
        return label


from props.c18 import MainRun as _MainRun


class FileRun(_MainRun):
    """real main() with the REAL process_commandline reading a targets file of n lines (n = 1 included: a list of one is still a list): with -j stdout is one
    JSON array with one element per line; in text mode n blocks separated by n-1 rulers; the run ends with the connection-error status (nothing listens)."""
    prop, ob = PROP, 'O3'
    conc_json = True
    keep_printed = True

    def __init__(self, n, json, ported=False):
        _MainRun.__init__(self, (('host:port',) if ported else ('host',)) * n, False)
        self.n, self.json, self.ported = n, json, ported
        self.more_vals = {'json': 1} if json else {}
        self.name = 'filerun-n%d-%s%s' % (n, 'json' if json else 'text', '-ported' if ported else '')

    def params(self):
        return {'n': self.n, 'json': self.json, 'ported': self.ported}

    def inputs(self):
        inp = _MainRun.inputs(self)
        if self.json and zx.active():
            # the JSON document renders host and port: keep them to a few representatives (the rendering would otherwise be enumerated value by value)
            for i, (h, p_) in enumerate(zip(inp['hosts'], inp['ports'])):
                zx.cur().assume(h == ['aa', 'bb', 'cc'][i])
                v = zx.shims.z_int(p_)
                zx.cur().assume(s_or(v == 22, v == 23))
        return inp

    def run(self, M, inp):
        obs = _MainRun.run(self, M, inp)
        printed = obs.pop('printed')
        res = {'ret': obs['ret'], 'ndialled': len(obs['dialled'])}
        if self.json:
            try:
                v = _json.loads(printed)
                res['json_len'] = len(v) if isinstance(v, list) else -1
                res['elements_are_objects_with_target'] = isinstance(v, list) and all(isinstance(e, dict) and 'target' in e for e in v)
            except ValueError:
                res['json_len'] = -2
                res['elements_are_objects_with_target'] = False
        else:
            res['rulers'] = printed.count('-' * 80)
        return res

    def check(self, inp, obs):
        r = obs['ret']
        yield 'run-completes', not isinstance(r, Exc)
        if isinstance(r, Exc):
            return
        yield 'every-listed-target-dialled', obs['ndialled'] == self.n
        if self.json:
            yield 'stdout-is-one-json-array-with-one-element-per-target', obs['json_len'] == self.n
            yield 'each-json-element-names-its-target', obs['elements_are_objects_with_target']
        else:
            yield 'blocks-separated-by-rulers', obs['rulers'] == self.n - 1
        yield 'exit-status-ranked-max', r == 1


def reader_exits():
    """does the packet reader (still) terminate the process itself?  (AST of the current source)"""
    import ast, os
    from vf import harness as H
    tree = ast.parse(open(os.path.join(H.SRC, 'ssh_audit', 'ssh_socket.py')).read())
    for fn in ast.walk(tree):
        if isinstance(fn, ast.FunctionDef) and fn.name == 'read_packet':
            return any(isinstance(n, ast.Call) and ast.unparse(n.func) == 'sys.exit' for n in ast.walk(fn))
    return True


def tasks(tier):
    q = tier == 'quick'
    T = []
    for n in ((1, 2, 3) if q else (1, 2, 3, 4)):
        perms = list(itertools.permutations(range(n)))
        if q and n == 3:
            perms = [(0, 1, 2), (2, 1, 0), (1, 2, 0)]
        if n == 4:
            perms = [(0, 1, 2, 3), (3, 2, 1, 0), (1, 3, 0, 2)]
        for order in perms:
            for json in (False, True):
                T.append(Aggregate(n, order, json))
    for e in ESCAPES:
        # SystemExit belongs to the escape set of audit() in target-list mode only while a reachable sys.exit() exists (the packet reader's)
        if e.startswith('SystemExit') and not reader_exits():
            continue
        T.append(Containment(e))
    for bad in RealRun.BAD:
        for pos in (0, 1):
            for json in (False, True):
                T.append(RealRun(bad, pos, json))
    for n in (1, 2, 3):
        for json in (False, True):
            T.append(FileRun(n, json))
    T.append(FileRun(1, True, True))
    for bad in ('refused', 'early-close', 'unresolvable'):
        for pos in (0, 1):
            T.append(RealRun(bad, pos, True, rev=True))
        T.append(RealRun(bad, 1, False, rev=True))
    for bad in ('refused', 'early-close', 'probe-garbage'):
        T.append(RealRun(bad, 1, True, verbose=True))      # (in text mode -v status lines between the blocks are intended)
        T.append(RealRun(bad, 0, True, verbose=True))
        T.append(RealRun(bad, 1, True, colors=True))
    return T


def harness_by_name(name, params):
    k = name.split(':')[1].split('-')[0]
    p = params
    if k == 'aggregate':
        return Aggregate(p['n'], p['order'], p['json'])
    if k == 'containment':
        return Containment(p['esc'])
    if k == 'filerun':
        return FileRun(p['n'], p['json'], p.get('ported', False))
    if k == 'realrun':
        return RealRun(p['bad'], p['pos'], p['json'], p.get('verbose', False), p.get('colors', False), p.get('rev', False))
    raise KeyError(name)


META = {
    'functions': ['main()', 'target_worker_thread', 'audit()', 'SSH_Socket.connect/read_packet'],
    'bounds': {'quick': 'N = 1..3 targets with symbolic worker statuses (all five codes) and 2-char texts, every completion order (3 of 6 for N=3), text and JSON; ten '
                        'escape classes of audit() incl. SystemExit; healthy + failing target for eight failure archetypes in both positions, text and JSON, one arbitrary byte at the fault',
               'thorough': 'N = 4, all orders for N = 3'},
    'outside': ['real thread scheduling (ThreadPoolExecutor replaced by a stub that runs each task once and yields a chosen completion order)', 'failure archetypes beyond the eight listed'],
    'stubs': ['concurrent.futures: StubConcurrent', 'process_commandline: returns the prepared configuration', 'print: captured', 'socket: scripted per host'],
    'assumptions': ['as_completed yields every submitted future exactly once'],
}
