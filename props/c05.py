"""C05 - a policy made from a target passes on that target and fails on any drift; built-ins pass on their own peer."""
import copy
import zx
from zx import s_and, s_or, s_not, s_implies
from vf.harness import Harness, guarded, Exc
from vf.symutil import sym_size
from vf import auditenv as AE
from props.c06 import make_kex, errs_view, s_list_eq

PROP = 'C05'
NAMECH = ((0x21, 0x2B), (0x2D, 0x7E))   # RFC 4251 name alphabet: printable ASCII without ',' (and no blank)
RSA_CERT = 'ssh-rsa-cert-v01@openssh.com'
GEX = 'diffie-hellman-group-exchange-sha256'
FIELDS = ['kex', 'key', 'enc', 'mac']
LABEL = {'kex': 'Key exchanges', 'key': 'Host keys', 'enc': 'Ciphers', 'mac': 'MACs'}
ATTR = {'kex': '_kex', 'key': '_host_keys', 'enc': '_ciphers', 'mac': '_macs'}


class TokenJson:
    """json stub for symbolic payloads: dumps() hands out an opaque concrete token and remembers the object; loads() of that
    token returns a deep copy (ints stay ints, strs stay strs: the library's documented round trip).  Pristine runs use the real json,
    so the cross-validation of every path also validates this abstraction."""

    def __init__(self):
        self.tab = {}

    def dumps(self, obj, **kw):
        t = '{"@json-token": %d}' % len(self.tab)
        self.tab[t] = obj
        return t

    def loads(self, s):
        if isinstance(s, str) and s in self.tab:
            return copy.deepcopy(self.tab[s])
        import json
        return json.loads(s)


def sym_lists(shape):
    return {f: [zx.fresh_str('%s%d' % (f, i), n, NAMECH) for i, n in enumerate(shape[f])] for f in FIELDS}


def run_create_load(M, L, hostkeys, dh, client, banner_sw='OpenSSH_8.0'):
    """peer -> Policy.create -> Policy(policy_data=...)"""
    # the tool reports/evaluates the server-to-client lists for both roles; the client-to-server lists are decoys
    kex = make_kex(M, {f: list(L[f]) for f in FIELDS}, host_keys=hostkeys, dh=dh, c2s={'enc': ['decoy-cipher'], 'mac': ['decoy-mac'], 'comp': ['decoy-comp']})
    banner = M.banner.Banner((2, 0), banner_sw, None, True)
    js = TokenJson() if M.kind == 'instrumented' else None
    ctx = AE.patched(M.policy, json=js) if js else AE.patched(M.policy)
    with ctx:
        data = guarded(M.policy.Policy.create, 'host', banner, kex, client)
        if isinstance(data, Exc):
            return kex, banner, data, None
        pol = guarded(lambda: M.policy.Policy(policy_data=data))
    return kex, banner, data, pol


class CreateLoadEval(Harness):
    prop, ob = PROP, 'O1'
    width = 64

    def __init__(self, shape, hk=None, dh=None, client=False):
        """shape: dict field -> tuple of name lengths; hk: None | (ca_type) ; dh: None | ndigits"""
        self.shape = {f: tuple(shape[f]) for f in FIELDS}
        self.hk, self.dh, self.client = hk, dh, client
        self.name = 'create-load-%s-hk(%s)-dh(%s)-%s' % ('_'.join(''.join(map(str, self.shape[f])) for f in FIELDS), hk if hk is not None else 'none',
                                                         dh or 'none', 'client' if client else 'server')

    def params(self):
        return {'shape': {f: list(v) for f, v in self.shape.items()}, 'hk': self.hk, 'dh': self.dh, 'client': self.client}

    def inputs(self):
        d = {'L': sym_lists(self.shape)}
        if self.hk is not None:
            d['hksz'] = sym_size('hksz', 4)
            d['casz'] = sym_size('casz', 4)
        if self.dh:
            d['dhsz'] = sym_size('dhsz', self.dh)
        return d

    def peer(self, inp):
        hostkeys = {RSA_CERT: (inp['hksz'], self.hk, inp['casz'])} if self.hk is not None else None
        dh = {GEX: inp['dhsz']} if self.dh else None
        return hostkeys, dh

    def run(self, M, inp):
        hostkeys, dh = self.peer(inp)
        kex, banner, data, pol = run_create_load(M, inp['L'], hostkeys, dh, self.client)
        if isinstance(data, Exc):
            return {'create': data}
        if isinstance(pol, Exc):
            return {'load': pol}
        r = guarded(pol.evaluate, banner, kex)
        if isinstance(r, Exc):
            return {'eval': r}
        hs = pol._hostkey_sizes
        return {'fields': {f: getattr(pol, ATTR[f]) for f in FIELDS}, 'hostkey_sizes': None if hs is None else {k: [v['hostkey_size'], v['ca_key_type'], v['ca_key_size']] for k, v in hs.items()},
                'dh': pol._dh_modulus_sizes, 'server_policy': pol._server_policy, 'subset': pol._allow_algorithm_subset_and_reordering,
                'larger': pol._allow_larger_keys, 'passed': r[0], 'nerr': len(r[1]), 'text': r[2], 'banner': pol._banner, 'comp': pol._compressions}

    def check(self, inp, obs):
        yield 'create-no-exception', 'create' not in obs
        yield 'loads-without-error', 'load' not in obs
        yield 'evaluate-no-exception', 'eval' not in obs
        if 'fields' not in obs:
            return
        yield 'lists-preserved', s_and(*[s_list_eq(obs['fields'][f], inp['L'][f]) for f in FIELDS])
        yield 'role-flag', obs['server_policy'] == (not self.client)
        yield 'exact-match-defaults', obs['subset'] is False and obs['larger'] is False and obs['banner'] is None and obs['comp'] is None
        if self.hk is not None:
            hs = obs['hostkey_sizes']
            ok = hs is not None and list(hs.keys()) == [RSA_CERT]
            if ok:
                v = hs[RSA_CERT]
                cond = [v[0] == inp['hksz']]
                # create() drops the CA pair when the type is empty or the size is 0; the loader restores ('', 0)
                dropped = s_or(self.hk == '', inp['casz'] == 0)
                cond.append(s_implies(s_not(dropped), s_and(v[1] == self.hk, v[2] == inp['casz'])))
                cond.append(s_implies(dropped, s_and(v[1] == '', v[2] == 0)))
                ok = s_and(*cond)
            yield 'hostkey-sizes-preserved', ok
        else:
            yield 'hostkey-sizes-absent', obs['hostkey_sizes'] is None
        if self.dh:
            yield 'dh-sizes-preserved', obs['dh'] is not None and list(obs['dh'].keys()) == [GEX] and obs['dh'][GEX] == inp['dhsz']
        yield 'passes-on-same-peer', s_and(obs['passed'] == True, obs['nerr'] == 0, obs['text'] == '')  # noqa: E712

    def classify(self, inp, obs, label):
        if label == 'loads-without-error':
            names = [x for f in FIELDS for x in inp['L'][f]]
            if obs['load'].type == 'ValueError' and any('=' in x for x in names):
                return "name-containing-'='-makes-generated-policy-unloadable"
        return label


class Drift(Harness):
    """policy made from peer A, evaluated against peer B = A with ONE perturbation: must fail and name the field."""
    prop, ob = PROP, 'O2'
    width = 64

    EXTRA = {'ecdsa-sha2-nistp256': (256, '', 0), 'ssh-ed25519': (256, '', 0), 'ssh-rsa': (3072, '', 0), 'ssh-ed25519-cert-v01@openssh.com': (256, 'ssh-ed25519', 256)}

    def __init__(self, field, kind, n, pos=0, pos2=1, extra=()):
        self.field, self.kind, self.n, self.pos, self.pos2, self.extra = field, kind, n, pos, pos2, tuple(extra)
        self.name = 'drift-%s-%s-n%d-p%d-%d%s' % (field, kind, n, pos, pos2, ('-extra(' + '+'.join(e.split('@')[0] for e in extra) + ')') if extra else '')

    def params(self):
        return {'field': self.field, 'kind': self.kind, 'n': self.n, 'pos': self.pos, 'pos2': self.pos2, 'extra': list(self.extra)}

    def more(self):
        return {k: self.EXTRA[k] for k in self.extra}

    def inputs(self):
        shape = {f: (1,) for f in FIELDS}
        if self.field in FIELDS:
            shape[self.field] = (1,) * self.n
        d = {'L': sym_lists(shape), 'new': zx.fresh_str('new', 1, NAMECH), 'hksz': sym_size('hksz', 4), 'casz': sym_size('casz', 4),
             'dhsz': sym_size('dhsz', 4), 'hksz2': sym_size('hksz2', 4), 'casz2': sym_size('casz2', 4), 'dhsz2': sym_size('dhsz2', 4)}
        return d

    def perturbed(self, inp):
        """returns (lists, hostkeys, dh, precondition that B really differs from A in that attribute)"""
        L = {f: list(inp['L'][f]) for f in FIELDS}
        hk = dict(self.more())
        hk[RSA_CERT] = (inp['hksz'], 'ssh-rsa', inp['casz'])
        dh = {GEX: inp['dhsz']}
        pre = True
        f, k = self.field, self.kind
        if f in FIELDS:
            lst = L[f]
            if k == 'replace':
                pre = s_not(inp['new'] == lst[self.pos])
                lst[self.pos] = inp['new']
            elif k == 'insert':
                lst.insert(self.pos, inp['new'])
            elif k == 'delete':
                del lst[self.pos]
                if not lst:
                    lst.append('')
            elif k == 'swap':
                pre = s_not(lst[self.pos] == lst[self.pos2])
                lst[self.pos], lst[self.pos2] = lst[self.pos2], lst[self.pos]
        elif f == 'hostkey-size':
            pre = s_not(inp['hksz2'] == inp['hksz'])
            hk[RSA_CERT] = (inp['hksz2'], 'ssh-rsa', inp['casz'])
        elif f == 'ca-size':
            pre = s_and(s_not(inp['casz2'] == inp['casz']), inp['casz'] > 0)
            hk[RSA_CERT] = (inp['hksz'], 'ssh-rsa', inp['casz2'])
        elif f == 'ca-type':
            pre = inp['casz'] > 0
            hk[RSA_CERT] = (inp['hksz'], 'ssh-ed25519', inp['casz'])
        elif f == 'dh-size':
            pre = s_not(inp['dhsz2'] == inp['dhsz'])
            dh = {GEX: inp['dhsz2']}
        return L, hk, dh, pre

    def run(self, M, inp):
        hkA = dict(self.more())
        hkA[RSA_CERT] = (inp['hksz'], 'ssh-rsa', inp['casz'])
        kexA, banner, data, pol = run_create_load(M, inp['L'], hkA, {GEX: inp['dhsz']}, False)
        if isinstance(data, Exc) or isinstance(pol, Exc):
            return {'setup': data if isinstance(data, Exc) else pol}
        L, hk, dh, pre = self.perturbed(inp)
        kexB = make_kex(M, L, host_keys=hk, dh=dh, c2s={'enc': ['other-decoy'], 'mac': ['other-decoy']})
        r = guarded(pol.evaluate, banner, kexB)
        if isinstance(r, Exc):
            return {'eval': r}
        return {'passed': r[0], 'labels': [e['mismatched_field'] for e in r[1]]}

    def check(self, inp, obs):
        if 'setup' in obs:
            # unloadable generated policies are O1's subject (names containing '='); nothing to check here
            return
        yield 'evaluate-no-exception', 'eval' not in obs
        if 'eval' in obs:
            return
        _, _, _, pre = self.perturbed(inp)
        want = {'hostkey-size': 'Host key (%s) sizes' % RSA_CERT, 'ca-size': 'CA signature size (ssh-rsa)', 'ca-type': 'CA signature type',
                'dh-size': 'Group exchange (%s) modulus sizes' % GEX}.get(self.field) or LABEL[self.field]
        yield 'drift-fails', s_implies(pre, obs['passed'] == False)  # noqa: E712
        yield 'drift-names-the-field', s_implies(pre, obs['labels'] == [want])


class BuiltinShape(Harness):
    """an arbitrary policy struct of the built-in shape, loaded the way load_builtin_policy loads it, is passed by the peer mirrored from it
    (host keys: required list with the optional ones interleaved)."""
    prop, ob = PROP, 'O3'
    width = 64

    def __init__(self, n, nopt, sizes):
        self.n, self.nopt, self.sizes = n, nopt, sizes
        self.name = 'builtin-shape-n%d-opt%d-%s' % (n, nopt, 'sizes' if sizes else 'nosizes')

    def params(self):
        return {'n': self.n, 'nopt': self.nopt, 'sizes': self.sizes}

    def inputs(self):
        shape = {f: (1,) * self.n for f in FIELDS}
        d = {'L': sym_lists(shape), 'opt': [zx.fresh_str('opt%d' % i, 1, NAMECH) for i in range(self.nopt)], 'sz': sym_size('sz', 4),
             'dhsz': sym_size('dhsz', 4)}
        return d

    def run(self, M, inp):
        import builtins
        name = 'Hardened Test (version 1)'
        struct = {'version': '1', 'changelog': 'x', 'banner': None, 'compressions': None, 'host_keys': list(inp['L']['key']),
                  'optional_host_keys': list(inp['opt']), 'kex': list(inp['L']['kex']), 'ciphers': list(inp['L']['enc']), 'macs': list(inp['L']['mac']),
                  'hostkey_sizes': {'rsa-sha2-512': {'hostkey_size': inp['sz']}} if self.sizes else None,
                  'dh_modulus_sizes': {GEX: inp['dhsz']} if self.sizes else None, 'server_policy': True}
        with AE.patched(M.policy, BUILTIN_POLICIES={name: struct}):
            p = guarded(M.policy.Policy.load_builtin_policy, name)
        if p is None or isinstance(p, Exc):
            return {'load': p}
        keys = list(inp['L']['key'])
        # mirrored peer: optional host keys may also be present (appended and prepended)
        peer_keys = ([inp['opt'][0]] if self.nopt else []) + keys + (list(inp['opt'][1:]) if self.nopt > 1 else [])
        kex = make_kex(M, {'kex': list(inp['L']['kex']), 'key': peer_keys, 'enc': list(inp['L']['enc']), 'mac': list(inp['L']['mac'])},
                       host_keys=({'rsa-sha2-512': (inp['sz'], '', 0)} if self.sizes else None), dh=({GEX: inp['dhsz']} if self.sizes else None))
        r = guarded(p.evaluate, M.banner.Banner((2, 0), 'x', None, True), kex)
        if isinstance(r, Exc):
            return {'eval': r}
        return {'passed': r[0], 'labels': [e['mismatched_field'] for e in r[1]]}

    def check(self, inp, obs):
        yield 'loads', 'load' not in obs
        yield 'evaluate-no-exception', 'eval' not in obs
        if 'passed' in obs:
            # an optional name that equals a required one would be pruned from the peer's list as well: excluded
            pre = s_and(*[s_not(o == k) for o in inp['opt'] for k in inp['L']['key']]) if self.nopt else True
            yield 'mirrored-peer-passes', s_implies(pre, s_and(obs['passed'] == True, len(obs['labels']) == 0))  # noqa: E712


class Pipeline(Harness):
    """the whole tool twice: real main() with -M against a scripted server whose KEXINIT carries symbolic names writes a policy file (captured); real main()
    with -P on that file against (a) the same server passes with status 0, (b) the server with ONE list changed (one name replaced by a different symbolic
    name) fails with status 3.  Everything between the option namespace and the exit status is the tool's own code."""
    prop, ob = PROP, 'O4'
    width = 64

    def __init__(self, field, drift, client=False):
        # client: the same round trip for a client audit (-c -M, then -c -P): the connecting client's KEXINIT carries the symbolic names
        self.field, self.drift, self.client = field, drift, client
        self.name = 'pipeline-%s-%s%s' % (field, 'drift' if drift else 'same', '-client' if client else '')

    def params(self):
        return {'field': self.field, 'drift': self.drift, 'client': self.client}

    def inputs(self):
        az = ((0x61, 0x7A),)
        inp = {'names': {f: zx.fresh_str('n' + f, 2, az) for f in FIELDS}, 'other': zx.fresh_str('other', 2, az)}
        if zx.active() and self.field in FIELDS:
            zx.cur().assume(s_not(inp['other'] == inp['names'][self.field]))
        return inp

    def server(self, inp, changed):
        from props.c09 import BANNER
        L = {'kex': ['curve25519-sha256', inp['names']['kex']], 'key': ['zz-unprobed-key', inp['names']['key']], 'enc': [inp['names']['enc'], 'aes128-ctr'],
             'mac': ['hmac-sha2-256', inp['names']['mac']]}
        if changed and self.field in FIELDS:
            L[self.field] = [inp['other'] if x is inp['names'][self.field] else x for x in L[self.field]]
        if self.field in ('gex', 'gex-strict', 'keyorder'):
            S = AE.sshstr
            L['kex'] = L['kex'] + ['diffie-hellman-group-exchange-sha256']
            if self.field == 'keyorder':
                # a host certificate type listed before (after the drift: after) a plain type; the group-exchange probes reconnect with the peer's own host-key list
                cert = 'ssh-ed25519-cert-v01@openssh.com'
                L['key'] = ([L['key'][0], cert] + L['key'][1:]) if changed else ([cert] + L['key'])
            bits = 3072 if (changed and self.field != 'keyorder') else 2048
            pb = b'\x00' + b'\x80' + b'\x00' * (bits // 8 - 2) + b'\x01'
            pk = AE.frame(AE.kexinit_payload(L['kex'], L['key'], L['enc'], L['mac']))
            group = lambda: AE.Conn([BANNER, pk, AE.frame(bytes([31]) + S(pb) + S(b'\x02')), AE.frame(bytes([33]) + S(b'hostkey') + S(b'\x05') + S(b'sig'))])
            refuse = lambda: AE.Conn([BANNER, pk, AE.frame(bytes([1]) + AE.u32(11) + S(b'no matching DH group found') + S(b''))], 'close')
            nprobe_hk = 1 if self.field == 'keyorder' else 0          # the certificate type is probed (unanswered) before the group-exchange probes
            hk = [AE.Conn([BANNER, pk], 'close') for _ in range(nprobe_hk)]
            if self.field == 'gex-strict':
                # a strict server: it owns exactly one group and refuses every request whose window does not hold it (first the wide 512..1536 request, then the
                # exact sizes below its group)
                nref = 5 if bits == 2048 else 6
                gex = [refuse() for _ in range(nref)] + [group() for _ in range(4)]
            else:
                gex = [group() for _ in range(9)]
            return AE.FakeNet([AE.Conn([BANNER, pk])] + hk + gex, default_end='close')
        pk = AE.frame(AE.kexinit_payload(L['kex'], L['key'], L['enc'], L['mac']))
        if self.client:
            return AE.ListenNet(AE.Conn([b'SSH-2.0-OpenSSH_8.0\r\n', pk], 'close'))
        return AE.FakeNet([AE.Conn([BANNER, pk])], default_end='close')

    def tool(self, M, vals, net, files):
        import io, contextlib, sys
        from props.c18 import StubArgparse

        class F:
            def __init__(self_, name, mode):
                self_.name, self_.mode = name, mode

            def __enter__(self_): return self_
            def __exit__(self_, *a): return False

            def write(self_, data):
                files[self_.name] = data

            def read(self_):
                if self_.name not in files:
                    raise FileNotFoundError(self_.name)
                return files[self_.name]

        def fake_open(name, mode='r', **kw):
            if 'x' in mode and name in files:
                raise FileExistsError(name)
            if 'r' in mode and name not in files:
                raise FileNotFoundError(name)
            return F(name, mode)
        from props import outlib as OL
        OL.fresh_tables(M)
        sink = []
        if zx.active():
            zx.cur().stdout = sink
        buf = io.StringIO()
        old = sys.argv
        sys.argv = ['ssh-audit', 'x']
        vals = dict(vals, host='target', skip_rate_test=True)
        more = {}
        if self.client:
            vals = dict(vals, host='', client_audit=True)
            more = {'select': AE.SelectStub}
        try:
            with AE.patched(M.ssh_audit, argparse=StubArgparse(vals)), AE.patched(M.ssh_socket, socket=net, **more), contextlib.redirect_stdout(buf), contextlib.redirect_stderr(io.StringIO()):
                M.ssh_audit.__dict__['open'] = fake_open
                M.policy.__dict__['open'] = fake_open
                try:
                    return guarded(M.ssh_audit.main)
                finally:
                    del M.ssh_audit.__dict__['open']
                    del M.policy.__dict__['open']
        finally:
            sys.argv = old

    def run(self, M, inp):
        files = {}
        r1 = self.tool(M, {'make_policy': 'pol.txt'}, self.server(inp, False), files)
        if isinstance(r1, Exc) or 'pol.txt' not in files:
            return {'make': r1, 'written': 'pol.txt' in files}
        r2 = self.tool(M, {'policy': 'pol.txt'}, self.server(inp, self.drift), files)
        pol = files['pol.txt']
        has_dh = bool(pol.find('dh_modulus_size') >= 0) if not isinstance(pol, str) else ('dh_modulus_size' in pol)
        return {'make': r1, 'written': True, 'eval': r2, 'has_dh': has_dh}

    def check(self, inp, obs):
        yield 'policy-file-written', not isinstance(obs['make'], Exc) and obs['written']
        if 'eval' not in obs:
            return
        if self.field in ('gex', 'gex-strict', 'keyorder'):
            yield 'policy-records-the-measured-modulus-size(reachability)', obs['has_dh']
        yield 'policy-run-completes', not isinstance(obs['eval'], Exc)
        if isinstance(obs['eval'], Exc):
            return
        if self.drift:
            yield 'drifted-peer-fails-with-status-3', obs['eval'] == 3
        else:
            yield 'same-peer-passes-with-status-0', obs['eval'] == 0


def builtins_concrete():
    """finite, exhaustive: every CURRENT built-in policy is passed by the peer configured exactly as it lists (real load_builtin_policy)."""
    import time
    from vf.harness import mods
    t0 = time.time()
    MI, MP = mods()
    res = {'harness': 'C05/O3:every-current-builtin-policy', 'ob': 'C05/O3', 'params': {}, 'status': 'ok', 'violations': [], 'paths': 0, 'decisions': 0,
           'queries': 0, 'solver_time_s': 0.0, 'xval': 0, 'replayed': 0, 'asserts': 0, 'sample': None, 'error': None}
    for name, st in MP.builtin_policies.BUILTIN_POLICIES.items():
        p = MP.policy.Policy.load_builtin_policy(name)
        hk = {k: (v['hostkey_size'], v.get('ca_key_type', ''), v.get('ca_key_size', 0)) for k, v in (st['hostkey_sizes'] or {}).items()}
        kex = make_kex(MP, {'kex': list(st['kex'] or ['k']), 'key': list(st['host_keys'] or ['h']), 'enc': list(st['ciphers'] or ['e']),
                            'mac': list(st['macs'] or ['m'])}, host_keys=hk, dh=dict(st['dh_modulus_sizes'] or {}))
        r = p.evaluate(MP.banner.Banner((2, 0), 'OpenSSH_9.9', None, True), kex)
        res['paths'] += 1
        res['asserts'] += 1
        res['xval'] += 1
        if not (r[0] is True and r[1] == []):
            res['violations'].append({'ob': 'C05/O3', 'harness': res['harness'], 'label': 'builtin-passes-own-peer', 'class': name, 'params': {},
                                      'witness': {'inputs': {'policy': name}, 'observation': {'errors': [e['mismatched_field'] for e in r[1]]}}})
            res['replayed'] += 1
    res['decisions'] = res['paths']
    res['sample'] = {'inputs': {'policies': res['paths']}, 'observation': 'each passes the peer mirrored from it'}
    res['note'] = 'finite exhaustive run over the current BUILTIN_POLICIES table (concrete)'
    res['wall_s'] = round(time.time() - t0, 3)
    return res


def tasks(tier):
    q = tier == 'quick'
    T = []
    one = {f: (1,) for f in FIELDS}
    shapes = [one, {'kex': (1, 1), 'key': (1,), 'enc': (1,), 'mac': (1,)}, {'kex': (1,), 'key': (1, 1), 'enc': (1,), 'mac': (1,)},
              {'kex': (1,), 'key': (1,), 'enc': (1, 1), 'mac': (1,)}, {'kex': (1,), 'key': (1,), 'enc': (1,), 'mac': (1, 1)},
              {'kex': (2,), 'key': (1,), 'enc': (1,), 'mac': (1,)}, {'kex': (1,), 'key': (1,), 'enc': (1,), 'mac': (2,)}]
    # an empty name-list on the wire is read as [''] (ReadBuf.read_list): an AEAD-only peer with no MACs, and the other fields likewise
    shapes += [{'kex': (1,), 'key': (1,), 'enc': (1,), 'mac': (0,)}, {'kex': (1,), 'key': (1,), 'enc': (0,), 'mac': (1,)}, {'kex': (1,), 'key': (0,), 'enc': (1,), 'mac': (0,)}, {'kex': (0,), 'key': (1,), 'enc': (1,), 'mac': (1,)}]
    if not q:
        shapes += [{'kex': (1, 1, 1), 'key': (1,), 'enc': (1,), 'mac': (1,)}, {'kex': (2, 1), 'key': (1, 1), 'enc': (1,), 'mac': (1,)},
                   {'kex': (1,), 'key': (1,), 'enc': (1, 1, 1), 'mac': (1,)}, {'kex': (3,), 'key': (1,), 'enc': (1,), 'mac': (1,)},
                   {'kex': (1, 1), 'key': (1, 1), 'enc': (1, 1), 'mac': (1, 1)}, {'kex': (2, 2), 'key': (2,), 'enc': (2, 2), 'mac': (2,)},
                   {'kex': (1,), 'key': (3, 1), 'enc': (1,), 'mac': (3,)}, {'kex': (4,), 'key': (1,), 'enc': (4,), 'mac': (1,)},
                   {'kex': (1, 1, 1, 1), 'key': (1,), 'enc': (1,), 'mac': (1,)}, {'kex': (1,), 'key': (1,), 'enc': (1,), 'mac': (1, 1, 1, 1)}]
    for sh in shapes:
        T.append(CreateLoadEval(sh))
    for hk in ('', 'ssh-rsa', 'ssh-ed25519'):
        T.append(CreateLoadEval(one, hk=hk))
        T.append(CreateLoadEval(one, hk=hk, dh=4))
    T.append(CreateLoadEval(one, dh=4))
    T.append(CreateLoadEval(one, dh=1))
    if not q:
        for d in (2, 3, 5):
            T.append(CreateLoadEval(one, dh=d))
            T.append(CreateLoadEval(one, hk='ssh-rsa', dh=d))
        T.append(CreateLoadEval(one, hk='ecdsa-sha2-nistp256', dh=4))
        T.append(CreateLoadEval(one, hk='ssh-ed25519', dh=4, client=True))
    T.append(CreateLoadEval(one, hk='ssh-rsa', dh=4, client=True))
    T.append(CreateLoadEval(one, client=True))
    for f in FIELDS:
        for n in ((1, 2) if q else (1, 2, 3, 4)):
            for pos in range(n):
                T.append(Drift(f, 'replace', n, pos))
                T.append(Drift(f, 'delete', n, pos))
            for pos in range(n + 1):
                T.append(Drift(f, 'insert', n, pos))
            for a in range(n):
                for b in range(a + 1, n):
                    T.append(Drift(f, 'swap', n, a, b))
    for f in ('hostkey-size', 'ca-size', 'ca-type', 'dh-size'):
        T.append(Drift(f, 'change', 1))
        # several size entries: plain types sorting before and after the certificate type
        T.append(Drift(f, 'change', 1, extra=('ecdsa-sha2-nistp256', 'ssh-rsa')))
        T.append(Drift(f, 'change', 1, extra=('ssh-ed25519', 'ssh-ed25519-cert-v01@openssh.com')))
    for n, nopt, sizes in ([(1, 0, False), (1, 1, False), (2, 2, True), (2, 0, True)] if q else
                           [(1, 0, False), (1, 1, False), (2, 2, True), (2, 0, True), (3, 1, True), (2, 3, False), (3, 2, True)]):
        T.append(BuiltinShape(n, nopt, sizes))
    for f in list(FIELDS) + ['gex', 'gex-strict', 'keyorder']:
        T.append(Pipeline(f, False))
        T.append(Pipeline(f, True))
    for f in ('kex', 'enc', 'mac', 'key'):
        T.append(Pipeline(f, False, True))
        T.append(Pipeline(f, True, True))
    T.append(builtins_concrete)
    return T


def harness_by_name(name, params):
    k = name.split(':')[1]
    if k.startswith('create-load'):
        return CreateLoadEval(params['shape'], params['hk'], params['dh'], params['client'])
    if k.startswith('drift'):
        return Drift(params['field'], params['kind'], params['n'], params['pos'], params['pos2'], params.get('extra', ()))
    if k.startswith('pipeline'):
        return Pipeline(params['field'], params['drift'], params.get('client', False))
    if k.startswith('builtin-shape'):
        return BuiltinShape(params['n'], params['nopt'], params['sizes'])
    raise KeyError(name)


META = {
    'functions': ['Policy.create', 'Policy.__init__ (line parser)', 'Policy.evaluate', 'Policy.load_builtin_policy', 'Policy._normalize_hostkey_sizes'],
    'bounds': {'quick': 'peer lists of 1..2 names of 1..2 characters over the whole RFC 4251 name alphabet (incl. = + / @ " #); one certificate host key with '
                        '4-digit sizes and CA type in {"",ssh-rsa,ssh-ed25519}; one GEX modulus of 1 or 4 digits; both roles; every single-position '
                        'replace/insert/delete/swap on lists of 1..2 names, size/CA-type/modulus changes; built-in shaped policies with 1..2 names, 0..2 optional',
               'thorough': 'lists up to 3, names up to 3 chars, perturbations on lists of 3'},
    'outside': ['file writing by -M (open(..., "x"))', 'names containing blanks or commas (excluded by RFC 4251)', 'several host-key size entries at once'],
    'stubs': ['json: token-preserving stub in the instrumented run, real json in the pristine run (validated per path)', 'date.today: real'],
    'assumptions': [],
}
