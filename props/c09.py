"""C09 - no peer can crash, hang or fool the auditor."""
import zx
from zx import s_and, s_or, s_not, s_implies, s_ite
from vf.harness import Harness, guarded, Exc
from vf import stubs, auditenv as AE

PROP = 'C09'
ALG_PREFIXES = ('(kex) ', '(key) ', '(enc) ', '(mac) ')


def has_alg_lines(lines):
    for ln in lines:
        for p in ALG_PREFIXES:
            if (isinstance(ln, str) and p in ln) or (not isinstance(ln, str) and bool(ln.find(p) >= 0)):
                return True
    return False


def status_of(r):
    """documented end states of audit(): returned 0..3 or SystemExit(1) (single-target connection error)"""
    if isinstance(r, Exc):
        if r.type == 'SystemExit' and r.msg == 1:
            return 1
        return None
    if isinstance(r, bool) or not isinstance(r, int):
        return None
    return r if r in (0, 1, 2, 3) else None


# --------------------------------------------------------------------------------------------- unit level
class BannerLoop(Harness):
    """get_banner on an arbitrary byte stream in a given chunking, then close/timeout/reset: returns a triple, raises
    nothing, and calls recv at most chunks+1 times (every iteration consumes input or ends)."""
    prop, ob = PROP, 'O1'
    width = 64

    def __init__(self, prefix, k, suffix, chunking, end):
        self.prefix, self.k, self.suffix, self.chunking, self.end = prefix, k, suffix, chunking, end
        self.name = 'bannerloop-%s-%d-%s-%s-%s' % (prefix.hex() or 'none', k, suffix.hex() or 'none', chunking, end)
        self.cost = 8 ** k

    def params(self):
        return {'prefix': self.prefix.hex(), 'k': self.k, 'suffix': self.suffix.hex(), 'chunking': self.chunking, 'end': self.end}

    def inputs(self):
        return {'x': zx.fresh_bytes('x', self.k)}

    def chunks(self, data):
        if self.chunking == 'one':
            return [data] if len(data) else []
        if self.chunking == 'bytes':
            return [data[i:i + 1] for i in range(len(data))]
        k = int(self.chunking)
        return [c for c in (data[:k], data[k:]) if len(c)]

    def run(self, M, inp):
        data = self.prefix + inp['x'] + self.suffix
        ch = self.chunks(data)
        s, ss, out = stubs.ssh_socket(M, ch, end=self.end)
        r = guarded(s.get_banner)
        if isinstance(r, Exc):
            return {'r': r, 'nch': len(ch)}
        b, hdr, err = r
        return {'b': None if b is None else [list(b.protocol), b.software, b.comments], 'hdr': list(hdr), 'err': err, 'recv': ss.recv_calls,
                'nch': len(ch), 'unread': s.unread_len}

    def check(self, inp, obs):
        if 'r' in obs:
            yield 'no-exception', False
            return
        yield 'recv-bounded', obs['recv'] <= obs['nch'] + 1
        yield 'result-shape', (obs['b'] is not None) or (obs['err'] is None or isinstance(obs['err'], str))
        # a result without banner only after the stream ended
        yield 'no-banner-only-at-end', (obs['b'] is not None) or obs['recv'] == obs['nch'] + 1

    def classify(self, inp, obs, label):
        if 'r' in obs:
            return 'get_banner:' + obs['r'].type
        return label


class PacketReader(Harness):
    """read_packet(sshv) on an arbitrary byte stream: a (type, payload) pair, (-1, e), or the documented SystemExit(1)."""
    prop, ob = PROP, 'O2'
    width = 64

    def __init__(self, sshv, n, chunking='one', end='close'):
        self.sshv, self.n, self.chunking, self.end = sshv, n, chunking, end
        self.name = 'readpacket%d-%d-%s-%s' % (sshv, n, chunking, end)
        self.cost = n

    def params(self):
        return {'sshv': self.sshv, 'n': self.n, 'chunking': self.chunking, 'end': self.end}

    def inputs(self):
        return {'x': zx.fresh_bytes('x', self.n), 'c': zx.fresh_int('c', 0, 0xFFFFFFFF)}

    def run(self, M, inp):
        data = inp['x']
        if self.chunking == 'one':
            ch = [data] if len(data) else []
        else:
            ch = [data[i:i + 1] for i in range(len(data))]
        s, ss, out = stubs.ssh_socket(M, ch, end=self.end)
        if zx.active():
            zx.cur().stdout = []

        class SSH1Stub:     # CRC32 == reference is C10/O6; here an arbitrary value so that accepted packets are reachable
            @staticmethod
            def crc32(v):
                return inp['c']
        import io, contextlib
        with AE.patched(M.ssh_socket, SSH1=SSH1Stub):
            with contextlib.redirect_stdout(io.StringIO()):
                r = guarded(s.read_packet, self.sshv)
        return {'r': r, 'recv': ss.recv_calls, 'nch': len(ch)}

    def check(self, inp, obs):
        r = obs['r']
        if isinstance(r, Exc):
            # the reader's documented way to reject a malformed packet: InvalidPacketException (before the repair: sys.exit(1))
            yield 'only-documented-exit', r.type == 'InvalidPacketException' or (r.type == 'SystemExit' and r.msg == 1)
        else:
            yield 'pair', isinstance(r, tuple) and len(r) == 2
            t = r[0]
            yield 'type-range', s_or(t == -1, s_and(t >= 0, t <= 255))
        yield 'recv-bounded', obs['recv'] <= obs['nch'] + 1

    def classify(self, inp, obs, label):
        r = obs['r']
        if isinstance(r, Exc):
            return 'read_packet:' + r.type
        return label


class ParseTotal(Harness):
    """SSH2_Kex.parse / SSH1_PublicKeyMessage.parse on an arbitrary payload: only exception classes that EVERY call site
    catches may leave (harvested from the try statements of the current source)."""
    prop, ob = PROP, 'O3'
    width = 64

    def __init__(self, which, n):
        self.which, self.n = which, n
        self.name = 'parse-%s-%d' % (which, n)
        self.cost = 2 ** max(0, n - 10)
        self.deadline_s = 1500
        if which == 'pkm':
            self.width = 8 * n + 80

    def params(self):
        return {'which': self.which, 'n': self.n}

    def inputs(self):
        return {'p': zx.fresh_bytes('p', self.n)}

    def run(self, M, inp):
        if self.which == 'kex':
            out = M.outputbuffer.OutputBuffer()
            r = guarded(M.ssh2_kex.SSH2_Kex.parse, out, inp['p'])
        else:
            r = guarded(M.ssh1_publickeymessage.SSH1_PublicKeyMessage.parse, inp['p'])
        return {'exc': r if isinstance(r, Exc) else None}

    def check(self, inp, obs):
        from vf import sites
        e = obs['exc']
        inter, _ = sites.allowed('SSH2_Kex.parse' if self.which == 'kex' else 'SSH1_PublicKeyMessage.parse')
        yield 'escapes-only-what-callers-catch', e is None or sites.is_allowed(e.type, inter)

    def classify(self, inp, obs, label):
        return 'parse-%s:%s-uncaught-at-a-call-site' % (self.which, obs['exc'].type)


class ParseKexField(Harness):
    """well-formed KEXINIT layout in which ONE length field (index i of the ten name-lists) is an arbitrary 32-bit value and the list
    bodies are arbitrary bytes: parse raises only what every caller catches."""
    prop, ob = PROP, 'O3'
    width = 64

    def __init__(self, i, blen=2):
        self.i, self.blen = i, blen
        self.name = 'parse-kexfield-%d-b%d' % (i, blen)

    def params(self):
        return {'i': self.i, 'blen': self.blen}

    def inputs(self):
        return {'len': zx.fresh_bytes('len', 4), 'body': zx.fresh_bytes('b', self.blen)}

    def run(self, M, inp):
        p = b'\x00' * 16
        for j in range(10):
            p = p + ((inp['len'] + inp['body']) if j == self.i else (AE.u32(1) + b'a'))
        p = p + b'\x00' + AE.u32(0)
        out = M.outputbuffer.OutputBuffer()
        r = guarded(M.ssh2_kex.SSH2_Kex.parse, out, p)
        return {'exc': r if isinstance(r, Exc) else None}

    def check(self, inp, obs):
        from vf import sites
        e = obs['exc']
        inter, _ = sites.allowed('SSH2_Kex.parse')
        yield 'escapes-only-what-callers-catch', e is None or sites.is_allowed(e.type, inter)

    def classify(self, inp, obs, label):
        return 'parse-kex:%s-uncaught-at-a-call-site' % obs['exc'].type


class FakeSockRW:
    """the SSH_Socket seen by the KexDH code: read_packet scripted, writers are no-ops (environment)"""

    def __init__(self, packets):
        self.packets = list(packets)
        self.reads = 0

    def read_packet(self, sshv=2):
        self.reads += 1
        if self.packets:
            return self.packets.pop(0)
        return (-1, b'')

    def write_byte(self, v): return self
    def write_int(self, v): return self
    def write_string(self, v): return self
    def write_mpint2(self, v): return self
    def send_packet(self): return (0, None)


class RecvReply(Harness):
    """KexDH.recv_reply with an arbitrary reply payload: only KexDHException (the class its callers catch) may leave."""
    prop, ob = PROP, 'O4'
    width = 64

    def __init__(self, n, parse_size=True, ptype=31):
        self.n, self.parse_size, self.ptype = n, parse_size, ptype
        self.name = 'recvreply-%d-%s-t%d' % (n, 'size' if parse_size else 'nosize', ptype)
        self.cost = 3 ** max(0, n - 12)
        self.deadline_s = 1500

    def params(self):
        return {'n': self.n, 'parse_size': self.parse_size, 'ptype': self.ptype}

    def inputs(self):
        return {'p': zx.fresh_bytes('p', self.n)}

    def run(self, M, inp):
        out = M.outputbuffer.OutputBuffer()
        k = M.kexdh.KexDH(out, 'x', 'sha1', 0, 0)
        r = guarded(k.recv_reply, FakeSockRW([(self.ptype, inp['p'])]), self.parse_size)
        return {'exc': r if isinstance(r, Exc) else None}

    def check(self, inp, obs):
        e = obs['exc']
        yield 'only-KexDHException', e is None or e.type == 'KexDHException'

    def classify(self, inp, obs, label):
        return 'recv_reply:' + obs['exc'].type


class GexInit(Harness):
    """KexGroupExchange.send_init_gex with an arbitrary GEX_GROUP payload and an arbitrary randrange() result: only
    KexDHException may leave."""
    prop, ob = PROP, 'O5'
    width = 200

    def __init__(self, n, ptype=31):
        self.n, self.ptype = n, ptype
        self.name = 'gexinit-%d-t%d' % (n, ptype)
        self.cost = n

    def params(self):
        return {'n': self.n, 'ptype': self.ptype}

    def inputs(self):
        return {'p': zx.fresh_bytes('p', self.n), 'x': zx.fresh_int('x', 0, 1 << 130)}

    def run(self, M, inp):
        out = M.outputbuffer.OutputBuffer()
        k = M.kexdh.KexGroupExchange_SHA256(out)
        x = inp['x']

        class Rnd:
            class SystemRandom:
                def randrange(self, a, b=None):
                    # contract: ValueError on an empty range, otherwise an arbitrary value in [a, b)
                    if not bool(a < b):
                        raise ValueError('empty range for randrange()')
                    if zx.active():
                        zx.cur().assume(s_and(a <= x, x < b))
                        return x
                    return x if a <= x < b else a

        def pow_hook(g, e, p):
            p = zx.force(p)
            if bool(p == 0):
                raise ValueError('pow() 3rd argument cannot be 0')
            return 0   # the value only reaches the (stubbed) writer
        if zx.active():
            zx.cur().pow_hook = pow_hook
        with AE.patched(M.kexdh, random=Rnd):
            r = guarded(k.send_init_gex, FakeSockRW([(self.ptype, inp['p'])]), 2048, 2048, 2048)
        return {'exc': r if isinstance(r, Exc) else None}

    def check(self, inp, obs):
        e = obs['exc']
        yield 'only-KexDHException', e is None or e.type == 'KexDHException'

    def classify(self, inp, obs, label):
        return 'send_init_gex:' + obs['exc'].type


class GexOversized(Harness):
    """a group-exchange group whose modulus is far larger than anything the tool asks for (the work of one modular exponentiation grows with the cube of the
    peer-chosen size): refused with KexDHException before any exponentiation is attempted; a modulus of up to 8192 bits is still processed."""
    prop, ob = PROP, 'O5'
    width = 64

    def __init__(self, bits):
        self.bits = bits
        self.name = 'gexoversized-%d' % bits

    def params(self):
        return {'bits': self.bits}

    def inputs(self):
        g = zx.fresh_bytes('g', 1)          # the generator is the symbolic part; the modulus is concrete (its size is what matters)
        if zx.active():
            zx.cur().assume(g[0] >= 2)
        return {'g': g}

    def run(self, M, inp):
        out = M.outputbuffer.OutputBuffer()
        k = M.kexdh.KexGroupExchange_SHA256(out)
        nb = self.bits // 8
        p = b'\x00\x80' + b'\x00' * (nb - 2) + b'\x01'
        calls = []

        class Rnd:
            class SystemRandom:
                def randrange(self, a, b=None):
                    return a
        real_pow = pow

        def counting_pow(*a):
            calls.append(1)
            return 1
        if zx.active():
            zx.cur().pow_hook = lambda g, e, p_: (calls.append(1), 1)[1]
        pristine = M.kind == 'pristine'
        with AE.patched(M.kexdh, random=Rnd):
            if pristine:
                M.kexdh.__dict__['pow'] = counting_pow
            try:
                r = guarded(k.send_init_gex, FakeSockRW([(31, AE.sshstr(p) + AE.sshstr(inp['g']))]), 2048, 2048, 2048)
            finally:
                if pristine:
                    del M.kexdh.__dict__['pow']
        return {'exc': r if isinstance(r, Exc) else None, 'pows': len(calls)}

    def check(self, inp, obs):
        e = obs['exc']
        yield 'only-KexDHException', e is None or e.type == 'KexDHException'
        if self.bits <= 8192:
            yield 'group-within-the-largest-size-the-tool-requests-is-processed', e is None
        else:
            yield 'oversized-group-refused-before-any-exponentiation', e is not None and e.type == 'KexDHException' and obs['pows'] == 0


# --------------------------------------------------------------------------------------------- audit level
BANNER = b'SSH-2.0-OpenSSH_8.0\r\n'
ENC, MAC = ['aes128-ctr'], ['hmac-sha2-256']


def kexinit_pkt(kex, key):
    return AE.frame(AE.kexinit_payload(kex, key, ENC, MAC))


class AuditFirstConn(Harness):
    """real audit(): banner, then arbitrary bytes instead of a well-formed KEXINIT packet.  The audit ends through a documented
    status; a malformed handshake gives status 1 and no algorithm report."""
    prop, ob = PROP, 'O7'
    width = 64

    def __init__(self, n, sshv=2, end='close', framed=False, dom='any', lead=0):
        # lead: that many well-formed SSH_MSG_DEBUG packets come first (a peer may send them at any time); what follows them is as arbitrary as before
        self.n, self.sshv, self.end, self.framed, self.dom, self.lead = n, sshv, end, framed, dom, lead
        self.name = 'audit-first-%s%d-v%d-%s-%s%s' % ('framed' if framed else 'raw', n, sshv, end, dom, ('-after%ddebug' % lead) if lead else '')
        self.cost = (10 ** n if dom == 'any' and not framed else n)
        self.deadline_s = 1500

    def params(self):
        return {'n': self.n, 'sshv': self.sshv, 'end': self.end, 'framed': self.framed, 'dom': self.dom, 'lead': self.lead}

    def inputs(self):
        if self.dom == 'any':
            x = zx.fresh_bytes('x', self.n)
        else:
            # lower-case ASCII letters only (cheap to render in error messages); arbitrary length fields are O2's subject
            t = zx.fresh_str('xs', self.n, ((97, 122),))
            x = t.encode('ascii') if not isinstance(t, str) else t.encode()
        return {'x': x, 'c': zx.fresh_int('c', 0, 0xFFFFFFFF)}

    def run(self, M, inp):
        if zx.active():
            zx.cur().stdout = []
        x = inp['x']
        if self.sshv == 2:
            data = AE.frame(bytes([20]) + x) if self.framed else x
            dbg = AE.frame(bytes([4, 0]) + AE.sshstr(b'debug text') + AE.sshstr(b''))
            data = dbg * self.lead + data
            conns = [AE.Conn([BANNER, data] if len(data) else [BANNER], self.end)]
            r = AE.run_audit(M, conns, ssh1=False)
        else:
            if self.framed:
                plen = 1 + self.n + 4
                data = AE.u32(plen) + b'\x00' * (8 - plen % 8) + bytes([2]) + x + b'\xAA\xBB\xCC\xDD'
            else:
                data = x
            conns = [AE.Conn([b'SSH-1.5-OpenSSH_1.2\r\n', data] if len(data) else [b'SSH-1.5-x\r\n'], self.end)]

            class SSH1Stub:
                @staticmethod
                def crc32(v):
                    return 0xAABBCCDD if self.framed else inp['c']
            with AE.patched(M.ssh_socket, SSH1=SSH1Stub):
                r = AE.run_audit(M, conns, ssh1=True, ssh2=False)
        return {'ret': r['ret'], 'alg': has_alg_lines(r['lines']), 'nconn': len(r['net'].made)}

    def check(self, inp, obs):
        st = status_of(obs['ret'])
        yield 'documented-status', st is not None
        if st is not None and self.sshv == 2 and (not self.framed or self.n < 60):
            # fewer than 61 payload bytes can never be a complete KEXINIT (16 cookie + 10 length fields + 5)
            yield 'malformed-is-status-1', st == 1
            yield 'malformed-no-report', not obs['alg']
        if st is not None and st != 1:
            yield 'report-present', obs['alg'] or self.sshv == 1

    def classify(self, inp, obs, label):
        r = obs['ret']
        if isinstance(r, Exc):
            return 'audit(sshv=%d):%s' % (self.sshv, r.type)
        return label


class VersionFallback(Harness):
    """default options (SSH-1 and SSH-2 enabled): a peer that answers every attempt with 'Protocol major versions differ.' makes the audit fall back to SSH-1
    exactly once: at most two connections, documented status, no report."""
    prop, ob = PROP, 'O7'
    width = 64

    def __init__(self, n):
        self.n = n
        self.name = 'version-fallback-%d' % n

    def params(self):
        return {'n': self.n}

    def inputs(self):
        t = zx.fresh_str('t', self.n, ((97, 122),))
        return {'tail': t.encode('ascii') if not isinstance(t, str) else t.encode()}

    def run(self, M, inp):
        if zx.active():
            zx.cur().stdout = []
        msg = b'Protocol major versions differ.'
        conns = [AE.Conn([BANNER, msg + (b'\n' if i == 0 else inp['tail'] + b'\n')], 'close') for i in range(5)]
        r = AE.run_audit(M, conns, ssh1=True, ssh2=True)
        return {'ret': r['ret'], 'alg': has_alg_lines(r['lines']), 'nconn': len([c for c in r['net'].made if c.recv_calls > 0 or c.connected_to])}

    def check(self, inp, obs):
        st = status_of(obs['ret'])
        yield 'documented-status', st is not None
        yield 'at-most-two-connections', obs['nconn'] <= 2
        yield 'no-report', not obs['alg']


def first_packet_type(conn):
    """type of the first binary packet the tool sent on a scripted connection (after its identification line), or None if it sent none / the bytes are not
    concrete; -1 if the packet is not framed per RFC 4253 section 6"""
    data = b''
    for d in getattr(conn, 'sent', []):
        if not isinstance(d, (bytes, bytearray)):
            return None
        data += bytes(d)
    i = data.find(b'\n')
    if i < 0 or not data.startswith(b'SSH-'):
        return None if not data else -1
    rest = data[i + 1:]
    if len(rest) < 6:
        return None if not rest else -1
    ln = int.from_bytes(rest[:4], 'big')
    pad = rest[4]
    if (ln + 4) % 8 or pad < 4 or ln < pad + 2 or len(rest) < ln + 4:
        return -1
    return rest[5]


class AuditProbe(Harness):
    """real audit() with a well-formed first connection; the probe connections misbehave (arbitrary reply packet).  The audit must
    still end with a complete algorithm report and a status from {0,2,3}."""
    prop, ob = PROP, 'O7'
    width = 64

    def __init__(self, scenario, n, ptype=None):
        self.scenario, self.n, self.ptype = scenario, n, ptype
        self.name = 'audit-probe-%s-%d-t%s' % (scenario, n, ptype)
        self.cost = 3 ** max(0, n - 8)
        self.deadline_s = 1500
        self.width = 64 if scenario != 'gexgroup' else 200

    def params(self):
        return {'scenario': self.scenario, 'n': self.n, 'ptype': self.ptype}

    def inputs(self):
        d = {'x': zx.fresh_bytes('x', self.n), 'r': zx.fresh_int('r', 0, 1 << 130)}
        d['t'] = zx.fresh_bytes('t', 1) if self.ptype is None else bytes([self.ptype])
        return d

    def run(self, M, inp):
        if zx.active():
            zx.cur().stdout = []
        sc = self.scenario
        pkt = AE.frame(inp['t'] + inp['x'])
        if sc == 'hostkey-rsa':
            kex, key = ['diffie-hellman-group14-sha256'], ['ssh-rsa']
            conns = [AE.Conn([BANNER, kexinit_pkt(kex, key)]), AE.Conn([BANNER, kexinit_pkt(kex, key), pkt])]
        elif sc == 'hostkey-ed25519':
            kex, key = ['curve25519-sha256'], ['ssh-ed25519']
            conns = [AE.Conn([BANNER, kexinit_pkt(kex, key)]), AE.Conn([BANNER, kexinit_pkt(kex, key), pkt])]
        elif sc == 'hostkey-via-gex':
            kex, key = ['diffie-hellman-group-exchange-sha256'], ['ssh-ed25519']
            conns = [AE.Conn([BANNER, kexinit_pkt(kex, key)]), AE.Conn([BANNER, kexinit_pkt(kex, key), pkt])]
        elif sc == 'gexgroup':
            kex, key = ['curve25519-sha256', 'diffie-hellman-group-exchange-sha256'], ['unknown-key-type']
            conns = [AE.Conn([BANNER, kexinit_pkt(kex, key)]), AE.Conn([BANNER, kexinit_pkt(kex, key), pkt])]
        elif sc == 'nonutf8-name':
            # well-formed KEXINIT whose cipher / language name-lists carry arbitrary bytes; the probes echo these lists back to the server
            kex, key = ['diffie-hellman-group14-sha256', 'diffie-hellman-group-exchange-sha256'], ['ssh-rsa']
            nm = b'aes256-ctr' + inp['t']
            pl = AE.kexinit_payload(kex, key, nm, ['hmac-sha2-256'], lang=b'x' + inp['x'][:1])
            conns = [AE.Conn([BANNER, AE.frame(pl)])] + [AE.Conn([BANNER, AE.frame(pl)], 'close') for _ in range(3)]
        elif sc == 'probe-kexinit':
            # the probe connection answers the banner, then arbitrary bytes instead of its KEXINIT
            kex, key = ['diffie-hellman-group14-sha256'], ['ssh-rsa']
            conns = [AE.Conn([BANNER, kexinit_pkt(kex, key)]), AE.Conn([BANNER, inp['t'] + inp['x']])]
        else:
            raise ValueError(sc)
        x = inp['r']

        class Rnd:
            class SystemRandom:
                def randrange(self, a, b=None):
                    if zx.is_sym(a) or zx.is_sym(b):
                        if not bool(a < b):
                            raise ValueError('empty range for randrange()')
                        if zx.active():
                            zx.cur().assume(s_and(a <= x, x < b))
                        return x
                    if not a < b:
                        raise ValueError('empty range for randrange()')
                    return a if not (isinstance(x, int) and a <= x < b) else x

        def pow_hook(g, e, p):
            p = zx.force(p)
            if bool(p == 0):
                raise ValueError('pow() 3rd argument cannot be 0')
            return 1
        if zx.active():
            zx.cur().pow_hook = pow_hook
        with AE.patched(M.kexdh, random=Rnd):
            r = AE.run_audit(M, conns)
        nets = r['net'].made
        return {'ret': r['ret'], 'alg': has_alg_lines(r['lines']), 'nconn': len(nets), 'allclosed': all(c.closed or c.shut for c in nets), 'starts_ok': all(first_packet_type(c) in (None, 20) for c in nets)}

    def check(self, inp, obs):
        st = status_of(obs['ret'])
        yield 'documented-status', st is not None
        if st is not None:
            yield 'report-complete-after-probe-misbehaviour', obs['alg'] and st in (0, 2, 3)
        # on every connection the first thing the tool sends after its identification string is a well-framed KEXINIT (nothing left over from an earlier, failed exchange)
        yield 'every-connection-starts-with-a-well-framed-kexinit', obs['starts_ok']

    def classify(self, inp, obs, label):
        r = obs['ret']
        if isinstance(r, Exc):
            return 'audit-probe(%s):%s' % (self.scenario, r.type)
        return label


class BannerVersion(Harness):
    """real audit() of a server whose handshake is well-formed and whose identification string names a recognised product followed by ARBITRARY version text
    (digits, dots, 'p'): whatever the version looks like (empty components, leading dot, ...) the audit ends with a complete report and a status from {0,2,3}."""
    prop, ob = PROP, 'O7'
    width = 64
    VCH = ((0x30, 0x39), (0x2E, 0x2E), (0x70, 0x70))

    def __init__(self, product, n):
        self.product, self.n = product, n
        self.name = 'banner-version-%s-%d' % (product.strip('_-'), n) + ('dash' if product.endswith('-') else '')
        self.deadline_s = 1500

    def params(self):
        return {'product': self.product, 'n': self.n}

    def inputs(self):
        return {'v': zx.fresh_str('v', self.n, self.VCH)}

    def run(self, M, inp):
        if zx.active():
            zx.cur().stdout = []
        ban = b'SSH-2.0-' + self.product.encode() + inp['v'].encode('utf-8') + b'\r\n'
        pk = kexinit_pkt(['curve25519-sha256', 'diffie-hellman-group14-sha1'], ['ssh-ed25519', 'ssh-rsa'])
        conns = [AE.Conn([ban, pk])] + [AE.Conn([ban, pk], 'close') for _ in range(6)]
        r = AE.run_audit(M, conns)
        return {'ret': r['ret'], 'alg': has_alg_lines(r['lines'])}

    def check(self, inp, obs):
        st = status_of(obs['ret'])
        yield 'documented-status', st is not None
        if st is not None:
            yield 'report-complete-whatever-the-version-text', obs['alg'] and st in (0, 2, 3)

    def classify(self, inp, obs, label):
        r = obs['ret']
        if isinstance(r, Exc):
            return 'banner-version(%s):%s' % (self.product, r.type)
        return label


class ClientStall(Harness):
    """client audit (-c): real audit() -> real listen_and_accept() on a listening-socket model in which (as in CPython) the accepted connection starts WITHOUT a
    timeout; the connecting client sends a prefix of a well-formed handshake (plus one arbitrary byte) and then stalls with the connection open.  The audit
    ends through a documented status - it never sits in a read that nothing will end."""
    prop, ob = PROP, 'O8'
    width = 64
    STAGES = ('nothing', 'mid-banner', 'after-banner', 'mid-kexinit', 'after-kexinit')

    def __init__(self, stage, v6=True):
        self.stage, self.v6 = stage, v6
        self.name = 'client-stall-%s%s' % (stage, '' if v6 else '-v4only')

    def params(self):
        return {'stage': self.stage, 'v6': self.v6}

    def inputs(self):
        x = zx.fresh_bytes('x', 1)
        if zx.active():
            zx.cur().assume(s_or(x[0] == 0, x[0] == 65, x[0] == 10))     # echoed in error texts: three representatives
        return {'x': x}

    def run(self, M, inp):
        if zx.active():
            zx.cur().stdout = []
        banner = b'SSH-2.0-OpenSSH_8.0\r\n'
        kp = kexinit_pkt(['curve25519-sha256'], ['ssh-ed25519'])
        chunks = {'nothing': [], 'mid-banner': [banner[:9] + inp['x']], 'after-banner': [banner, inp['x']], 'mid-kexinit': [banner, kp[:30] + inp['x']],
                  'after-kexinit': [banner, kp]}[self.stage]
        client = AE.Conn(chunks, 'timeout')
        net = AE.ListenNet(client, self.v6)
        import io, contextlib
        with contextlib.redirect_stderr(io.StringIO()):
            r = AE.run_audit(M, [], net=net, client_audit=True, port=2222)
        return {'ret': r['ret'], 'alg': has_alg_lines(r['lines']), 'timeout_on_accepted': client.timeout is not None}

    def check(self, inp, obs):
        r = obs['ret']
        hang = isinstance(r, Exc) and r.type == 'Hang'
        yield 'terminates-when-the-client-stalls', not hang
        if hang:
            return
        st = status_of(r)
        yield 'documented-status', st is not None
        if self.stage == 'after-kexinit' and st is not None:
            yield 'report-complete-for-a-well-formed-client', obs['alg'] and st in (0, 2, 3)
        yield 'accepted-connection-has-the-configured-timeout', obs['timeout_on_accepted']


class Ssh1Masks(Harness):
    """SSH-1: a well-formed public-key message whose cipher / authentication bit masks carry ARBITRARY bits above the ones the tool has names for (vendor
    extension bits, a flipped bit): the real output() still ends with a complete report and a documented status - in text and in JSON."""
    prop, ob = PROP, 'O7'
    width = 64

    def __init__(self, which, json):
        self.which, self.json = which, json
        self.name = 'ssh1-masks-%s-%s' % (which, 'json' if json else 'text')

    def params(self):
        return {'which': self.which, 'json': self.json}

    def inputs(self):
        return {'hi': zx.fresh_int('hi', 1, (1 << 25) - 1)}

    def run(self, M, inp):
        from props import outlib as OL
        hi = inp['hi']
        cmask, amask = 0x48, 0x0C
        if self.which in ('ciphers', 'both'):
            cmask = cmask | (hi << 7)
        if self.which in ('auths', 'both'):
            amask = amask | (hi << 7)
        pkm = M.ssh1_publickeymessage.SSH1_PublicKeyMessage(b'\x00' * 8, (768, 3, 5), (1024, 3, 7), 2, cmask, amask)
        r = OL.run_output(M, None, sw='OpenSSH_3.4p1', pkm=pkm, protocol=(1, 5), json=self.json)
        if isinstance(r['ret'], Exc):
            return {'ret': r['ret']}
        if self.json:
            return {'ret': r['ret'], 'complete': isinstance(r['doc'], dict)}
        return {'ret': r['ret'], 'complete': any(OL._starts(ln, '(enc) 3des') for ln in r['lines']) and any(OL._starts(ln, '(aut) ') for ln in r['lines'])}

    def check(self, inp, obs):
        st = status_of(obs['ret'])
        yield 'documented-status', st is not None
        if st is not None:
            yield 'report-complete-whatever-the-unknown-mask-bits', obs['complete'] and st in (0, 2, 3)

    def classify(self, inp, obs, label):
        r = obs['ret']
        if isinstance(r, Exc):
            return 'ssh1-masks(%s):%s' % (self.which, r.type)
        return label


class NameControlChars(Harness):
    """a peer cannot rewrite the auditor's terminal through an algorithm NAME: a name with one arbitrary control character (ESC, CR, BEL, BS, DEL, ...) in any
    category is rendered by the real output() without that character reaching the text report (the per-algorithm line and the unknown-algorithms notice)."""
    prop, ob = PROP, 'O7'
    width = 64

    def __init__(self, cat):
        self.cat = cat
        self.name = 'name-control-chars-%s' % cat

    def params(self):
        return {'cat': self.cat}

    def inputs(self):
        return {'c': zx.fresh_str('c', 1, ((0x01, 0x09), (0x0B, 0x1F), (0x7F, 0x7F)))}

    def run(self, M, inp):
        from props import outlib as OL
        L = {c: ['x'] for c in OL.CATS}
        if self.cat == 'gss':
            # a key exchange of a known GSS family whose mechanism part carries the control character: it is rated AND recommended for removal, so the
            # name also reaches the '(rec)' lines
            L['kex'] = ['gss-group1-sha1-ab' + inp['c'] + 'cd', 'x']
        else:
            L[self.cat] = ['ab' + inp['c'] + 'cd', 'x']
        r = OL.run_output(M, L)
        if isinstance(r['ret'], Exc):
            return {'exc': r['ret']}
        bad = 0
        for ln in r['lines']:
            for i in range(len(ln)):
                ch = zx.shims.z_ord(ln[i]) if not isinstance(ln, str) else ord(ln[i])
                if bool(zx.s_and(ch != 10, zx.s_or(ch < 32, ch == 127))):
                    bad += 1
        return {'control_chars_in_report': bad, 'ret': r['ret']}

    def check(self, inp, obs):
        if 'exc' in obs:
            yield 'no-exception', False
            return
        yield 'no-control-character-reaches-the-text-report', obs['control_chars_in_report'] == 0


class KexinitTail(Harness):
    """a correctly framed first KEXINIT whose PAYLOAD lacks its last n bytes (the first_kex_packet_follows flag and the reserved uint32 are incomplete): not a
    well-formed handshake - status 1 and no algorithm report; the complete message is accepted."""
    prop, ob = PROP, 'O7'
    width = 64

    def __init__(self, n):
        self.n = n
        self.name = 'kexinit-tail-minus-%d' % n

    def params(self):
        return {'n': self.n}

    def inputs(self):
        b = zx.fresh_bytes('ck', 1)
        if zx.active():
            zx.cur().assume(s_or(b[0] == 0, b[0] == 0x41))
        return {'ck': b}

    def run(self, M, inp):
        if zx.active():
            zx.cur().stdout = []
        full = AE.kexinit_payload(['curve25519-sha256'], ['unknown-key-type'], ['aes128-ctr'], ['hmac-sha2-256'])
        full = full[:1] + inp['ck'] + full[2:]          # one (rendered) cookie byte is symbolic
        pkt = AE.frame(full[:len(full) - self.n])
        conns = [AE.Conn([BANNER, pkt], 'close')] + [AE.Conn([BANNER, pkt], 'close') for _ in range(3)]
        r = AE.run_audit(M, conns)
        return {'ret': r['ret'], 'alg': has_alg_lines(r['lines'])}

    def check(self, inp, obs):
        st = status_of(obs['ret'])
        yield 'documented-status', st is not None
        if self.n == 0:
            yield 'complete-message-accepted', obs['alg'] and st in (0, 2, 3)
        else:
            yield 'message-without-its-last-bytes-is-not-a-handshake', st == 1 and not obs['alg']


class PaddingCut(Harness):
    """the first KEXINIT packet is cut k bytes before its end (inside the trailing padding) and the peer closes: the handshake is not well-formed, so the audit
    ends with status 1 and no algorithm report; the same bytes delivered in full are accepted."""
    prop, ob = PROP, 'O7'
    width = 64

    def __init__(self, k, padlen=8):
        self.k, self.padlen = k, padlen
        self.name = 'padding-cut-%d-of-%d' % (k, padlen)

    def params(self):
        return {'k': self.k, 'padlen': self.padlen}

    def inputs(self):
        # the packet's bytes are echoed in the error text; two representative padding values keep that rendering enumerable
        b = zx.fresh_bytes('padbyte', 1)
        if zx.active():
            zx.cur().assume(s_or(b[0] == 0, b[0] == 0x41))
        return {'pad': b + b'\x00' * (self.padlen - 1)}

    def run(self, M, inp):
        if zx.active():
            zx.cur().stdout = []
        payload = AE.kexinit_payload(['curve25519-sha256'], ['unknown-key-type'], ['aes128-ctr'], ['hmac-sha2-256'])
        # independent framing with an explicit padding length (RFC 4253 section 6): length = 1 + payload + padding, total a multiple of 8
        base = (1 + len(payload) + 4) % 8
        padlen = self.padlen
        while (base + padlen) % 8 or padlen < 4:
            padlen += 1
        pad = inp['pad'] + b'\x00' * (padlen - self.padlen)
        pkt = AE.u32(1 + len(payload) + padlen) + bytes([padlen]) + payload + pad
        conns = [AE.Conn([BANNER, pkt[:len(pkt) - self.k]], 'close')] + [AE.Conn([BANNER, pkt], 'close') for _ in range(3)]
        r = AE.run_audit(M, conns)
        return {'ret': r['ret'], 'alg': has_alg_lines(r['lines']), 'nconn': len(r['net'].made)}

    def check(self, inp, obs):
        st = status_of(obs['ret'])
        yield 'documented-status', st is not None
        if self.k == 0:
            yield 'complete-packet-accepted', obs['alg'] and st in (0, 2, 3)
        else:
            yield 'packet-cut-inside-its-padding-is-not-a-handshake', st == 1 and not obs['alg'] and obs['nconn'] == 1


def tasks(tier):
    q = tier == 'quick'
    T = []
    for prefix, k, suffix in ([(b'', 1, b''), (b'', 2, b'\r\n'), (b'SSH-2.0-x', 1, b'\n'), (b'a\n', 1, b'SSH-2.0-y\r\n'), (b'SSH-2.', 2, b'')] if q else
                             [(b'', 1, b''), (b'', 2, b'\r\n'), (b'', 3, b''), (b'SSH-2.0-x', 1, b'\n'), (b'SSH-2.0-x', 2, b'\n'), (b'a\n', 1, b'SSH-2.0-y\r\n'),
                              (b'a\n', 2, b'SSH-2.0-y\r\n'), (b'SSH-2.', 2, b''), (b'SSH-2.', 3, b'\r\n')]):
        for chunking in ('one', 'bytes', '1'):
            for end in ('close', 'timeout', 'reset'):
                if q and end == 'reset' and chunking != 'one':
                    continue
                T.append(BannerLoop(prefix, k, suffix, chunking, end))
    for n in (range(0, 13) if q else range(0, 25)):
        T.append(PacketReader(2, n))
    for n in ((0, 3, 5, 8, 9, 12) if q else range(0, 17)):
        T.append(PacketReader(2, n, 'bytes', 'timeout'))
    for n in ((0, 4, 8, 12, 16) if q else range(0, 21)):
        T.append(PacketReader(1, n))
    for n in ([0, 15, 16, 19, 20, 21, 22] if q else list(range(0, 24))):
        T.append(ParseTotal('kex', n))
    for i in range(10):
        T.append(ParseKexField(i, 1))
    for n in (range(0, 25, 4) if q else range(0, 33)):
        T.append(ParseTotal('pkm', n))
    for n in ((0, 3, 4, 8, 12, 16, 20) if q else range(0, 27)):
        T.append(RecvReply(n))
    for n in ((0, 4, 8) if q else (0, 3, 4, 8, 16)):
        T.append(RecvReply(n, False))
    T.append(RecvReply(4, True, 5))
    T.append(RecvReply(4, True, -1))
    for n in ((0, 3, 4, 5, 8, 9, 10) if q else range(0, 15)):
        T.append(GexInit(n))
    T.append(GexInit(4, 5))
    for b in ((4096, 8192, 16384, 65536) if q else (1024, 4096, 8192, 8200, 16384, 65536, 262144)):
        T.append(GexOversized(b))
    T.append(GexInit(4, -1))
    for n in ((0, 1, 3) if q else range(0, 5)):
        T.append(AuditFirstConn(n, 2))
    for n in ((5, 8, 12) if q else range(4, 17)):
        T.append(AuditFirstConn(n, 2, 'close', False, 'lower'))
    T.append(AuditFirstConn(4, 2, 'timeout', False, 'lower'))
    for lead in (1, 2):
        for n in (0, 2, 6):
            T.append(AuditFirstConn(n, 2, 'close', False, 'any', lead))
        T.append(AuditFirstConn(62, 2, 'close', True, 'any', lead))      # even a complete KEXINIT after debug messages: how the tool treats it is its choice - only the end state is checked
    for n in ((0, 15, 16, 20) if q else list(range(0, 24, 2))):
        T.append(AuditFirstConn(n, 2, 'close', True))
    for n in ((0, 2) if q else range(0, 4)):
        T.append(AuditFirstConn(n, 1))
    for n in ((6, 12) if q else range(4, 17, 2)):
        T.append(AuditFirstConn(n, 1, 'close', False, 'lower'))
    for n in ((0, 7, 12) if q else range(0, 21, 2)):      # longer SSH-1 payloads need wider integers (mpint fields): unit level O3 covers them
        T.append(AuditFirstConn(n, 1, 'close', True))
    for n in ((0, 1) if q else (0, 1, 2)):
        T.append(VersionFallback(n))
    T.append(AuditProbe('nonutf8-name', 1))
    T.append(AuditProbe('nonutf8-name', 0))
    for sc in ('hostkey-rsa', 'hostkey-ed25519', 'hostkey-via-gex', 'gexgroup', 'probe-kexinit'):
        for n in ((0, 4, 8) if q else (0, 3, 4, 7, 8, 12, 16)):
            if sc == 'gexgroup' and n > 12:
                continue      # a group message of more than 12 arbitrary bytes: the modulus arithmetic (200-bit integers) does not finish within the deadline
            T.append(AuditProbe(sc, n))
        T.append(AuditProbe(sc, 12 if q else (20 if sc not in ('hostkey-via-gex', 'gexgroup') else (14 if sc == 'hostkey-via-gex' else 12)), 31))
    for prod in ('OpenSSH_', 'dropbear_', 'libssh_', 'libssh-'):
        for n in (((1, 2) if prod == 'OpenSSH_' else (1, 2, 3)) if q else (1, 2, 3, 4)):
            T.append(BannerVersion(prod, n))
    for k in ((0, 1, 4, 8) if q else range(0, 9)):
        T.append(PaddingCut(k))
    for n in range(0, 6):
        T.append(KexinitTail(n))
    for cat in ('kex', 'key', 'enc', 'mac', 'gss'):
        T.append(NameControlChars(cat))
    for which in ('ciphers', 'auths', 'both'):
        for json in (False, True):
            T.append(Ssh1Masks(which, json))
    for stage in ClientStall.STAGES:
        T.append(ClientStall(stage))
    T.append(ClientStall('after-banner', False))
    if not q:
        for k in (1, 5):
            T.append(PaddingCut(k, 12))
    return T


def harness_by_name(name, params):
    k = name.split(':')[1]
    if k.startswith('bannerloop'):
        return BannerLoop(bytes.fromhex(params['prefix']), params['k'], bytes.fromhex(params['suffix']), params['chunking'], params['end'])
    if k.startswith('readpacket'):
        return PacketReader(params['sshv'], params['n'], params['chunking'], params['end'])
    if k.startswith('parse-kexfield'):
        return ParseKexField(params['i'], params['blen'])
    if k.startswith('parse-'):
        return ParseTotal(params['which'], params['n'])
    if k.startswith('recvreply'):
        return RecvReply(params['n'], params['parse_size'], params['ptype'])
    if k.startswith('gexoversized'):
        return GexOversized(params['bits'])
    if k.startswith('gexinit'):
        return GexInit(params['n'], params['ptype'])
    if k.startswith('version-fallback'):
        return VersionFallback(params['n'])
    if k.startswith('audit-first'):
        return AuditFirstConn(params['n'], params['sshv'], params['end'], params['framed'], params.get('dom', 'any'), params.get('lead', 0))
    if k.startswith('banner-version'):
        return BannerVersion(params['product'], params['n'])
    if k.startswith('client-stall'):
        return ClientStall(params['stage'], params.get('v6', True))
    if k.startswith('ssh1-masks'):
        return Ssh1Masks(params['which'], params['json'])
    if k.startswith('name-control-chars'):
        return NameControlChars(params['cat'])
    if k.startswith('kexinit-tail'):
        return KexinitTail(params['n'])
    if k.startswith('padding-cut'):
        return PaddingCut(params['k'], params.get('padlen', 8))
    if k.startswith('audit-probe'):
        return AuditProbe(params['scenario'], params['n'], params['ptype'])
    raise KeyError(name)


META = {
    'functions': ['SSH_Socket.get_banner/recv/read_packet/ensure_read/connect/close', 'SSH2_Kex.parse', 'SSH1_PublicKeyMessage.parse', 'ReadBuf.*',
                  'KexDH.recv_reply/__parse_ca_key/__get_bytes', 'KexGroupExchange.send_init_gex', 'KexDH.send_init/set_params',
                  'audit()', 'HostKeyTest.run/perform_test', 'GEXTest.run/_send_init/reconnect', 'output()'],
    'bounds': {'quick': 'banner streams: fixed prefix + 1..2 arbitrary bytes, 3 chunkings x 3 end events; packet reader: every stream of 0..12 arbitrary bytes '
                        '(SSH-2), 0..16 (SSH-1); KEXINIT payloads 0..24 and 61..62 arbitrary bytes; PKM payloads 0..40; KEX reply payloads 0..20; GEX group '
                        'payloads 0..10; whole audit(): first connection with 0..9 raw / 0..20 framed arbitrary bytes, probe connections with arbitrary '
                        'reply packets of 0..12 bytes in 5 scenarios',
               'thorough': 'packet reader 0..24; KEXINIT 0..40,61..72; replies 0..26; audit-level raw 0..13, framed up to 61, probe replies up to 20'},
    'outside': ['wall-clock time (replaced by: every loop over peer data consumes input or ends; recv calls <= chunks+1)', 'inputs longer than the bounds',
                'rate test phase (C19)', 'well-formed-but-hostile large values beyond the ambient width'],
    'stubs': ['socket: scripted connections (FakeNet/Conn/ScriptSock); recv returns the scripted chunks then close/timeout/reset',
              'random.SystemRandom.randrange: arbitrary value in range / ValueError on empty range', 'pow(g,x,p): ValueError iff p == 0 else arbitrary',
              'SSH1.crc32: arbitrary 32-bit value (CRC correctness is C10/O6)', 'os.urandom: real'],
    'assumptions': ['OS contract: every socket call returns within the configured timeout'],
}
