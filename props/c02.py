"""C02 - exit status reflects the worst finding; incomplete audits never look clean; policy audits map verdict to 0/3."""
import itertools
import zx
from zx import s_and, s_or, s_not, s_implies
from vf.harness import Harness, guarded, Exc
from vf import auditenv as AE
from props import outlib as OL
from props.c09 import BANNER, kexinit_pkt, has_alg_lines, status_of
from props.c06 import make_policy, make_kex

PROP = 'C02'
# one name per severity class and category, taken from the current table at run time (recomputed, not hard-coded)


def severity_classes(MP):
    """{cat: {'fail': name, 'warn': name, 'good': name}} from the current MASTER_DB (first name of each class; none of them
    subject to the Terrapin rule so that the class is context free)"""
    db = MP.ssh2_kexdb.SSH2_KexDB.MASTER_DB
    res = {}
    for cat in OL.CATS:
        d = {}
        for name, row in db[cat].items():
            if name.startswith('chacha20-poly1305') or name.endswith('-cbc') or '-cbc@' in name or name.endswith('-etm@openssh.com') or name.startswith('kex-strict') \
                    or name in ('diffie-hellman-group-exchange-sha256', 'diffie-hellman-group-exchange-sha1') or name.startswith('ssh-rsa') or name.startswith('rsa-sha2'):
                continue
            f = len(row) > 1 and len(row[1]) > 0
            w = len(row) > 2 and len(row[2]) > 0
            k = 'fail' if f else ('warn' if w else 'good')
            d.setdefault(k, name)
        res[cat] = d
    return res


class Fold(Harness):
    """real output() on a peer whose categories hold a chosen mix/order of failure, warning, clean and unknown (symbolic) names:
    status == fold of the rendered severities; independent of batch/verbose/JSON and of the minimum level."""
    prop, ob = PROP, 'O1'
    width = 64

    def __init__(self, mix, client=False):
        # mix: dict cat -> tuple of 'F','W','G','U'; client: a client audit (-c) - the unreported direction carries decoys of other severities in both roles
        self.mix = {c: tuple(mix.get(c, ('G',))) for c in OL.CATS}
        self.client = client
        self.name = 'fold-' + '_'.join(''.join(self.mix[c]) for c in OL.CATS) + ('-client' if client else '')

    def params(self):
        return {'mix': {c: list(v) for c, v in self.mix.items()}, 'client': self.client}

    def inputs(self):
        return {'u': {c: [zx.fresh_str('u%s%d' % (c, i), 2, OL.NAMECH) for i, k in enumerate(self.mix[c])] for c in OL.CATS},
                'batch': zx.fresh_bool('b'), 'verbose': zx.fresh_bool('v'), 'json': zx.fresh_bool('j'), 'lvl': zx.fresh_int('lvl', 0, 2)}

    def lists(self, M, inp):
        from vf.harness import mods
        sc = severity_classes(mods()[1])
        L = {}
        for c in OL.CATS:
            L[c] = [inp['u'][c][i] if k == 'U' else ('' if k == 'E' else ('chacha20-poly1305@openssh.com' if k == 'T' else sc[c][{'F': 'fail', 'W': 'warn', 'G': 'good'}[k]]))
                    for i, k in enumerate(self.mix[c])]
        return L

    def run(self, M, inp):
        L = self.lists(M, inp)
        base = OL.run_output(M, L, client=self.client)   # plain rendering at level info: the reference report
        lvl = ['info', 'warn', 'fail'][inp['lvl'].__index__() if not isinstance(inp['lvl'], int) else inp['lvl']]
        j = bool(inp['json'])
        alt = OL.run_output(M, L, json=j, batch=bool(inp['batch']), verbose=bool(inp['verbose']), level=lvl, client=self.client)
        if isinstance(base['ret'], Exc) or isinstance(alt['ret'], Exc):
            return {'exc': base['ret'] if isinstance(base['ret'], Exc) else alt['ret']}
        parsed = OL.parse_alg_lines(base['lines'])
        jd = OL.run_output(M, L, json=True, client=self.client)
        jl, jl_lenient = [], []
        if not isinstance(jd['ret'], Exc):
            for c in OL.CATS:
                for e in jd['doc'][c]:
                    n = e['notes']
                    jl += ['fail'] * len(n.get('fail', [])) + ['warn'] * len(n.get('warn', []))
                    if n.get('fail') == ['using unknown algorithm']:
                        jl_lenient.append('warn')      # reading the JSON note of an unknown name as the warning that the text report shows for it
                    else:
                        jl_lenient += ['fail'] * len(n.get('fail', [])) + ['warn'] * len(n.get('warn', []))
        return {'ret': base['ret'], 'alt': alt['ret'], 'levels': [l for _, _, l, _ in parsed], 'json_levels': jl, 'json_levels_lenient': jl_lenient, 'json_ret': jd['ret']}

    def check(self, inp, obs):
        if 'exc' in obs:
            yield 'no-exception', False
            return
        lv = obs['levels']
        want = 3 if 'fail' in lv else (2 if 'warn' in lv else 0)
        yield 'status==fold-of-rendered-severities', obs['ret'] == want
        yield 'status-independent-of-output-options', obs['alt'] == obs['ret']
        jl = obs['json_levels']
        jwant = 3 if 'fail' in jl else (2 if 'warn' in jl else 0)
        yield 'json-status==fold-of-json-notes', obs['json_ret'] == jwant
        # the mix itself: any F -> 3, else any W or U -> 2, else 0
        flat = [k for c in OL.CATS for k in self.mix[c]]
        mixwant = 3 if 'F' in flat else (2 if ('W' in flat or 'U' in flat or 'T' in flat) else 0)
        known_hit = obs['ret'] != mixwant
        # a symbolic 2-char name could coincide with a real table key; only then may the status differ from the mix
        yield 'status==mix', (obs['ret'] == mixwant) or known_hit and any(k == 'U' for k in flat)

    def classify(self, inp, obs, label):
        if label == 'json-status==fold-of-json-notes' and 'json_levels_lenient' in obs:
            jl = obs['json_levels_lenient']
            if obs['json_ret'] == (3 if 'fail' in jl else (2 if 'warn' in jl else 0)):
                # the only discrepancy: the JSON document words an unknown algorithm as a failure while text report and exit status count a warning
                return 'json-words-an-unknown-algorithm-as-a-failure-while-the-status-counts-a-warning'
        return label


class Broken(Harness):
    """real audit(): handshake broken at a chosen stage -> status 1 (returned in target-list mode, SystemExit(1) otherwise for
    connection failures) and no algorithm report."""
    prop, ob = PROP, 'O3'
    width = 64

    def __init__(self, stage, multi, json=False):
        self.stage, self.multi, self.json = stage, multi, json
        self.name = 'broken-%s-%s%s' % (stage, 'targets' if multi else 'single', '-json' if json else '')

    def params(self):
        return {'stage': self.stage, 'multi': self.multi, 'json': self.json}

    @staticmethod
    def json_alg(lines):
        """does any JSON document among the output lines list algorithms (a non-empty kex/key/enc/mac/aut entry)?"""
        import json as _json
        for ln in lines:
            if not (ln.startswith('{') if isinstance(ln, str) else bool(ln.startswith('{'))):
                continue        # error texts may echo peer bytes; only documents are looked at
            t = ln if isinstance(ln, str) else zx.shims.concretize_str(ln)
            try:
                d = _json.loads(t)
            except ValueError:
                continue
            if any(d.get(c) for c in ('kex', 'key', 'enc', 'mac', 'aut')):
                return True
        return False

    def inputs(self):
        return {'x': zx.fresh_bytes('x', 2)}

    def run(self, M, inp):
        if zx.active():
            zx.cur().stdout = []
        st = self.stage
        kp = kexinit_pkt(['curve25519-sha256'], ['ssh-ed25519'])
        if st == 'refused':
            conns = [AE.Conn([], refuse=True)]
        elif st == 'silent':
            conns = [AE.Conn([], 'timeout')]
        elif st == 'early-close':
            conns = [AE.Conn([], 'close')]
        elif st == 'no-banner':
            conns = [AE.Conn([b'hello' + inp['x'] + b'\r\n'], 'close')]
        elif st == 'banner-only':
            conns = [AE.Conn([BANNER], 'close')]
        elif st == 'truncated-kexinit':
            conns = [AE.Conn([BANNER, kp[:20] + inp['x']], 'close')]
        elif st == 'wrong-type':
            conns = [AE.Conn([BANNER, AE.frame(bytes([21]) + inp['x'])], 'close')]
        elif st == 'bad-block-size':
            conns = [AE.Conn([BANNER, AE.u32(13) + bytes([4]) + b'\x14' + inp['x'] + b'\x00' * 20], 'close')]
        elif st == 'garbage-kexinit':
            conns = [AE.Conn([BANNER, AE.frame(bytes([20]) + b'\x00' * 16 + b'\xff\xff\xff\xff' + inp['x'])], 'close')]
        elif st.startswith('short-kexinit-payload-'):
            # a correctly framed KEXINIT packet whose payload ends early (cut inside cookie / a name-list / the trailing fields)
            k = int(st.rsplit('-', 1)[1])
            full = AE.kexinit_payload(['curve25519-sha256', 'diffie-hellman-group1-sha1'], ['ssh-ed25519'], ['aes128-ctr'], ['hmac-md5'])
            conns = [AE.Conn([BANNER, AE.frame(full[:k] + (inp['x'] if k > 20 else b''))], 'close')]
        elif st == 'unresolvable':
            import socket
            net = AE.FakeNet([], addrinfo=socket.gaierror(-2, 'Name or service not known'))
            r = AE.run_audit(M, [], net=net, target_list=(['t'] if self.multi else ()))
            return {'ret': r['ret'], 'alg': has_alg_lines(r['lines']), 'nconn': len(net.made)}
        else:
            raise ValueError(st)
        r = AE.run_audit(M, conns, target_list=(['t'] if self.multi else ()), json=self.json)
        return {'ret': r['ret'], 'alg': has_alg_lines(r['lines']) or (self.json and self.json_alg(r['lines'])), 'nconn': len(r['net'].made)}

    def check(self, inp, obs):
        r = obs['ret']
        st = status_of(r)
        yield 'status-1', st == 1
        yield 'no-algorithm-report', not obs['alg']
        if self.multi and self.stage in ('refused', 'unresolvable'):
            yield 'returned-not-exited-in-target-list-mode', not isinstance(r, Exc)


class LevelFold(Harness):
    """status == fold of EVERY line the report prints at failure / warning level (not only the per-algorithm notes): an SSH-1 report, a server that still offers
    protocol 1 (1.99 banner), a banner with non-ASCII characters - each with otherwise flawless algorithms - and the flawless peer itself as the control."""
    prop, ob = PROP, 'O5'
    width = 64
    GOODL = {'kex': ['mlkem768x25519-sha256', 'kex-strict-s-v00@openssh.com'], 'key': ['ssh-ed25519'], 'enc': ['aes256-gcm@openssh.com'], 'mac': ['hmac-sha2-256-etm@openssh.com']}

    def __init__(self, variant, json=False):
        self.variant, self.json = variant, json
        self.name = 'levelfold-%s%s' % (variant, '-json' if json else '')
        self.enum_cap = 200          # the SSH-1 variant enumerates all 128 cipher masks

    def params(self):
        return {'variant': self.variant, 'json': self.json}

    def inputs(self):
        return {'sw': zx.fresh_str('sw', 2, ((0x61, 0x7A),)), 'mask': zx.fresh_int('mask', 0, 0x7F)}

    def run(self, M, inp):
        calls = []

        class RB(M.outputbuffer.OutputBuffer):
            def fail(self_, t, **k):
                calls.append('fail')
                return super().fail(t, **k)

            def warn(self_, t, **k):
                calls.append('warn')
                return super().warn(t, **k)
        v = self.variant
        if v == 'ssh1-report':
            mask = inp['mask']
            mask = mask if isinstance(mask, int) else zx.cur().concretize(mask.e)
            pkm = M.ssh1_publickeymessage.SSH1_PublicKeyMessage(b'\x00' * 8, (768, 3, 5), (1024, 3, 7), 2, mask, 0x0C)
            r = OL.run_output(M, None, json=self.json, sw='OpenSSH_1.2.3', pkm=pkm, protocol=(1, 5), out_factory=RB)
        elif v == 'proto-1.99':
            r = OL.run_output(M, self.GOODL, json=self.json, sw=inp['sw'], protocol=(1, 99), out_factory=RB)
        elif v == 'proto-1.99+nonascii':
            r = OL.run_output(M, self.GOODL, json=self.json, sw=inp['sw'], protocol=(1, 99), out_factory=RB, valid_ascii=False)
        elif v == 'proto-1.99-with-ssh2-only-option':
            r = OL.run_output(M, self.GOODL, json=self.json, sw=inp['sw'], protocol=(1, 99), out_factory=RB, extra={'ssh1': False, 'ssh2': True})
        elif v == 'nonascii-banner':
            r = OL.run_output(M, self.GOODL, json=self.json, sw=inp['sw'], out_factory=RB, valid_ascii=False)
        else:
            r = OL.run_output(M, self.GOODL, json=self.json, sw=inp['sw'], out_factory=RB)
        if isinstance(r['ret'], Exc):
            return {'exc': r['ret']}
        return {'ret': r['ret'], 'nfail': calls.count('fail'), 'nwarn': calls.count('warn')}

    def check(self, inp, obs):
        if 'exc' in obs:
            yield 'no-exception', False
            return
        want = 3 if obs['nfail'] else (2 if obs['nwarn'] else 0)
        if self.variant == 'clean':
            yield 'flawless-peer-prints-no-finding(control)', obs['nfail'] == 0 and obs['nwarn'] == 0
        elif not self.json:
            yield 'variant-prints-a-finding(reachability)', obs['nfail'] + obs['nwarn'] > 0
        if not self.json:
            yield 'status==fold-of-all-failure/warning-level-lines', obs['ret'] == want
        else:
            yield 'json-status==text-status', obs['ret'] == {'ssh1-report': 3, 'proto-1.99': 3, 'nonascii-banner': 2, 'clean': 0, 'proto-1.99+nonascii': 3, 'proto-1.99-with-ssh2-only-option': 3}[self.variant]

    def classify(self, inp, obs, label):
        if label.startswith('status==fold') or label.startswith('json-status'):
            return 'general-section-findings-not-counted:%s' % self.variant
        return label


class PolicyStatus(Harness):
    """real audit() in policy mode: status 0 iff the verdict is passed, 3 iff failed."""
    prop, ob = PROP, 'O4'
    width = 64

    def __init__(self, json):
        self.json = json
        self.name = 'policy-status-%s' % ('json' if json else 'text')

    def params(self):
        return {'json': self.json}

    def inputs(self):
        # outdated: the policy is a built-in one of which a newer version exists (the tool then adds a note; the note is not part of the verdict)
        return {'pk': zx.fresh_str('pk', 2, OL.NAMECH), 'outdated': zx.fresh_bool('outdated')}

    def run(self, M, inp):
        if zx.active():
            zx.cur().stdout = []
        kex, key = ['ab'], ['unknown-key-type']
        p = make_policy(M, {'_kex': [inp['pk']]}, False, False)
        p._updated_builtin_policy_available = bool(inp['outdated'])
        conns = [AE.Conn([BANNER, kexinit_pkt(kex, key)], 'close')]
        cj = OL.CaptureJson()
        with AE.patched(M.ssh_audit, json=cj):
            r = AE.run_audit(M, conns, policy=p, json=self.json)
        passed = None
        if cj.docs:
            passed = cj.docs[-1][0].get('passed')
        else:
            for ln in r['lines']:
                if OL._starts(ln, 'Result: '):
                    passed = ('Passed' in ln) if isinstance(ln, str) else bool(ln.find('Passed') >= 0)
        return {'ret': r['ret'], 'passed': passed, 'alg': has_alg_lines(r['lines'])}

    def check(self, inp, obs):
        r = obs['ret']
        yield 'no-exception', not isinstance(r, Exc)
        if isinstance(r, Exc):
            return
        match = inp['pk'] == 'ab'
        yield 'status-0-iff-passed', (r == 0) == match
        yield 'status-3-iff-failed', (r == 3) == s_not(match)
        yield 'shown-verdict-agrees', obs['passed'] == match


def tasks(tier):
    q = tier == 'quick'
    T = []
    K = 'FWGU'
    mixes = []
    # every ordering of two severities in one category (precedence: a later warning must not downgrade an earlier failure)
    for c in OL.CATS:
        for a, b in itertools.product(K, repeat=2):
            if q and c not in ('kex', 'mac') and (a, b) not in (('F', 'W'), ('W', 'F'), ('G', 'G')):
                continue
            mixes.append({c: (a, b)})
    # cross-category orderings
    for a, b, c_, d in ([('F', 'W', 'G', 'G'), ('W', 'F', 'G', 'G'), ('G', 'G', 'W', 'F'), ('G', 'G', 'G', 'G'), ('G', 'W', 'G', 'G'), ('U', 'G', 'G', 'F'),
                         ('G', 'G', 'G', 'U'), ('W', 'G', 'F', 'W')] if q else list(itertools.product('FWG', repeat=4))):
        mixes.append({'kex': (a,), 'key': (b,), 'enc': (c_,), 'mac': (d,)})
    # empty names / empty lists after bad algorithms must not reset the running status; a warning that only post-processing adds (Terrapin) counts
    mixes += [{'kex': ('F',), 'mac': ('E',)}, {'key': ('F',), 'enc': ('E',), 'mac': ('E',)}, {'kex': ('W', 'E')}, {'enc': ('F', 'E', 'G')}, {'kex': ('E',), 'key': ('E',), 'enc': ('E',), 'mac': ('E',)},
              {'enc': ('T',)}, {'enc': ('G', 'T')}, {'enc': ('T',), 'mac': ('E',)}]
    if not q:
        for c in OL.CATS:
            for tri in itertools.product('FWG', repeat=3):
                mixes.append({c: tri})
    for m in mixes:
        T.append(Fold(m))
    for m in ({'enc': ('G',), 'mac': ('G',)}, {'enc': ('W', 'G'), 'mac': ('G',)}, {'enc': ('G',), 'mac': ('G', 'F')}, {'kex': ('U',), 'enc': ('G',)}):
        T.append(Fold(m, True))
    for st in ('refused', 'silent', 'early-close', 'no-banner', 'banner-only', 'truncated-kexinit', 'wrong-type', 'bad-block-size', 'garbage-kexinit', 'unresolvable',
               'short-kexinit-payload-1', 'short-kexinit-payload-10', 'short-kexinit-payload-17', 'short-kexinit-payload-30', 'short-kexinit-payload-60',
               'short-kexinit-payload-100', 'short-kexinit-payload-130'):
        for multi in (False, True):
            T.append(Broken(st, multi))
            if st in ('banner-only', 'truncated-kexinit', 'wrong-type', 'garbage-kexinit', 'short-kexinit-payload-30', 'no-banner') or tier != 'quick':
                T.append(Broken(st, multi, True))
    for v in ('clean', 'ssh1-report', 'proto-1.99', 'nonascii-banner', 'proto-1.99+nonascii', 'proto-1.99-with-ssh2-only-option'):
        T.append(LevelFold(v))
        T.append(LevelFold(v, True))
    T.append(PolicyStatus(False))
    T.append(PolicyStatus(True))
    return T


def harness_by_name(name, params):
    k = name.split(':')[1].split('-')[0]
    if k == 'fold':
        return Fold(params['mix'], params.get('client', False))
    if k == 'broken':
        return Broken(params['stage'], params['multi'], params.get('json', False))
    if k == 'levelfold':
        return LevelFold(params['variant'], params.get('json', False))
    if k == 'policy':
        return PolicyStatus(params['json'])
    raise KeyError(name)


META = {
    'functions': ['output()', 'output_algorithms/output_algorithm', 'audit()', 'evaluate_policy', 'SSH_Socket.connect/get_banner/read_packet', 'SSH2_Kex.parse'],
    'bounds': {'quick': 'peers mixing failure / warning / clean table names (classes recomputed from the current table) and unknown symbolic 2-char names: every '
                        'ordered pair within a category, 8 cross-category mixes; batch/verbose/JSON/level symbolic; 10 broken-handshake stages x single/target-list '
                        'mode with 2 arbitrary bytes at the fault; policy mode with a symbolic 2-char policy name vs the peer (text and JSON)',
               'thorough': 'all 81 cross-category mixes, all triples within a category'},
    'outside': ['red (gen)/(sec) lines without a tag (SSH-1 banner) are not findings under the property\'s observe_at', 'malformed handshakes beyond these stages: C09'],
    'stubs': ['socket: scripted connections', 'json.dumps: capturing stub'],
    'assumptions': ['passed iff error list empty: C06'],
}
