"""C07 - each target's result is independent of the other targets in the run.

Real threads cannot be executed symbolically.  The property is reduced to (O1) a footprint lemma - every table access of a scan uses only the calling
thread's key - (O2) an inductive step - one worker task started from a pre-state in which its thread id may or may not still own a (dirty) table left by an
earlier task renders exactly the single-target report and leaves no table behind - and (O3) configuration isolation.  O1 => operations of different threads
touch disjoint keys and commute (each dict operation is atomic under the GIL) => every interleaving equals a sequential history; O2 is the step of that history."""
import copy
import zx
from zx import s_and, s_or, s_not, s_implies
from vf.harness import Harness, guarded, Exc
from vf.symutil import sym_size
from vf import auditenv as AE
from props import outlib as OL
from props.c06 import make_kex, make_policy
from props.c09 import BANNER, kexinit_pkt

PROP = 'C07'
G256 = 'diffie-hellman-group-exchange-sha256'
MS = 'kex-strict-s-v00@openssh.com'

# archetypes: one per channel through which a scan edits the per-thread tables
ARCH = {
    'terrapin': dict(kex=['curve25519-sha256'], key=['ssh-ed25519'], enc=['chacha20-poly1305@openssh.com', 'aes128-cbc'], mac=['hmac-sha2-256-etm@openssh.com']),
    'clean': dict(kex=['curve25519-sha256', MS], key=['ssh-ed25519'], enc=['chacha20-poly1305@openssh.com', 'aes128-cbc'], mac=['hmac-sha2-256-etm@openssh.com']),
    'plain': dict(kex=['curve25519-sha256'], key=['ssh-ed25519'], enc=['aes128-ctr'], mac=['hmac-sha2-256']),
    # a target without any finding (status 0): nothing warns, so nothing *seems* to need discarding - but the JSON renderer still annotates info notes in place
    'good': dict(kex=['sntrup761x25519-sha512@openssh.com', 'mlkem768x25519-sha256', 'ext-info-s', MS], key=['ssh-ed25519'], enc=['aes256-gcm@openssh.com', 'aes128-ctr'],
                 mac=['hmac-sha2-256-etm@openssh.com', 'hmac-sha2-512-etm@openssh.com'], no_unknown=True),
    # size channels: the host-key probe / group-exchange probe of these targets is answered (well-formed replies), so the scan writes size notes into its table
    'rsa1024': dict(kex=['curve25519-sha256'], key=['ssh-rsa'], enc=['aes128-ctr'], mac=['hmac-sha2-256'], rsa_bits=1024),
    'rsa4096': dict(kex=['curve25519-sha256'], key=['ssh-rsa'], enc=['aes128-ctr'], mac=['hmac-sha2-256'], rsa_bits=4096),
    'gex1024': dict(kex=['curve25519-sha256', G256], key=['ssh-ed25519'], enc=['aes128-ctr'], mac=['hmac-sha2-256'], gex_bits=1024),
    'gex4096': dict(kex=['curve25519-sha256', G256], key=['ssh-ed25519'], enc=['aes128-ctr'], mac=['hmac-sha2-256'], gex_bits=4096),
    # advertises group exchange, but none of its group-exchange probes is answered: it has no modulus size of its own (so a size shown for it is another target's)
    'gexnone': dict(kex=['curve25519-sha256', G256], key=['ssh-ed25519'], enc=['aes128-ctr'], mac=['hmac-sha2-256']),
}


def probe_conns(a, pk):
    """scripted connections after the first one: host-key probes (one per advertised probed type), then group-exchange probes"""
    S = AE.sshstr
    conns = []
    if a.get('rsa_bits'):
        n = b'\x00' + b'\x80' + b'\x00' * (a['rsa_bits'] // 8 - 2) + b'\x01'
        blob = S(b'ssh-rsa') + S(b'\x01\x00\x01') + S(n)
        conns.append(AE.Conn([BANNER, pk, AE.frame(bytes([31]) + S(blob) + S(b'\x05' * 32) + S(b'sig'))]))
    else:
        conns.append(AE.Conn([BANNER, pk], 'close'))          # the ssh-ed25519 probe is not answered
    if a.get('gex_bits'):
        pb = b'\x00' + b'\x80' + b'\x00' * (a['gex_bits'] // 8 - 2) + b'\x01'
        for _ in range(9):
            conns.append(AE.Conn([BANNER, pk, AE.frame(bytes([31]) + S(pb) + S(b'\x02')), AE.frame(bytes([33]) + S(b'hostkey') + S(b'\x05') + S(b'sig'))]))
    return conns


def edited_tables_left(M):
    """does any per-thread table copy that is still registered differ from the master table?  (An unedited copy that is left behind cannot influence a later
    scan; an edited one can.)"""
    for K in (M.ssh2_kexdb.SSH2_KexDB, M.ssh1_kexdb.SSH1_KexDB):
        for t in list(K.DB_PER_THREAD.values()):
            if t != K.MASTER_DB:
                return True
    return False


class RecDict(dict):
    """DB_PER_THREAD replacement that records every key used"""

    def __init__(self, *a):
        super().__init__(*a)
        self.touched = []

    def __contains__(self, k):
        self.touched.append(k)
        return super().__contains__(k)

    def __getitem__(self, k):
        self.touched.append(k)
        return super().__getitem__(k)

    def __setitem__(self, k, v):
        self.touched.append(k)
        super().__setitem__(k, v)

    def __delitem__(self, k):
        self.touched.append(k)
        super().__delitem__(k)


class Footprint(Harness):
    """get_db(), thread_exit() and every in-place editor (Terrapin marks, host-key size notes, GEX notes, OpenSSH-2048 note) use only the calling thread's key,
    from an arbitrary pre-state of the shared map (which of three thread ids own a table is symbolic)."""
    prop, ob = PROP, 'O1'
    width = 64

    def __init__(self, tid, editor):
        self.tid, self.editor = tid, editor
        self.name = 'footprint-t%d-%s' % (tid, editor)

    def params(self):
        return {'tid': self.tid, 'editor': self.editor}

    def inputs(self):
        return {'present': [zx.fresh_bool('p%d' % i) for i in range(3)], 'size': sym_size('sz', 4)}

    def run(self, M, inp):
        K2, K1 = M.ssh2_kexdb.SSH2_KexDB, M.ssh1_kexdb.SSH1_KexDB
        ids = [101, 202, 303]
        me = ids[self.tid]
        d2, d1 = RecDict(), RecDict()
        for i, pid in enumerate(ids):
            if bool(inp['present'][i]):
                dict.__setitem__(d2, pid, copy.deepcopy(K2.MASTER_DB))
                dict.__setitem__(d1, pid, copy.deepcopy(K1.MASTER_DB))
        snap = {pid: copy.deepcopy(dict.__getitem__(d2, pid)) for pid in dict.keys(d2) if pid != me}

        class T:
            def __init__(self_, ident):
                self_.ident, self_.native_id, self_.name = ident, ident + 7000, 'worker-%d' % ident     # OS thread ids differ from Python idents

            def is_alive(self_): return True

        class ThrMod:
            """threading stand-in: the calling thread is `me`; all three workers are alive"""
            @staticmethod
            def get_ident(): return me
            @staticmethod
            def get_native_id(): return me + 7000
            @staticmethod
            def enumerate(): return [T(i) for i in ids]
            @staticmethod
            def current_thread(): return T(me)
            @staticmethod
            def active_count(): return len(ids)

            def __getattr__(self_, name):
                import threading
                return getattr(threading, name)
        Thr = ThrMod()
        o2, o1 = K2.DB_PER_THREAD, K1.DB_PER_THREAD
        K2.DB_PER_THREAD, K1.DB_PER_THREAD = d2, d1
        try:
            with AE.patched(M.ssh2_kexdb, threading=Thr), AE.patched(M.ssh1_kexdb, threading=Thr):
                r = guarded(self.edit, M, inp)
                for kx in (K2, K1):
                    rx = guarded(kx.thread_exit)
                    if isinstance(rx, Exc) and not isinstance(r, Exc):
                        r = rx
        finally:
            K2.DB_PER_THREAD, K1.DB_PER_THREAD = o2, o1
        others_same = all(dict.__contains__(d2, pid) and dict.__getitem__(d2, pid) == snap[pid] for pid in snap)
        return {'r': r if isinstance(r, Exc) else None, 'touched': sorted(set(d2.touched + d1.touched)), 'others_same': others_same,
                'mine_left': dict.__contains__(d2, me) or dict.__contains__(d1, me)}

    def edit(self, M, inp):
        e = self.editor
        out = M.outputbuffer.OutputBuffer()
        if e == 'terrapin':
            kex = make_kex(M, ARCH['terrapin'])
            M.ssh_audit.post_process_findings(M.banner.Banner((2, 0), 'OpenSSH_8.0', None, True), M.algorithms.Algorithms(None, kex), False, '')
        elif e == 'openssh2048':
            kex = make_kex(M, {'kex': [G256]}, dh={G256: 2048})
            M.ssh_audit.post_process_findings(M.banner.Banner((2, 0), 'OpenSSH_8.0', None, True), M.algorithms.Algorithms(None, kex), False, '')
        elif e == 'hostkey':
            from props.c11 import StubSock, StubKexGroup
            kex = make_kex(M, {'key': ['ssh-rsa', 'ssh-ed25519']})
            M.hostkeytest.HostKeyTest.perform_test(out, StubSock(), kex, 'curve25519-sha256', StubKexGroup(inp['size'], '', 0), M.hostkeytest.HostKeyTest.HOST_KEY_TYPES)
        elif e == 'gex':
            kex = make_kex(M, {'kex': [G256]})
            size = inp['size']

            class S:
                def is_connected(self_): return False
                def close(self_): pass
            orig = M.gextest.GEXTest._send_init
            M.gextest.GEXTest._send_init = staticmethod(lambda *a: (size, False))
            try:
                M.gextest.GEXTest.run(out, S(), None, kex)
            finally:
                M.gextest.GEXTest._send_init = orig
        elif e == 'render':
            OL_L = ARCH['plain']
            kex = make_kex(M, OL_L)
            aconf = M.auditconf.AuditConf('h', 22)
            M.ssh_audit.output(out, aconf, M.banner.Banner((2, 0), 'x', None, True), [], None, kex)
            aconf.json = True
            M.ssh_audit.output(out, aconf, M.banner.Banner((2, 0), 'x', None, True), [], None, kex)
        elif e == 'ssh1':
            pkm = M.ssh1_publickeymessage.SSH1_PublicKeyMessage(b'\x00' * 8, (768, 3, 5), (1024, 3, 7), 2, 0x48, 0x0C)
            M.ssh_audit.output(out, M.auditconf.AuditConf('h', 22), M.banner.Banner((1, 5), 'x', None, True), [], None, None, pkm)

    def check(self, inp, obs):
        yield 'no-exception', obs['r'] is None
        me = [101, 202, 303][self.tid]
        yield 'only-own-key-touched', obs['touched'] in ([], [me])
        yield 'other-threads-tables-unchanged', obs['others_same']
        yield 'thread_exit-removes-own-table', not obs['mine_left']


def scripted_conns(arch, rsa_bits=None):
    a = ARCH[arch]
    pk = AE.frame(AE.kexinit_payload(a['kex'], a['key'], a['enc'], a['mac']))
    return [AE.Conn([BANNER, pk])] + [AE.Conn([BANNER, pk], 'close') for _ in range(3)]


class WorkerStep(Harness):
    """inductive step: target_worker_thread on a thread whose previous task scanned archetype A renders target B exactly as a fresh single-target run does
    (text and JSON), and leaves no table for its thread id behind.  An unknown symbolic cipher name rides along in B."""
    prop, ob = PROP, 'O2'
    width = 64

    def __init__(self, first, second, json):
        self.first, self.second, self.json = first, second, json
        self.name = 'workerstep-%s-then-%s-%s' % (first, second, 'json' if json else 'text')

    def params(self):
        return {'first': self.first, 'second': self.second, 'json': self.json}

    def inputs(self):
        return {'unk': zx.fresh_str('unk', 2, OL.NAMECH)}

    def one(self, M, arch, unk, fresh):
        """run one worker task; fresh=True resets the per-thread tables first (what a new process has)"""
        if fresh:
            M.ssh2_kexdb.SSH2_KexDB.DB_PER_THREAD.clear()
            M.ssh1_kexdb.SSH1_KexDB.DB_PER_THREAD.clear()
        a = dict(ARCH[arch])
        if not a.get('no_unknown'):
            a['enc'] = list(a['enc']) + [unk]
        pk = AE.frame(AE.kexinit_payload(a['kex'], a['key'], a['enc'], a['mac']))
        net = AE.FakeNet([AE.Conn([BANNER, pk])] + (probe_conns(a, pk) if ('rsa_bits' in a or 'gex_bits' in a) else []), default_end='close')
        aconf = M.auditconf.AuditConf('', 22)
        aconf.json = self.json
        aconf.skip_rate_test = True
        aconf.colors = False
        aconf.target_list = ['a', 'b']
        cj = OL.CaptureJson()
        with AE.patched(M.ssh_socket, socket=net), AE.patched(M.ssh_audit, json=cj):
            r = guarded(M.ssh_audit.target_worker_thread, 'host-' + arch, 22, aconf)
        if isinstance(r, Exc):
            return r
        ret, text = r
        doc = cj.docs[-1][0] if cj.docs else None
        view = None
        if doc is not None:
            view = {c: [(e['algorithm'], e['notes']) for e in doc[c]] for c in OL.CATS}
            view['rec'] = doc['recommendations']
            view['notes'] = doc['additional_notes']
        bits = a.get('rsa_bits') or a.get('gex_bits')
        seen = True
        if bits:      # reachability witness: the probe was answered and the measured size is in the report
            if doc is not None:
                seen = any(e.get('keysize') == bits for e in list(doc['kex']) + list(doc['key']))
            else:
                seen = (('(%d-bit)' % bits) in text) if isinstance(text, str) else bool(text.find('(%d-bit)' % bits) >= 0)
        return (ret, text if not self.json else None, view, seen)

    def run(self, M, inp):
        if zx.active():
            zx.cur().stdout = []
        import threading
        tid = threading.get_ident()
        # first A, then B on the same thread without any reset (what a reused pool worker sees); only then the reference run of B alone, after the whole
        # process state (every class-level / module-level container of the tool) has been put back to what a new process starts with - so that a cache filled by
        # the reference run cannot hide a stale entry.  The same unknown name rides along in both tasks (identical lists where the archetypes share them).
        first = self.one(M, self.first, inp['unk'], True)
        second = self.one(M, self.second, inp['unk'], False)
        # a table left for this thread is harmless exactly when it is still an unedited copy of the master table
        left = edited_tables_left(M)
        from vf.harness import fresh_process_state
        fresh_process_state(M)
        alone = self.one(M, self.second, inp['unk'], True)
        M.ssh2_kexdb.SSH2_KexDB.DB_PER_THREAD.clear()
        M.ssh1_kexdb.SSH1_KexDB.DB_PER_THREAD.clear()
        return {'alone': alone, 'second': second, 'first_ok': not isinstance(first, Exc), 'first_ret': None if isinstance(first, Exc) else first[0], 'table_left_behind': left}

    def check(self, inp, obs):
        a, b = obs['alone'], obs['second']
        yield 'no-exception', not isinstance(a, Exc) and not isinstance(b, Exc) and obs['first_ok']
        if isinstance(a, Exc) or isinstance(b, Exc):
            return
        yield 'same-status-as-single-target-run', a[0] == b[0]
        if self.json:
            yield 'same-json-as-single-target-run', a[2] == b[2]
        else:
            yield 'same-report-as-single-target-run', a[1] == b[1]
        yield 'no-edited-table-left-for-the-finished-task', not obs['table_left_behind']
        yield 'measured-size-is-in-the-report(probe-reached)', a[3] and b[3]
        if self.first == 'good':
            yield 'status-0-archetype-is-rated-good(reachability)', obs['first_ret'] == 0

    def classify(self, inp, obs, label):
        if label in ('same-report-as-single-target-run', 'same-json-as-single-target-run', 'same-status-as-single-target-run', 'no-edited-table-left-for-the-finished-task'):
            return 'worker-never-discards-its-thread-table'
        return label


class NoSharedTrace(Harness):
    """after a worker task has finished, every process-wide container of the tool (module globals, class attributes: rating tables, probe tables, policy tables,
    caches) is exactly as in a freshly started process.  What a later or concurrent task of another thread can see is only such shared state, so a scan that
    leaves no trace there cannot influence another target - independent of scheduling."""
    prop, ob = PROP, 'O1'
    width = 64

    def __init__(self, arch, json):
        self.arch, self.json = arch, json
        self.name = 'nosharedtrace-%s-%s' % (arch, 'json' if json else 'text')

    def params(self):
        return {'arch': self.arch, 'json': self.json}

    def inputs(self):
        return {'unk': zx.fresh_str('unk', 2, OL.NAMECH)}

    def run(self, M, inp):
        if zx.active():
            zx.cur().stdout = []
        from vf import stateguard
        from vf.harness import fresh_process_state
        fresh_process_state(M)
        ws = WorkerStep(self.arch, self.arch, self.json)
        r = ws.one(M, self.arch, inp['unk'], True)
        d = stateguard.diff(M, ignore=('SSH2_KexDB.DB_PER_THREAD', 'SSH1_KexDB.DB_PER_THREAD'))
        if edited_tables_left(M):
            d = d + ['DB_PER_THREAD (an EDITED table copy is left behind)']
        return {'ok': not isinstance(r, Exc), 'changed': d}

    def check(self, inp, obs):
        yield 'task-completes', obs['ok']
        yield 'no-process-wide-state-differs-after-the-task', obs['changed'] == []


class ConfigIsolation(Harness):
    """the shared configuration (incl. a policy whose error list grows on every evaluate) is not affected by a worker task: two failing policy audits through
    two tasks report the same errors as one."""
    prop, ob = PROP, 'O3'
    width = 64
    name = 'config-isolation'

    def inputs(self):
        return {'pk': zx.fresh_str('pk', 2, OL.NAMECH)}

    def run(self, M, inp):
        if zx.active():
            zx.cur().stdout = []
        shared = M.auditconf.AuditConf('', 22)
        shared.json = True
        shared.skip_rate_test = True
        shared.target_list = ['a', 'b']
        shared.policy = make_policy(M, {'_kex': [inp['pk']]}, False, False)
        res = []
        for i in range(2):
            M.ssh2_kexdb.SSH2_KexDB.DB_PER_THREAD.clear()
            net = AE.FakeNet([AE.Conn([BANNER, kexinit_pkt(['ab'], ['unknown-key'])])], default_end='close')
            cj = OL.CaptureJson()
            with AE.patched(M.ssh_socket, socket=net), AE.patched(M.ssh_audit, json=cj):
                r = guarded(M.ssh_audit.target_worker_thread, 'h%d' % i, 2200 + i, shared)
            if isinstance(r, Exc):
                return {'exc': r}
            d = cj.docs[-1][0]
            res.append((r[0], d['host'], d['port'], d['passed'], len(d['errors'])))
        return {'res': res, 'shared_host': shared.host, 'shared_port': shared.port, 'shared_errors': len(shared.policy._errors)}

    def check(self, inp, obs):
        if 'exc' in obs:
            yield 'no-exception', False
            return
        r0, r1 = obs['res']
        yield 'second-task-same-verdict-and-error-count', r0[0] == r1[0] and r0[3] == r1[3] and r0[4] == r1[4]
        yield 'each-task-labelled-with-its-own-target', (r0[1], r0[2]) == ('h0', 2200) and (r1[1], r1[2]) == ('h1', 2201)
        yield 'shared-configuration-untouched', obs['shared_host'] == '' and obs['shared_port'] == 22 and obs['shared_errors'] == 0


class WorkerConfig(Harness):
    """the configuration a worker task audits with equals the shared configuration in EVERY setting (symbolic booleans and numbers, non-default strings) except
    host and port, which are the task's own target."""
    prop, ob = PROP, 'O3'
    width = 64
    name = 'worker-config-equals-shared-config'

    def inputs(self):
        return {'b': {k: zx.fresh_bool(k) for k in ('ssh1', 'batch', 'json', 'verbose', 'skip_rate_test')}}

    def run(self, M, inp):
        if zx.active():
            zx.cur().stdout = []
        shared = M.auditconf.AuditConf('', 22)
        for k, v in inp['b'].items():
            setattr(shared, k, bool(v))
        # every other setting gets a non-default value
        shared.ssh2, shared.json_print_indent, shared.debug, shared.colors, shared.client_audit, shared.timeout_set = True, True, True, False, False, True
        shared.level, shared.threads, shared.timeout = 'warn', 7, 13.0
        shared.target_list = ['a', 'b']
        shared.ip_version_preference = [6, 4]
        shared.gex_test = ''
        shared.conn_rate_test = '3:7'
        seen = {}

        def fake_audit(out, aconf, sshv=None, print_target=False):
            seen.update({k: v for k, v in aconf.__dict__.items()})
            return 0
        with AE.patched(M.ssh_audit, audit=fake_audit):
            r = guarded(M.ssh_audit.target_worker_thread, 'tgt', 2222, shared)
        if isinstance(r, Exc):
            return {'exc': r}
        diff = sorted(k for k in shared.__dict__ if k not in ('host', 'port') and not (k in seen and seen[k] == shared.__dict__[k]))
        return {'diff': diff, 'host': seen.get('host'), 'port': seen.get('port')}

    def check(self, inp, obs):
        if 'exc' in obs:
            yield 'no-exception', False
            return
        yield 'every-setting-carried-over', obs['diff'] == []
        yield 'own-target', obs['host'] == 'tgt' and obs['port'] == 2222


from props.c18 import MainRun as _MainRun


class TargetLoop(_MainRun):
    """real main() over a targets file mixing 'host' and 'host:port' lines (symbolic hosts, ports and -p): the endpoint resolved and dialled for each line is
    what that line alone denotes - it does not depend on which lines precede it."""
    prop, ob = PROP, 'O4'

    def __init__(self, shape, with_p, nport=2):
        super().__init__(shape, with_p, nport)
        self.name = 'targetloop-' + self.name[len('mainrun-'):]


def tasks(tier):
    T = []
    for tid in range(3):
        for ed in ('terrapin', 'openssh2048', 'hostkey', 'gex', 'render', 'ssh1'):
            T.append(Footprint(tid, ed))
    for first in ('terrapin', 'clean', 'plain'):
        for second in ('terrapin', 'clean', 'plain'):
            for json in (False, True):
                T.append(WorkerStep(first, second, json))
    for first, second in [('good', 'good'), ('good', 'plain'), ('rsa1024', 'rsa4096'), ('rsa4096', 'rsa1024'), ('gex1024', 'gex4096'), ('gex4096', 'gex1024'), ('rsa1024', 'gex1024'), ('gex1024', 'plain'), ('gex1024', 'gexnone'), ('gex4096', 'gexnone')]:
        for json in (False, True):
            T.append(WorkerStep(first, second, json))
    if tier != 'quick':
        sizes = ['rsa1024', 'rsa4096', 'gex1024', 'gex4096']
        for first in sizes + ['terrapin']:
            for second in sizes + ['clean']:
                if (first, second) not in [('rsa1024', 'rsa4096'), ('rsa4096', 'rsa1024'), ('gex1024', 'gex4096'), ('gex4096', 'gex1024'), ('rsa1024', 'gex1024')]:
                    T.append(WorkerStep(first, second, True))
                    T.append(WorkerStep(first, second, False))
    for arch in ('terrapin', 'good', 'rsa1024', 'gex1024', 'plain'):
        for json in (False, True):
            T.append(NoSharedTrace(arch, json))
    T.append(ConfigIsolation())
    T.append(WorkerConfig())
    for shape in [('host:port', 'host'), ('host', 'host:port'), ('host:port', 'host:port', 'host'), ('host:port', 'blank', 'host', 'host')]:
        for with_p in (False, True):
            T.append(TargetLoop(shape, with_p))
    return T


def harness_by_name(name, params):
    k = name.split(':')[1].split('-')[0]
    p = params
    if k == 'footprint':
        return Footprint(p['tid'], p['editor'])
    if k == 'workerstep':
        return WorkerStep(p['first'], p['second'], p['json'])
    if k == 'worker' and name.endswith('worker-config-equals-shared-config'):
        return WorkerConfig()
    if k == 'nosharedtrace':
        return NoSharedTrace(p['arch'], p['json'])
    if k == 'targetloop':
        return TargetLoop(p['shape'], p['with_p'], p.get('nport', 2))
    return ConfigIsolation()


META = {
    'functions': ['main() target loop', 'SSH2_KexDB.get_db/thread_exit', 'SSH1_KexDB.get_db/thread_exit', 'target_worker_thread', 'audit()', 'post_process_findings', 'HostKeyTest.perform_test',
                  'GEXTest.run', 'output()', 'Policy.evaluate'],
    'bounds': 'three thread ids with a symbolic presence pattern in the shared map x six editors (footprint); ordered pairs of three target archetypes (Terrapin-marked, '
              'marker-protected, plain) x text/JSON with a symbolic unknown cipher name riding along (inductive step on a reused thread); two policy tasks sharing one configuration; targets files of 2..4 lines mixing host / host:port lines through the real main()',
    'outside': ['REAL thread scheduling and socket timing: replaced by footprint + commutation + inductive step; the commutation argument (disjoint keys, GIL-atomic dict operations) is '
                'reasoning by reading, not solver output', 'class attributes of DHEat mutated by --conn-rate-test'],
    'stubs': ['threading.get_ident: fixed id per task', 'socket: scripted connections', 'json.dumps: capturing stub'],
    'assumptions': ['CPython dict operations are atomic under the GIL'],
}
