"""C10 - wire encoding/decoding are exact inverses; packets are well framed."""
import zx
from zx import s_and, s_or, s_not, s_implies, s_ite
from vf.harness import Harness, guarded, Exc
from vf import stubs, p2z

PROP = 'C10'
NAMECH = ((0x21, 0x2B), (0x2D, 0x7E))          # RFC 4251 name characters: printable US-ASCII without ',' and space
ANYCH = ((0, 0x2B), (0x2D, 0x10FFFF))          # any code point except ','


class Scalars(Harness):
    prop, ob = PROP, 'O1'
    width = 64

    def __init__(self, kind, n=0):
        self.kind, self.n = kind, n
        self.name = '%s-%s' % (kind, 'x'.join(str(k) for k in n) if isinstance(n, tuple) else n)

    def params(self):
        return {'kind': self.kind, 'n': self.n}

    def inputs(self):
        k = self.kind
        if k == 'byte':
            return {'v': zx.fresh_int('v', 0, 255)}
        if k == 'bool':
            return {'v': zx.fresh_bool('v')}
        if k == 'int':
            return {'v': zx.fresh_int('v', 0, 0xFFFFFFFF)}
        if k == 'string':
            return {'v': zx.fresh_bytes('v', self.n)}
        if k == 'text':
            return {'v': zx.fresh_str('v', self.n)}
        if k == 'list':
            # self.n encodes the shape: tuple of name lengths
            return {'v': [zx.fresh_str('v%d' % i, ln, ANYCH) for i, ln in enumerate(self.n)]}
        raise ValueError(k)

    def run(self, M, inp):
        v = inp['v']
        k = self.kind
        w = M.writebuf.WriteBuf()
        wr = {'byte': w.write_byte, 'bool': w.write_bool, 'int': w.write_int, 'string': w.write_string,
              'text': w.write_string, 'list': w.write_list}[k]
        r1 = guarded(wr, v)
        if isinstance(r1, Exc):
            return {'exc': r1}
        data = w.write_flush()
        r = M.readbuf.ReadBuf(data)
        rd = {'byte': r.read_byte, 'bool': r.read_bool, 'int': r.read_int, 'string': r.read_string,
              'text': r.read_string, 'list': r.read_list}[k]
        back = guarded(rd)
        if isinstance(back, Exc):
            return {'exc': back, 'data': data}
        # re-encode the decoded value
        w2 = M.writebuf.WriteBuf()
        wr2 = {'byte': w2.write_byte, 'bool': w2.write_bool, 'int': w2.write_int, 'string': w2.write_string,
               'text': w2.write_string, 'list': w2.write_list}[k]
        r2 = guarded(wr2, back)
        data2 = w2.write_flush() if not isinstance(r2, Exc) else r2
        return {'data': data, 'back': back, 'data2': data2, 'unread': r.unread_len}

    def check(self, inp, obs):
        if 'exc' in obs:
            yield 'no-exception', False
            return
        v, back = inp['v'], obs['back']
        if self.kind == 'text':
            yield 'roundtrip', back == (v.encode('utf-8') if not isinstance(v, bytes) else v)
        elif self.kind == 'list':
            yield 'roundtrip', s_and(len(back) == len(v), *[a == b for a, b in zip(back, v)])
        else:
            yield 'roundtrip', back == v
        yield 'reencode', obs['data2'] == obs['data']
        yield 'consumed', obs['unread'] == 0
        if self.kind in ('string', 'text', 'list'):
            # length prefix consistent (RFC 4251 string)
            ln = len(obs['data']) - 4
            yield 'length-prefix', obs['data'][0:4] == ln.to_bytes(4, 'big')


class Mpint(Harness):
    """write_mpintN(n) -> read_mpintN == n, canonical form, for n of an exact bit length (partition by bit length)."""
    prop, ob = PROP, 'O2'

    def __init__(self, ver, bits, sign):
        self.ver, self.bits, self.sign = ver, bits, sign
        self.name = 'mpint%d-%s%d' % (ver, '-' if sign < 0 else '+', bits)
        self.width = bits + 80
        self.cost = bits

    def params(self):
        return {'ver': self.ver, 'bits': self.bits, 'sign': self.sign}

    def inputs(self):
        b = self.bits
        if b == 0:
            return {'n': 0}
        lo, hi = (1 << (b - 1)), (1 << b) - 1
        if self.sign < 0:
            n = zx.fresh_int('n', -hi, -lo)
        else:
            n = zx.fresh_int('n', lo, hi)
        return {'n': n}

    def run(self, M, inp):
        n = inp['n']
        w = M.writebuf.WriteBuf()
        r1 = guarded(w.write_mpint1 if self.ver == 1 else w.write_mpint2, n)
        if isinstance(r1, Exc):
            return {'exc': r1}
        data = w.write_flush()
        r = M.readbuf.ReadBuf(data)
        back = guarded(r.read_mpint1 if self.ver == 1 else r.read_mpint2)
        if isinstance(back, Exc):
            return {'exc': back, 'data': data}
        return {'data': data, 'back': back, 'unread': r.unread_len}

    def check(self, inp, obs):
        if 'exc' in obs:
            yield 'no-exception', False
            return
        n, data = inp['n'], obs['data']
        yield 'roundtrip', obs['back'] == n
        yield 'consumed', obs['unread'] == 0
        if self.ver == 2:
            body = data[4:]
            yield 'length-prefix', data[0:4] == len(body).to_bytes(4, 'big')
            # RFC 4251 section 5: shortest two's complement form
            if len(body) == 0:
                yield 'canonical', n == 0
            else:
                c = s_not(n == 0)
                if len(body) >= 2:
                    c = s_and(c, s_not(s_and(body[0] == 0, body[1] < 0x80)), s_not(s_and(body[0] == 0xFF, body[1] >= 0x80)))
                # sign bit agrees
                c = s_and(c, (body[0] >= 0x80) == (n < 0))
                yield 'canonical', c
        else:
            body = data[2:]
            yield 'bits-prefix', data[0:2] == self.bits.to_bytes(2, 'big')
            yield 'body-length', len(body) == (self.bits + 7) // 8

    def classify(self, inp, obs, label):
        if label == 'roundtrip' and self.ver == 2 and isinstance(inp['n'], int) and inp['n'] < 0:
            # which 32-bit word of the padded encoding, other than the first, has its top bit set?
            return 'negative-with-lower-word-msb-set'
        return label


class KexInit(Harness):
    """SSH2_Kex(...).payload -> SSH2_Kex.parse == same fields; parse(p).payload == p (p in the encoder's image)."""
    prop, ob = PROP, 'O3'
    width = 64

    def __init__(self, shape):
        # shape: 10 tuples of name lengths
        self.shape = shape
        self.name = 'kexinit-' + '_'.join(''.join(str(x) for x in s) or 'e' for s in shape)

    def params(self):
        return {'shape': [list(s) for s in self.shape]}

    def inputs(self):
        lists = []
        for i, s in enumerate(self.shape):
            lists.append([zx.fresh_str('l%d_%d' % (i, j), ln, NAMECH) for j, ln in enumerate(s)] if s else [''])
        return {'cookie': zx.fresh_bytes('ck', 16), 'lists': lists, 'follows': zx.fresh_bool('fol'),
                'unused': zx.fresh_int('unused', 0, 0xFFFFFFFF)}

    def run(self, M, inp):
        L = inp['lists']
        out = M.outputbuffer.OutputBuffer()
        cli = M.ssh2_kexparty.SSH2_KexParty(L[2], L[4], L[6], L[8])
        srv = M.ssh2_kexparty.SSH2_KexParty(L[3], L[5], L[7], L[9])
        kex = M.ssh2_kex.SSH2_Kex(out, inp['cookie'], L[0], L[1], cli, srv, inp['follows'], inp['unused'])
        p = guarded(lambda: kex.payload)
        if isinstance(p, Exc):
            return {'exc': p}
        k2 = guarded(M.ssh2_kex.SSH2_Kex.parse, out, p)
        if isinstance(k2, Exc):
            return {'exc': k2}
        back = [k2.kex_algorithms, k2.key_algorithms, k2.client.encryption, k2.server.encryption, k2.client.mac, k2.server.mac,
                k2.client.compression, k2.server.compression, k2.client.languages, k2.server.languages]
        return {'payload': p, 'back': back, 'cookie': k2.cookie, 'follows': k2.follows, 'unused': k2.unused, 'payload2': k2.payload}

    def check(self, inp, obs):
        if 'exc' in obs:
            yield 'no-exception', False
            return
        conds = [obs['cookie'] == inp['cookie'], obs['follows'] == inp['follows'], obs['unused'] == inp['unused']]
        for a, b in zip(inp['lists'], obs['back']):
            conds.append(len(a) == len(b))
            conds += [x == y for x, y in zip(a, b)]
        yield 'roundtrip', s_and(*conds)
        yield 'reencode', obs['payload2'] == obs['payload']


class Pkm(Harness):
    """SSH1_PublicKeyMessage(...).payload -> parse == same fields; re-encode identical."""
    prop, ob = PROP, 'O3'

    def __init__(self, ebits, mbits):
        self.ebits, self.mbits = ebits, mbits
        self.name = 'pkm-e%d-m%d' % (ebits, mbits)
        self.width = max(ebits, mbits) + 80

    def params(self):
        return {'ebits': self.ebits, 'mbits': self.mbits}

    def _num(self, name, bits):
        if bits == 0:
            return 0
        return zx.fresh_int(name, 1 << (bits - 1), (1 << bits) - 1)

    def inputs(self):
        u32 = lambda n: zx.fresh_int(n, 0, 0xFFFFFFFF)
        return {'cookie': zx.fresh_bytes('ck', 8), 'skey': [u32('sb'), self._num('se', self.ebits), self._num('sm', self.mbits)],
                'hkey': [u32('hb'), self._num('he', self.ebits), self._num('hm', self.mbits)], 'pflags': u32('pf'),
                'cmask': u32('cm'), 'amask': u32('am')}

    def run(self, M, inp):
        P = M.ssh1_publickeymessage.SSH1_PublicKeyMessage
        pkm = P(inp['cookie'], tuple(inp['skey']), tuple(inp['hkey']), inp['pflags'], inp['cmask'], inp['amask'])
        p = guarded(lambda: pkm.payload)
        if isinstance(p, Exc):
            return {'exc': p}
        q = guarded(P.parse, p)
        if isinstance(q, Exc):
            return {'exc': q}
        return {'payload': p, 'payload2': q.payload, 'cookie': q.cookie,
                'skey': [q.server_key_bits, q.server_key_public_exponent, q.server_key_public_modulus],
                'hkey': [q.host_key_bits, q.host_key_public_exponent, q.host_key_public_modulus],
                'pflags': q.protocol_flags, 'cmask': q.supported_ciphers_mask, 'amask': q.supported_authentications_mask}

    def check(self, inp, obs):
        if 'exc' in obs:
            yield 'no-exception', False
            return
        conds = [obs['cookie'] == inp['cookie'], obs['pflags'] == inp['pflags'], obs['cmask'] == inp['cmask'], obs['amask'] == inp['amask']]
        conds += [a == b for a, b in zip(inp['skey'], obs['skey'])] + [a == b for a, b in zip(inp['hkey'], obs['hkey'])]
        yield 'roundtrip', s_and(*conds)
        yield 'reencode', obs['payload2'] == obs['payload']


def ref_decode_packet(data):
    """independent RFC 4253 section 6 decoder (no MAC, no encryption): returns (payload, padding_len) or None"""
    if len(data) < 5:
        return None
    plen = (data[0] << 24) | (data[1] << 16) | (data[2] << 8) | data[3]
    pad = data[4]
    return plen, pad


class Framing(Harness):
    """send_packet output for a payload of n symbolic bytes: RFC 4253 s.6 shape, read back by read_packet(2)
    unchanged, and an independent decoder agrees."""
    prop, ob = PROP, 'O5'
    width = 64

    def __init__(self, n):
        self.n = n
        self.name = 'framing-%d' % n

    def params(self):
        return {'n': self.n}

    def inputs(self):
        return {'payload': zx.fresh_bytes('p', self.n)}

    def run(self, M, inp):
        s, ss, out = stubs.ssh_socket(M, [])
        s.write(inp['payload'])
        r = guarded(s.send_packet)
        if isinstance(r, Exc):
            return {'exc': r}
        wire = ss.sent[0] if ss.sent else b''
        s2, ss2, out2 = stubs.ssh_socket(M, [wire])
        pk = guarded(s2.read_packet, 2)
        return {'wire': wire, 'pkt': pk, 'nsent': len(ss.sent), 'unread': s2.unread_len, 'recv_calls': ss2.recv_calls}

    def check(self, inp, obs):
        if 'exc' in obs:
            yield 'no-exception', False
            return
        wire, p = obs['wire'], inp['payload']
        n = len(p)
        yield 'one-packet', obs['nsent'] == 1
        yield 'multiple-of-8', len(wire) % 8 == 0 and len(wire) >= 16
        plen = (wire[0] << 24) | (wire[1] << 16) | (wire[2] << 8) | wire[3]
        pad = wire[4]
        yield 'length-field', plen == len(wire) - 4
        yield 'padding>=4', s_and(pad >= 4, pad == len(wire) - 5 - n)
        yield 'payload-in-place', wire[5:5 + n] == p
        pk = obs['pkt']
        if n == 0:
            # an empty payload has no message-type byte: the reader must not crash with an undocumented exception
            yield 'reader-total', not (isinstance(pk, Exc) and pk.type not in ('SystemExit', 'InvalidPacketException'))
        else:
            ok = (not isinstance(pk, Exc)) and isinstance(pk, tuple)
            yield 'reader-total', ok
            if ok:
                yield 'read-back', s_and(pk[0] == p[0], pk[1] == p[1:])
                yield 'consumed', obs['unread'] == 0

    def classify(self, inp, obs, label):
        if label == 'reader-total' and self.n == 0:
            return 'empty-payload'
        return label


class PartialSend(Harness):
    """the OS may accept only part of the data handed to send() (it returns the number of bytes it took): whatever amount k each call accepts, the bytes that
    reach the wire for one send_packet() are the whole packet, in order."""
    prop, ob = PROP, 'O5'
    width = 64

    def __init__(self, n):
        self.n = n
        self.name = 'partial-send-%d' % n

    def params(self):
        return {'n': self.n}

    def inputs(self):
        return {'payload': zx.fresh_bytes('p', self.n), 'k': zx.fresh_int('k', 1, 24)}

    def run(self, M, inp):
        s, ss, out = stubs.ssh_socket(M, [])
        k = inp['k']
        k = k if isinstance(k, int) else zx.cur().concretize(k.e)
        wire = []

        def limited_send(data):
            take = data[:k]
            wire.append(take)
            return len(take)
        ss.send = limited_send
        s.write(inp['payload'])
        r = guarded(s.send_packet)
        if isinstance(r, Exc):
            return {'exc': r}
        full = b''
        for w in wire:
            full = full + w
        # reference: the same packet through a socket that takes everything at once
        s2, ss2, out2 = stubs.ssh_socket(M, [])
        s2.write(inp['payload'])
        s2.send_packet()
        ref = ss2.sent[0]
        return {'wire_len': len(full), 'ref_len': len(ref), 'same': (len(full) == len(ref)) and bool(full[:5] == ref[:5]) and bool(full[5:5 + self.n] == ref[5:5 + self.n]), 'ret': r}

    def check(self, inp, obs):
        if 'exc' in obs:
            yield 'no-exception', False
            return
        yield 'whole-packet-reaches-the-wire', obs['wire_len'] == obs['ref_len'] and obs['same']


class FramingChunked(Harness):
    """two emitted packets back to back, delivered with a TCP segment boundary at position `cut` of the first packet (every position incl. inside the
    padding): both are read back unchanged - the reader must wait for a packet's padding before the next packet starts."""
    prop, ob = PROP, 'O5'
    width = 64

    def __init__(self, n, cut):
        self.n, self.cut = n, cut
        self.name = 'framing-chunked-%d-cut%d' % (n, cut)

    def params(self):
        return {'n': self.n, 'cut': self.cut}

    def inputs(self):
        return {'p1': zx.fresh_bytes('p', self.n), 'p2': zx.fresh_bytes('q', 3)}

    def run(self, M, inp):
        s, ss, out = stubs.ssh_socket(M, [])
        s.write(inp['p1'])
        s.send_packet()
        s.write(inp['p2'])
        s.send_packet()
        w1, w2 = ss.sent[0], ss.sent[1]
        k = min(self.cut, len(w1))
        chunks = [c for c in (w1[:k], w1[k:], w2) if len(c)]
        s2, ss2, out2 = stubs.ssh_socket(M, chunks)
        import io, contextlib
        with contextlib.redirect_stdout(io.StringIO()):
            a = guarded(s2.read_packet, 2)
            b = guarded(s2.read_packet, 2)
        return {'a': a, 'b': b, 'len1': len(w1)}

    def check(self, inp, obs):
        a, b = obs['a'], obs['b']
        ok = not isinstance(a, Exc) and not isinstance(b, Exc) and isinstance(a, tuple) and isinstance(b, tuple)
        yield 'both-read', ok
        if ok:
            yield 'first-read-back', s_and(a[0] == inp['p1'][0], a[1] == inp['p1'][1:])
            yield 'second-read-back', s_and(b[0] == inp['p2'][0], b[1] == inp['p2'][1:])


def crc32_ref(data):
    """bitwise reference CRC-32 (poly 0xEDB88320 reflected, init 0, no final xor) - the SSH-1 variant"""
    crc = 0
    for b in data:
        crc = crc ^ b
        for _ in range(8):
            crc = s_ite((crc & 1) == 1, (crc >> 1) ^ 0xEDB88320, crc >> 1)
    return crc


def crc_step_ref(crc, b):
    crc = crc ^ b
    for _ in range(8):
        crc = s_ite((crc & 1) == 1, (crc >> 1) ^ 0xEDB88320, crc >> 1)
    return crc


class Crc(Harness):
    """real SSH1.crc32(v) == bitwise reference, v of n symbolic bytes (direct, small n)"""
    prop, ob = PROP, 'O6'
    width = 34

    def __init__(self, n):
        self.n = n
        self.name = 'crc-%d' % n
        self.cost = 50 * n

    def params(self):
        return {'n': self.n}

    def inputs(self):
        return {'v': zx.fresh_bytes('v', self.n)}

    def run(self, M, inp):
        return {'crc': guarded(M.ssh1.SSH1.crc32, inp['v'])}

    def check(self, inp, obs):
        c = obs['crc']
        if isinstance(c, Exc):
            yield 'no-exception', False
            return
        yield 'crc==reference', c == crc32_ref(list(inp['v']))


class CrcStep(Harness):
    """inductive step: ONE iteration of the loop of SSH1_CRC32.calc (body extracted from the current source) from an
    ARBITRARY 32-bit state and an arbitrary byte equals one reference CRC step -> by induction calc == reference for
    every length (together with Crc(0), the base case, and CrcFold, the glue check)."""
    prop, ob = PROP, 'O6'
    width = 34
    name = 'crc-step-arbitrary-state'
    cost = 100

    def inputs(self):
        return {'crc': zx.fresh_int('crc', 0, 0xFFFFFFFF), 'v': zx.fresh_bytes('b', 1)}

    def run(self, M, inp):
        from vf import extract
        step = extract.loop_body(M, 'ssh1_crc32', 'SSH1_CRC32.calc', 0, ['self', 'v', 'i', 'crc'], ['crc'])
        obj = M.ssh1_crc32.SSH1_CRC32()
        return {'crc': guarded(lambda: step(obj, inp['v'], 0, inp['crc'])['crc'])}

    def check(self, inp, obs):
        c = obs['crc']
        if isinstance(c, Exc):
            yield 'no-exception', False
            return
        yield 'step==reference-step', c == crc_step_ref(inp['crc'], inp['v'][0])


def crc_fold_glue():
    """glue for the induction: on concrete inputs (the repo's own test vectors and 2000 pseudo-random buffers of 0..64 bytes)
    the real calc() equals the fold of the extracted loop body from state 0 - i.e. the extraction represents the loop."""
    import random
    import time
    from vf import extract
    from vf.harness import mods
    t0 = time.time()
    MI, MP = mods()
    res = {'harness': 'C10/O6:crc-fold-glue', 'ob': 'C10/O6', 'params': {}, 'status': 'ok', 'violations': [], 'paths': 1, 'decisions': 0,
           'queries': 0, 'solver_time_s': 0.0, 'xval': 0, 'replayed': 0, 'asserts': 1, 'sample': None, 'error': None}
    try:
        step = extract.loop_body(MP, 'ssh1_crc32', 'SSH1_CRC32.calc', 0, ['self', 'v', 'i', 'crc'], ['crc'])
        obj = MP.ssh1_crc32.SSH1_CRC32()
        rnd = random.Random(1)
        vecs = [b'', b'a', b'abc', b'123456789', b'\x00' * 9, b'\xff' * 7] + [bytes(rnd.randrange(256) for _ in range(rnd.randrange(65))) for _ in range(2000)]
        for v in vecs:
            crc = 0
            for i in range(len(v)):
                crc = step(obj, v, i, crc)['crc']
            if crc != obj.calc(v):
                res['status'] = 'harness_error'
                res['error'] = 'extracted loop body does not reproduce calc() on %r' % v
                break
            res['xval'] += 1
        res['sample'] = {'inputs': {'vectors': len(vecs)}, 'observation': 'calc(v) == fold(step, 0, v) on all'}
        res['note'] = 'concrete glue check for the inductive CRC argument'
    except Exception as e:  # noqa
        res['status'] = 'inconclusive'
        res['error'] = 'extraction failed: %s' % e
    res['wall_s'] = round(time.time() - t0, 3)
    return res


class Ssh1Packet(Harness):
    """read_packet(1): a packet (len, padding, type+data, crc) is accepted iff its CRC field equals SSH1.crc32(padding+payload)
    (stubbed here by an arbitrary 32-bit value c handed the exact bytes; crc32 == reference CRC is Crc/CrcStep); otherwise the
    documented SystemExit(1)."""
    prop, ob = PROP, 'O6'
    width = 64

    def __init__(self, n):
        self.n = n   # payload bytes incl. type (>=1)
        self.name = 'ssh1pkt-%d' % n

    def params(self):
        return {'n': self.n}

    def inputs(self):
        plen = self.n + 4
        padlen = 8 - plen % 8
        return {'pad': zx.fresh_bytes('pad', padlen), 'payload': zx.fresh_bytes('pl', self.n), 'crc': zx.fresh_bytes('crc', 4),
                'c': zx.fresh_int('c', 0, 0xFFFFFFFF)}

    def run(self, M, inp):
        plen = self.n + 4
        wire = plen.to_bytes(4, 'big') + inp['pad'] + inp['payload'] + inp['crc']
        s, ss, out = stubs.ssh_socket(M, [wire])
        seen = []

        class SSH1Stub:
            @staticmethod
            def crc32(v):
                seen.append(v)
                return inp['c']
        real = M.ssh_socket.SSH1
        M.ssh_socket.SSH1 = SSH1Stub
        import io, contextlib
        try:
            with contextlib.redirect_stdout(io.StringIO()):
                pk = guarded(s.read_packet, 1)
        finally:
            M.ssh_socket.SSH1 = real
        return {'pkt': pk, 'crc_input': seen}

    def check(self, inp, obs):
        pk = obs['pkt']
        c = inp['crc']
        got = (c[0] << 24) | (c[1] << 16) | (c[2] << 8) | c[3]
        good = (got == inp['c'])
        yield 'crc-over-padding+payload', s_and(len(obs['crc_input']) == 1, obs['crc_input'][0] == inp['pad'] + inp['payload']) if obs['crc_input'] else False
        if isinstance(pk, Exc):
            yield 'reject-only-bad-crc', s_and(pk.type in ('SystemExit', 'InvalidPacketException'), s_not(good))
        else:
            yield 'accept-only-good-crc', good
            yield 'read-back', s_and(pk[0] == inp['payload'][0], pk[1] == inp['payload'][1:])


# ------------------------------------------------------------------ P2Z: unbounded framing arithmetic
def framing_unbounded():
    """From the statements of SSH_Socket.send_packet (current source): for EVERY payload length n >= 0:
    4 <= padding <= 11, (4+1+n+padding) % 8 == 0, plen == n + padding + 1.  Linear integer arithmetic, no bound."""
    import z3
    return p2z.check_function(
        prop=PROP, ob='O4', name='send_packet-arith', module='ssh_socket', qualname='SSH_Socket.send_packet',
        sym_len={'payload': 'n'},
        post=lambda v: z3.And(v['padding'] >= 4, v['padding'] <= 11, (5 + v['n'] + v['padding']) % 8 == 0,
                              v['plen'] == v['n'] + v['padding'] + 1),
        pre=lambda v: v['n'] >= 0,
        validate=lambda n: {'n': n, 'padding': ((-(n + 5)) % 8) + (8 if (-(n + 5)) % 8 < 4 else 0),
                            'plen': n + ((-(n + 5)) % 8) + (8 if (-(n + 5)) % 8 < 4 else 0) + 1},
        needed=('padding', 'plen'))


def read_packet_arith():
    """From read_packet's SSH-2 branch: accepted packets have check_size = 4+1+payload_length+padding_length
    = packet_length + 4, a multiple of the block size 8 (so the reader accepts exactly what send_packet emits)."""
    import z3
    return p2z.check_function(
        prop=PROP, ob='O4', name='read_packet-arith', module='ssh_socket', qualname='SSH_Socket.read_packet',
        sym_call={'self.read_int': 'packet_length_in', 'self.read_byte': 'padding_length_in'},
        consts={'sshv': 2, 'self.__block_size': 8},
        stop_at='check_size',
        post=lambda v: v['check_size'] == v['packet_length'] + 4,
        pre=lambda v: z3.And(v['packet_length_in'] >= 0, v['padding_length_in'] >= 0, v['padding_length_in'] <= 255),
        needed=('check_size', 'payload_length'))


# ------------------------------------------------------------------ task list
def _mp_bits(tier):
    if tier == 'quick':
        bs = set(range(0, 41)) | {47, 48, 49, 63, 64, 65, 71, 72, 95, 96, 97, 127, 128, 129}
    else:
        bs = set(range(0, 140))
        for k in (160, 192, 224, 256, 384, 512, 768, 1024, 1536, 2048):
            bs |= {k - 33, k - 32, k - 31, k - 9, k - 8, k - 7, k - 1, k, k + 1, k + 7, k + 8, k + 9, k + 31, k + 32, k + 33}
    return sorted(bs)


def tasks(tier):
    T = []
    T.append(Scalars('byte'))
    T.append(Scalars('bool'))
    T.append(Scalars('int'))
    for n in (range(0, 9) if tier == 'quick' else range(0, 33)):
        T.append(Scalars('string', n))
    for n in (range(0, 3) if tier == 'quick' else range(0, 5)):
        T.append(Scalars('text', n))
    shapes = [(0,), (1,), (2,), (1, 1), (0, 1), (1, 0), (0, 0), (1, 1, 1), (2, 1)]
    if tier != 'quick':
        shapes += [(2, 2), (1, 2, 1), (0, 1, 0), (3,)]
    for s in shapes:
        T.append(Scalars('list', s))
    for b in _mp_bits(tier):
        T.append(Mpint(2, b, +1))
        if b > 0:
            T.append(Mpint(2, b, -1))
        if b < (1 << 16):
            T.append(Mpint(1, b, +1))
    base = ((1,),) * 10
    kshapes = [base, ((),) * 10, ((1, 1), (1,), (1,), (2,), (1,), (1, 1), (1,), (1,), (), ())]
    for i in range(10):
        s = [(1,)] * 10
        s[i] = (1, 1)
        kshapes.append(tuple(s))
    if tier != 'quick':
        for i in range(10):
            s = [(1,)] * 10
            s[i] = (2, 1, 1)
            kshapes.append(tuple(s))
            s = [(1,)] * 10
            s[i] = ()
            kshapes.append(tuple(s))
    for s in kshapes:
        T.append(KexInit(s))
    for eb, mb in ([(0, 0), (1, 8), (17, 31), (17, 32), (17, 33), (6, 64)] if tier == 'quick' else
                   [(0, 0), (1, 8), (17, 31), (17, 32), (17, 33), (6, 64), (17, 127), (17, 128), (33, 129), (17, 512), (17, 1024)]):
        T.append(Pkm(eb, mb))
    for n in (list(range(1, 18)) + [31, 32, 33] if tier == 'quick' else range(1, 65)):
        T.append(Framing(n))
    for n in ((1, 9) if tier == 'quick' else (1, 4, 9, 20)):
        T.append(PartialSend(n))
    for n in ((1, 3, 4, 11) if tier == 'quick' else (1, 2, 3, 4, 5, 10, 11, 12, 19)):
        total = 16 if n <= 6 else (24 if n <= 14 else 32)
        for cut in range(1, total + 1):
            if tier == 'quick' and cut not in (4, 5, 5 + n - 1, 5 + n, 5 + n + 1, total - 1, total):
                continue
            T.append(FramingChunked(n, cut))
    for n in (0, 1):      # longer inputs are covered by the inductive step (a direct 2-byte query does not finish reliably)
        T.append(Crc(n))
    T.append(CrcStep())
    T.append(crc_fold_glue)
    for n in ((1, 2, 3, 4, 12) if tier == 'quick' else (1, 2, 3, 4, 5, 8, 11, 12, 13, 20)):     # 4, 12, 20: packet_length a multiple of 8 (eight padding bytes)
        T.append(Ssh1Packet(n))
    T.append(framing_unbounded)
    T.append(read_packet_arith)
    return T


def harness_by_name(name, params):
    cls = name.split(':')[1].split('-')[0]
    if cls in ('byte', 'bool', 'int', 'string', 'text', 'list'):
        n = params.get('n', 0)
        return Scalars(params['kind'], tuple(n) if isinstance(n, list) else n)
    if cls.startswith('mpint'):
        return Mpint(params['ver'], params['bits'], params['sign'])
    if cls == 'kexinit':
        return KexInit(tuple(tuple(s) for s in params['shape']))
    if cls == 'pkm':
        return Pkm(params['ebits'], params['mbits'])
    if name.split(':')[1].startswith('partial-send'):
        return PartialSend(params['n'])
    if name.split(':')[1].startswith('framing-chunked'):
        return FramingChunked(params['n'], params['cut'])
    if cls == 'framing':
        return Framing(params['n'])
    if name.endswith('crc-step-arbitrary-state'):
        return CrcStep()
    if cls == 'crc':
        return Crc(params['n'])
    if cls == 'ssh1pkt':
        return Ssh1Packet(params['n'])
    raise KeyError(name)


META = {
    'functions': ['WriteBuf.write_byte/bool/int/string/list/mpint1/mpint2/_create_mpint/_bitlength', 'ReadBuf.read_*/_parse_mpint',
                  'SSH2_Kex.write/payload/parse', 'SSH1_PublicKeyMessage.write/payload/parse', 'SSH_Socket.send_packet/read_packet/ensure_read/recv',
                  'SSH1_CRC32.__init__/calc'],
    'bounds': {
        'quick': 'byte strings 0..8 bytes; text 0..2 code points (all of Unicode); name-lists <=3 names of <=2 chars; mpint |n| of every bit '
                 'length 0..40 and around 48/64/72/96/128 (all values of that bit length); KEXINIT lists <=2 one-char names in each of the ten '
                 'fields; SSH-2 framing payload 0..17,31..33 bytes; CRC inputs 0..3 bytes; send_packet/read_packet arithmetic: unbounded (P2Z)',
        'thorough': 'byte strings 0..32; text 0..4; mpint every bit length 0..139 and +-1/8/32 around 160..2048; framing 0..64; CRC 0..8 bytes',
    },
    'outside': ['Python [] as input to write_list (the decoder represents the empty name-list as [\'\'])', 'names containing a comma',
                'non-canonical mpint inputs need not re-encode identically', 'mpint beyond the listed bit lengths'],
    'stubs': ['socket: ScriptSock delivers the emitted packet back in one chunk', 'struct/io/binascii: pure-Python models (validated per path)'],
    'assumptions': ['CPython int semantics modelled by signed bit-vectors of width bits+80 with overflow guards', 'z3 4.x/5.x soundness'],
    'engines': ['ZX', 'P2Z'],
}
