"""C13 - recommendations are consistent with the ratings shown in the same report."""
import zx
from zx import s_and, s_or, s_not, s_implies
from vf.harness import Harness, guarded, Exc
from props import outlib as OL
from props.c14 import sym_version, num_cmp

PROP = 'C13'
PREFIX = {'OpenSSH': '', 'Dropbear SSH': 'd', 'libssh': 'l1'}
BANNERS = {'OpenSSH': 'OpenSSH_', 'Dropbear SSH': 'dropbear_', 'libssh': 'libssh-', 'TinySSH': 'tinyssh_', 'RomSShell': 'RomSShell_', 'none': None}
SERVER_SETS = {
    'weak': {'kex': ['diffie-hellman-group1-sha1', 'diffie-hellman-group14-sha1', 'curve25519-sha256'], 'key': ['ssh-dss', 'ssh-ed25519'],
             'enc': ['3des-cbc', 'aes128-ctr', 'arcfour', 'rijndael-cbc@lysator.liu.se'], 'mac': ['hmac-md5', 'hmac-sha2-256']},
    'modern': {'kex': ['curve25519-sha256', 'curve25519-sha256@libssh.org', 'sntrup761x25519-sha512@openssh.com'], 'key': ['ssh-ed25519', 'rsa-sha2-512'],
               'enc': ['chacha20-poly1305@openssh.com', 'aes256-gcm@openssh.com'], 'mac': ['hmac-sha2-256-etm@openssh.com', 'umac-128-etm@openssh.com']},
    'gss': {'kex': ['gss-group1-sha1-toWM5Slw5Ew8Mqkay+al2g==', 'gss-gex-sha1-x', 'gss-group1-sha1-eipGX3TCiQSrx573bT1o1Q==', 'curve25519-sha256'], 'key': ['ssh-ed25519'], 'enc': ['aes128-ctr'], 'mac': ['hmac-sha2-256']},
    'strict-cbc': {'kex': ['curve25519-sha256', 'kex-strict-s-v00@openssh.com'], 'key': ['ssh-ed25519'], 'enc': ['chacha20-poly1305@openssh.com', 'aes128-cbc', 'aes128-ctr'],
                   'mac': ['hmac-sha1-etm@openssh.com', 'umac-64-etm@openssh.com', 'hmac-sha2-256-etm@openssh.com']},
    'none-both': {'kex': ['curve25519-sha256'], 'key': ['ssh-ed25519'], 'enc': ['none', 'aes128-ctr'], 'mac': ['none', 'hmac-sha2-256']},
    'pseudo': {'kex': ['curve25519-sha256', 'ext-info-s', 'kex-strict-s-v00@openssh.com'], 'key': ['ssh-ed25519', 'ssh-ed25519-cert-v01@openssh.com'], 'enc': ['aes128-ctr'],
               'mac': ['hmac-sha2-256']},
}


def available(row, product, ver):
    """independent oracle: is the algorithm available (server side) in `product` at symbolic version `ver`?  None if the row has no version info."""
    if len(row[0]) == 0 or row[0][0] is None:
        return None
    res = False
    pfx = PREFIX.get(product)
    for v in row[0][0].split(','):
        cli = v.endswith('C')
        if cli:
            v = v[:-1]
        if v.startswith('d'):
            p, num = 'Dropbear SSH', v[1:]
        elif v.startswith('l1'):
            p, num = 'libssh', v[2:]
        else:
            p, num = 'OpenSSH', v
        if not num or p != product or cli:
            continue
        lt, gt = num_cmp(ver, num)   # ver < num ?
        res = s_or(res, s_not(lt))
    return res


class Recs(Harness):
    prop, ob = PROP, 'O1'
    width = 64

    def __init__(self, product, vshape, sset, lead=None):
        self.product, self.vshape, self.sset, self.lead = product, tuple(vshape), sset, lead
        self.name = 'recs-%s-%s-%s%s' % (product.replace(' ', ''), 'x'.join(map(str, vshape)), sset, '' if lead is None else '-lead%s' % lead)
        self.cost = 10

    def params(self):
        return {'product': self.product, 'vshape': list(self.vshape), 'sset': self.sset, 'lead': self.lead}

    def inputs(self):
        v = sym_version('v', self.vshape)
        if self.lead is not None and zx.active():
            zx.cur().assume(v.startswith(self.lead))      # partition of the version space by leading digit (one task per digit)
        return {'ver': v, 'unk': zx.fresh_str('unk', 2, OL.NAMECH)}

    def run(self, M, inp):
        L = {c: list(v) for c, v in SERVER_SETS[self.sset].items()}
        L['enc'] = L['enc'] + [inp['unk']]
        b = BANNERS[self.product]
        sw = (b + inp['ver']) if b is not None else 'unrecognised_1.0'
        j = OL.run_output(M, L, json=True, sw=sw)
        if isinstance(j['ret'], Exc):
            return {'exc': j['ret']}
        d = j['doc']
        rec = d['recommendations']
        flat = [(lvl, act, c, e['name']) for lvl in rec for act in rec[lvl] for c in rec[lvl][act] for e in rec[lvl][act][c]]
        shown = {c: [(e['algorithm'], e['notes']) for e in d[c]] for c in OL.CATS}
        return self.more(M, L, sw, {'recs': flat, 'shown': shown})

    def more(self, M, L, sw, obs):
        return obs

    def check(self, inp, obs):
        if 'exc' in obs:
            yield 'no-exception', False
            return
        from vf.harness import mods
        master = mods()[1].ssh2_kexdb.SSH2_KexDB.MASTER_DB
        recs, shown = obs['recs'], obs['shown']
        recognised = self.product in ('OpenSSH', 'Dropbear SSH', 'libssh', 'TinySSH')
        adv = {c: [n for n, _ in shown[c]] for c in OL.CATS}
        notes = {c: {i: nt for i, (n, nt) in enumerate(shown[c])} for c in OL.CATS}

        def is_adv(c, name):
            return any(bool(a == name) for a in adv[c])

        def rated(c, name):
            for a, nt in shown[c]:
                if bool(a == name):
                    return bool(nt.get('fail')), bool(nt.get('warn'))
            return False, False
        # A: del/chg => advertised and rated fail/warn
        okA = True
        for lvl, act, c, name in recs:
            if act in ('del', 'chg'):
                f, w = rated(c, name)
                okA = okA and is_adv(c, name) and (f or w)
        yield 'removals-are-advertised-and-rated', okA
        # C: critical iff a failure
        okC = True
        for lvl, act, c, name in recs:
            if act in ('del', 'chg'):
                f, w = rated(c, name)
                okC = okC and ((lvl == 'critical') == f) and (lvl != 'informational')
        yield 'critical-iff-failure', okC
        # B: advertised, rated, known in the identified version => recommended for removal/change
        okB = True
        missing = []
        if self.product in PREFIX:
            for c in OL.CATS:
                for a, nt in shown[c]:
                    if not (nt.get('fail') or nt.get('warn')):
                        continue
                    if nt.get('fail') == ['using unknown algorithm']:
                        continue
                    key = a
                    if c == 'kex' and isinstance(a, str) and a.startswith('gss-'):
                        key = a[:a.rindex('-')] + '-*'
                    if not isinstance(key, str) or key not in master[c]:
                        continue
                    av = available(master[c][key], self.product, inp['ver'])
                    # rows without version information are treated as known in every version (the tool does so for every such row)
                    if av is not None and not bool(av):
                        continue
                    if not any(act in ('del', 'chg') and cc == c and bool(name == a) for _, act, cc, name in recs):
                        okB = False
                        missing.append(a)
        self._missing = missing
        yield 'rated-and-known-are-recommended-for-removal', okB
        # D: additions
        okD = True
        for lvl, act, c, name in recs:
            if act != 'add':
                continue
            row = master[c].get(name)
            cond = row is not None and not is_adv(c, name) and not (len(row) > 1 and row[1]) and not (len(row) > 2 and row[2])
            cond = cond and not (c == 'key' and ('-cert-' in name or name.startswith('sk-'))) and not (c == 'kex' and (name.startswith('ext-info-') or name.startswith('kex-strict-')))
            if cond and self.product in PREFIX:
                av = available(row, self.product, inp['ver'])
                cond = av is not None and bool(av)
            okD = okD and cond and lvl == 'informational'
        yield 'additions-are-clean-unadvertised-available', okD
        # G: the text report recommends exactly what the JSON report recommends (same action, category, name)
        jset = [(act, c, name) for _, act, c, name in recs]
        tset = obs.get('trecs')
        if tset is None:
            tset = jset

        def has(lst, item):
            return any(a == item[0] and c == item[1] and bool(n == item[2]) for a, c, n in lst)
        yield 'text-recommendations==json-recommendations', len(jset) == len(tset) and all(has(tset, x) for x in jset) and all(has(jset, x) for x in tset)
        # E: nothing both ways
        keys = [(c, name) for _, act, c, name in recs]
        dup = any(keys[i][0] == keys[j][0] and bool(keys[i][1] == keys[j][1]) for i in range(len(keys)) for j in range(i + 1, len(keys)))
        yield 'nothing-recommended-twice', not dup
        # F: unrecognised software gets no additions (no software: no recommendations at all)
        if not recognised:
            yield 'no-additions-for-unrecognised-software', not any(act == 'add' for _, act, _, _ in recs)
        if self.product == 'none':
            yield 'no-recommendations-without-software', recs == []

    def classify(self, inp, obs, label):
        if label == 'rated-and-known-are-recommended-for-removal':
            m = getattr(self, '_missing', None) or []
            if m and all(isinstance(x, str) and x.startswith('gss-') for x in m):
                return 'gss-key-exchange-rated-but-never-recommended-for-removal'
        return label


class RecsTextJson(Recs):
    """as Recs, without the symbolic unknown name, plus the TEXT report of the same peer: its '(rec)' lines recommend exactly what the JSON report does."""

    def __init__(self, product, vshape, sset, lead=None):
        Recs.__init__(self, product, vshape, sset, lead)
        self.name = 'recstext-' + self.name[len('recs-'):]

    def inputs(self):
        d = Recs.inputs(self)
        d['unk'] = 'zz-unknown'
        return d

    def more(self, M, L, sw, obs):
        # the text report of the same peer: its '(rec)' lines
        t = OL.run_output(M, L, sw=sw)
        if isinstance(t['ret'], Exc):
            return {'exc': t['ret']}
        trecs = []
        for ln in t['lines']:
            if OL._starts(ln, '(rec) '):
                body = ln[6:]
                sign = body[0]
                j2 = body.find('-- ')
                name = body[1:j2].rstrip(' ')      # (a name longer than the column is followed by the dashes directly)
                cat = body[j2 + 3:j2 + 6]
                trecs.append(({'-': 'del', '+': 'add', '!': 'chg'}.get(sign if isinstance(sign, str) else zx.shims.concretize_str(sign), '?'), cat if isinstance(cat, str) else zx.shims.concretize_str(cat), name))
        obs['trecs'] = trecs
        return obs


class Ssh1Recs(Harness):
    """SSH-1 report of a recognised server (all 128 cipher masks): every advertised cipher that the report rates with a failure or warning is recommended for
    removal, every removal names an advertised and so rated cipher, nothing is recommended both ways."""
    prop, ob = PROP, 'O1'
    width = 64
    name = 'ssh1-recs'
    enum_cap = 200

    def inputs(self):
        return {'mask': zx.fresh_int('mask', 0, 0x7F)}

    def run(self, M, inp):
        mask = inp['mask']
        mask = mask if isinstance(mask, int) else zx.cur().concretize(mask.e)
        pkm = M.ssh1_publickeymessage.SSH1_PublicKeyMessage(b'\x00' * 8, (768, 3, 5), (1024, 3, 7), 2, mask, 0x0C)
        r = OL.run_output(M, None, sw='OpenSSH_3.4p1', pkm=pkm, protocol=(1, 5))
        if isinstance(r['ret'], Exc):
            return {'exc': r['ret']}
        rated = [(h, l) for c, h, l, t in OL.parse_alg_lines(r['lines']) if c == 'enc']
        recs = []
        for ln in r['lines']:
            if OL._starts(ln, '(rec) '):
                body = ln[6:]
                recs.append((body[0], body[1:].split(' ')[0], 'enc algorithm' in body))
        return {'rated': rated, 'recs': recs, 'ciphers': list(pkm.supported_ciphers)}

    def check(self, inp, obs):
        if 'exc' in obs:
            yield 'no-exception', False
            return
        from vf.harness import mods
        db1 = mods()[1].ssh1_kexdb.SSH1_KexDB.MASTER_DB['enc']
        # rated, and known to the database as a server-side algorithm of the identified version (OpenSSH 3.4)
        bad = sorted(set(h for h, l in obs['rated'] if l in ('fail', 'warn') and h in db1 and available(db1[h], 'OpenSSH', '3.4') in (None, True)))
        dels = sorted(n for sign, n, enc in obs['recs'] if enc and sign in '-!')
        adds = sorted(n for sign, n, enc in obs['recs'] if enc and sign == '+')
        yield 'rated-ciphers-are-recommended-for-removal', all(b in dels for b in bad)
        yield 'removals-are-advertised-and-rated', all(d in bad for d in dels)
        yield 'additions-are-not-advertised', not any(a in obs['ciphers'] for a in adds)


class TwoServers(Harness):
    """two servers of the same product at two symbolic versions audited one after the other in one process: the second report's recommendations equal those
    of a fresh process (availability must depend on THIS server's version only)."""
    prop, ob = PROP, 'O3'
    width = 64

    def __init__(self, product, va, sb, lead=None, first_set='weak'):
        # first_set: the algorithm lists of the FIRST server (the second always offers the 'weak' set); with another set and a symbolic second version that may
        # equal the first one, two servers that identify as exactly the same software but are configured differently are covered
        self.product, self.va, self.sb, self.lead, self.first_set = product, va, tuple(sb), lead, first_set
        self.name = 'twoservers-%s-%s-then-%s%s%s' % (product.replace(' ', ''), va, 'x'.join(map(str, sb)), '' if lead is None else '-lead%s' % lead,
                                                      '' if first_set == 'weak' else '-first(%s)' % first_set)
        self.cost = 100

    def params(self):
        return {'product': self.product, 'va': self.va, 'sb': list(self.sb), 'lead': self.lead, 'first_set': self.first_set}

    def inputs(self):
        # the first server's version is concrete (an old and a new release), the second one symbolic
        vb = sym_version('b', self.sb)
        if self.lead is not None and zx.active():
            zx.cur().assume(vb.startswith(self.lead))
        return {'va': self.va, 'vb': vb}

    def recs(self, M, ver, which='weak'):
        L = {c: list(v) for c, v in SERVER_SETS[which].items()}
        j = OL.run_output(M, L, json=True, sw=BANNERS[self.product] + ver)
        if isinstance(j['ret'], Exc):
            return j['ret']
        rec = j['doc']['recommendations']
        return sorted((lvl, act, c, e['name']) for lvl in rec for act in rec[lvl] for c in rec[lvl][act] for e in rec[lvl][act][c])

    def run(self, M, inp):
        from vf.harness import fresh_process_state
        fresh_process_state(M)
        alone = self.recs(M, inp['vb'])
        fresh_process_state(M)
        first = self.recs(M, inp['va'], self.first_set)
        second = self.recs(M, inp['vb'])
        return {'alone': alone, 'second': second, 'first_ok': not isinstance(first, Exc)}

    def check(self, inp, obs):
        yield 'no-exception', not isinstance(obs['alone'], Exc) and not isinstance(obs['second'], Exc) and obs['first_ok']
        if isinstance(obs['alone'], Exc) or isinstance(obs['second'], Exc):
            return
        yield 'second-server-same-as-fresh-process', obs['alone'] == obs['second']


def max_warn_count():
    """TAB: 'critical iff failure' relies on fewer than 10 warnings per row (points = 10*fails + warns)"""
    import time
    from vf.harness import mods
    t0 = time.time()
    MP = mods()[1]
    res = {'harness': 'C13/O2:fewer-than-10-warnings-per-row', 'ob': 'C13/O2', 'params': {}, 'status': 'ok', 'violations': [], 'paths': 0, 'decisions': 0,
           'queries': 0, 'solver_time_s': 0.0, 'xval': 0, 'replayed': 0, 'asserts': 0, 'sample': None, 'error': None}
    worst = 0
    for c, rows in MP.ssh2_kexdb.SSH2_KexDB.MASTER_DB.items():
        for n, r in rows.items():
            res['paths'] += 1
            res['asserts'] += 1
            w = len(r[2]) if len(r) > 2 else 0
            worst = max(worst, w)
            if w >= 9:   # leaves room for the one or two notes a scan may append (Terrapin, 2048-bit)
                res['violations'].append({'ob': 'C13/O2', 'harness': res['harness'], 'label': 'warn-count', 'class': n, 'params': {},
                                          'witness': {'inputs': {'row': n}, 'observation': {'warnings': w}}})
                res['replayed'] += 1
    res['decisions'] = res['paths']
    res['sample'] = {'inputs': {'rows': res['paths']}, 'observation': {'max_warnings': worst}}
    res['note'] = 'finite exhaustive over the current table'
    res['wall_s'] = round(time.time() - t0, 3)
    return res


def tasks(tier):
    q = tier == 'quick'
    T = []
    shapes = {'OpenSSH': [(1, 1), (2, 1)] if q else [(1, 1), (2, 1), (1, 2), (1, 1, 1)], 'Dropbear SSH': [(4, 2), (1, 2)] if q else [(4, 2), (1, 2), (4, 3)],
              'libssh': [(1, 1, 1)] if q else [(1, 1, 1), (1, 2, 1)], 'TinySSH': [(4,)], 'RomSShell': [(1, 1)], 'none': [(1,)]}
    for prod, shs in shapes.items():
        for sh in shs:
            for ss in (SERVER_SETS if (prod in ('OpenSSH', 'Dropbear SSH') or not q) else ['weak']):
                if q and prod == 'Dropbear SSH' and ss not in ('weak', 'gss', 'none-both'):
                    continue
                if prod == 'OpenSSH' and sh == (1, 1):
                    for lead in '123456789':      # leading digit 0 is covered by the libssh/Dropbear shapes; OpenSSH 0.x does not exist
                        T.append(Recs(prod, sh, ss, lead))
                    T.append(Recs(prod, sh, ss, '0'))
                else:
                    T.append(Recs(prod, sh, ss))
    for prod, sh, ss, lead in [('Dropbear SSH', (4, 2), 'none-both', None), ('Dropbear SSH', (4, 2), 'weak', None), ('OpenSSH', (1, 1), 'none-both', '9'), ('OpenSSH', (1, 1), 'weak', '7'),
                               ('libssh', (1, 1, 1), 'weak', None)]:
        T.append(RecsTextJson(prod, sh, ss, lead))
    for prod, va, sb in [('OpenSSH', '10.0', (1, 1)), ('OpenSSH', '3.9', (1, 1)), ('OpenSSH', '5.3', (2, 1)), ('Dropbear SSH', '0.52', (4, 2)), ('libssh', '0.10.6', (1, 1, 1))]:
        if prod == 'OpenSSH' and sb == (1, 1):
            for lead in '0123456789':
                T.append(TwoServers(prod, va, sb, lead))
        else:
            T.append(TwoServers(prod, va, sb))
    # same product, possibly the very same version, different configuration
    T.append(TwoServers('OpenSSH', '8.4', (1, 1), '8', 'modern'))
    T.append(TwoServers('Dropbear SSH', '2020.81', (4, 2), '2020', 'gss'))
    T.append(Ssh1Recs())
    T.append(max_warn_count)
    return T


def harness_by_name(name, params):
    if name.split(':')[1].startswith('ssh1-recs'):
        return Ssh1Recs()
    if name.split(':')[1].startswith('twoservers'):
        return TwoServers(params['product'], params['va'], params['sb'], params.get('lead'), params.get('first_set', 'weak'))
    if name.split(':')[1].startswith('recstext'):
        return RecsTextJson(params['product'], params['vshape'], params['sset'], params.get('lead'))
    return Recs(params['product'], params['vshape'], params['sset'], params.get('lead'))


META = {
    'functions': ['Algorithms.get_recommendations', 'get_algorithm_recommendations', 'output()', 'build_struct', 'Software.parse/compare_version', 'post_process_findings'],
    'bounds': {'quick': 'four advertised server sets (weak, modern, gss, pseudo/cert) + one symbolic unknown 2-char cipher; banners of OpenSSH (d.d, dd.d), Dropbear (dddd.dd, d.dd), '
                        'libssh (d.d.d), TinySSH, an unrecognised product and no software, all digit values; the whole current rating table is traversed by the real pass',
               'thorough': 'more version shapes, every set for every product'},
    'outside': ['client-side recommendations (for_server=False is not used by the tool)', 'rows without version information count as always known (tool behaviour, not required by the oracle)'],
    'stubs': ['json.dumps: capturing stub'],
    'assumptions': ['version order: C14', 'ratings shown == table rows: C03'],
}
