"""C11 - host-key sizes, CA details and fingerprints are measured and rated correctly."""
import base64
import hashlib
import zx
from zx import s_and, s_or, s_not, s_implies
from vf.harness import Harness, guarded, Exc
from vf.symutil import sym_size
from vf import auditenv as AE, p2z
from props import outlib as OL
from props.c09 import FakeSockRW
from props.c06 import make_kex

PROP = 'C11'
S = AE.sshstr
W2K = '2048-bit modulus only provides 112-bits of symmetric strength'
WECC = '224-bit ECC modulus only provides 112-bits of symmetric strength'


def mp_bytes(nbytes, name):
    """symbolic big-endian integer field of nbytes bytes (content arbitrary)"""
    return zx.fresh_bytes(name, nbytes)


def ca_blob(kind, calen):
    """public key blob of the signing CA: (type, expected ca_n_len as recorded before adjustment)"""
    if kind == 'ssh-rsa':
        return S(b'ssh-rsa') + S(mp_bytes(3, 'cae')) + S(mp_bytes(calen, 'can')), calen
    if kind == 'ssh-ed25519':
        return S(b'ssh-ed25519') + S(mp_bytes(32, 'capk')), 32
    if kind.startswith('ecdsa-sha2-nistp'):
        curve = kind[len('ecdsa-sha2-'):].encode()
        # uncompressed point: 0x04 || X || Y
        return S(kind.encode()) + S(curve) + S(b'\x04' + mp_bytes(2 * calen, 'capt')), calen
    raise ValueError(kind)


def cert_tail(ca):
    return (zx.fresh_bytes('serial', 8) + AE.u32(2) + S(zx.fresh_bytes('kid', 2)) + S(zx.fresh_bytes('princ', 3)) + zx.fresh_bytes('va', 8) + zx.fresh_bytes('vb', 8)
            + S(b'') + S(zx.fresh_bytes('ext', 1)) + S(b'') + S(ca) + S(zx.fresh_bytes('sig', 4)))


class Extract(Harness):
    """KexDH.recv_reply on a well-formed KEXDH_REPLY: recorded key size, CA type and CA size equal the presented lengths/types; the returned blob is
    the presented host-key field byte for byte."""
    prop, ob = PROP, 'O1'
    width = 64

    def __init__(self, layout, nlen, ca=None, calen=0):
        self.layout, self.nlen, self.ca, self.calen = layout, nlen, ca, calen
        self.name = 'extract-%s-n%d-ca(%s,%d)' % (layout, nlen, ca or 'none', calen)

    def params(self):
        return {'layout': self.layout, 'nlen': self.nlen, 'ca': self.ca, 'calen': self.calen}

    def inputs(self):
        lay = self.layout
        exp_ca_len = 0
        if lay == 'ssh-rsa':
            blob = S(b'ssh-rsa') + S(mp_bytes(3, 'e')) + S(mp_bytes(self.nlen, 'n'))
        elif lay == 'ssh-ed25519':
            blob = S(b'ssh-ed25519') + S(mp_bytes(32, 'pk'))
        elif lay == 'ssh-rsa-cert':
            ca, exp_ca_len = ca_blob(self.ca, self.calen)
            blob = S(b'ssh-rsa-cert-v01@openssh.com') + S(zx.fresh_bytes('nonce', 4)) + S(mp_bytes(3, 'e')) + S(mp_bytes(self.nlen, 'n')) + cert_tail(ca)
        elif lay == 'ssh-ed25519-cert':
            ca, exp_ca_len = ca_blob(self.ca, self.calen)
            blob = S(b'ssh-ed25519-cert-v01@openssh.com') + S(zx.fresh_bytes('nonce', 4)) + S(mp_bytes(32, 'pk')) + cert_tail(ca)
        elif lay.startswith('ecdsa-nistp') and lay.endswith('-cert'):
            # RFC 5656 / PROTOCOL.certkeys: type, nonce, curve name, Q (0x04 || X || Y), then the common certificate fields
            curve = lay[len('ecdsa-'):-len('-cert')]
            ca, exp_ca_len = ca_blob(self.ca, self.calen)
            blob = (S(('ecdsa-sha2-%s-cert-v01@openssh.com' % curve).encode()) + S(zx.fresh_bytes('nonce', 4)) + S(curve.encode()) + S(b'\x04' + mp_bytes(2 * self.nlen, 'q'))
                    + cert_tail(ca))
        elif lay.startswith('ecdsa-nistp'):
            curve = lay[len('ecdsa-'):]
            blob = S(('ecdsa-sha2-%s' % curve).encode()) + S(curve.encode()) + S(b'\x04' + mp_bytes(2 * self.nlen, 'q'))
        else:
            raise ValueError(lay)
        return {'blob': blob, 'f': zx.fresh_bytes('f', 5), 'sig': zx.fresh_bytes('s', 6), 'exp_ca_len': exp_ca_len}

    def run(self, M, inp):
        payload = S(inp['blob']) + S(inp['f']) + S(inp['sig'])
        out = M.outputbuffer.OutputBuffer()
        k = M.kexdh.KexDH(out, 'x', 'sha256', 0, 0)
        r = guarded(k.recv_reply, FakeSockRW([(31, payload)]), True)
        if isinstance(r, Exc):
            return {'exc': r}
        return {'blob': r, 'type': k.get_hostkey_type(), 'size': k.get_hostkey_size(), 'ca_type': k.get_ca_type(), 'ca_size': k.get_ca_size()}

    @staticmethod
    def adjust(nbytes):
        bits = nbytes * 8
        return bits - 8 if nbytes % 2 else bits

    def check(self, inp, obs):
        if 'exc' in obs:
            yield 'no-exception', False
            return
        yield 'blob-returned-unchanged', obs['blob'] == inp['blob']
        n = 32 if 'ed25519' in self.layout else self.nlen
        if self.layout.startswith('ecdsa-'):
            # the size of an ECDSA key is the size of its curve (a coordinate of n bytes: 256, 384, 521 bits)
            yield 'key-size', obs['size'] == {32: 256, 48: 384, 66: 521}[self.nlen]
        else:
            yield 'key-size', obs['size'] == self.adjust(n)
        if self.ca:
            yield 'ca-type', obs['ca_type'] == self.ca
            yield 'ca-size', obs['ca_size'] == (521 if self.ca == 'ecdsa-sha2-nistp521' else self.adjust(inp['exp_ca_len']))
        else:
            yield 'no-ca', obs['ca_type'] == '' and obs['ca_size'] == 0
        # on the property's 64-bit grid (modulus = b/8 + 1 bytes with a leading zero) the reported size is b
        if self.layout.startswith('ssh-rsa') and (self.nlen - 1) % 8 == 0:
            yield 'grid-size', obs['size'] == (self.nlen - 1) * 8


class ProbeSequence(Harness):
    """real perform_test + ONE real key-exchange object (as HostKeyTest.run creates it) probing several host-key types in a row with well-formed replies:
    what is recorded for each type comes from that type's reply only (no CA or size carried over from the previous probe)."""
    prop, ob = PROP, 'O1'
    width = 64

    def __init__(self, kexname, order):
        self.kexname, self.order = kexname, tuple(order)
        self.name = 'probesequence-%s-%s' % (kexname, '+'.join(o.split('@')[0] for o in order))

    def params(self):
        return {'kexname': self.kexname, 'order': list(self.order)}

    def blob(self, kt, tag):
        if kt == 'ssh-rsa-cert-v01@openssh.com':
            ca, _ = ca_blob('ssh-rsa', 513)
            return S(kt.encode()) + S(zx.fresh_bytes('nonce' + tag, 4)) + S(mp_bytes(3, 'e' + tag)) + S(mp_bytes(385, 'n' + tag)) + cert_tail(ca)
        if kt == 'ssh-ed25519-cert-v01@openssh.com':
            ca, _ = ca_blob('ecdsa-sha2-nistp256', 32)
            return S(kt.encode()) + S(zx.fresh_bytes('nonce' + tag, 4)) + S(mp_bytes(32, 'pk' + tag)) + cert_tail(ca)
        if kt == 'ssh-ed25519':
            return S(b'ssh-ed25519') + S(mp_bytes(32, 'pk' + tag))
        if kt == 'ssh-rsa':
            return S(b'ssh-rsa') + S(mp_bytes(3, 'e' + tag)) + S(mp_bytes(257, 'n' + tag))
        raise ValueError(kt)

    EXPECT = {'ssh-rsa-cert-v01@openssh.com': (3072, 'ssh-rsa', 4096), 'ssh-ed25519-cert-v01@openssh.com': (256, 'ecdsa-sha2-nistp256', 256),
              'ssh-ed25519': (256, '', 0), 'ssh-rsa': (2048, '', 0)}

    def inputs(self):
        return {'blobs': {kt: self.blob(kt, str(i)) for i, kt in enumerate(self.order)}}

    def run(self, M, inp):
        OL.fresh_tables(M)
        out = M.outputbuffer.OutputBuffer()
        kex = make_kex(M, {'key': list(self.order)})
        probe_order = [kt for kt in M.hostkeytest.HostKeyTest.HOST_KEY_TYPES if kt in self.order]
        replies = [(31, S(inp['blobs'][kt]) + S(b'f') + S(b'sig')) for kt in probe_order]

        class Sock(StubSock):
            def read_packet(self_, sshv=2):
                if self_.kexinits and len(self_.log) and self_.log[-1] == 'kexinit-read':
                    self_.log.append('reply')
                    return replies.pop(0) if replies else (-1, b'')
                self_.log.append('kexinit-read')
                return StubSock.read_packet(self_, sshv)

            def write_byte(self_, v): return self_
            def write_string(self_, v): return self_
            def write_mpint2(self_, v): return self_
            def write_int(self_, v): return self_
            def send_packet(self_): return (0, None)
        cls = {'curve25519': M.kexdh.KexCurve25519_SHA256, 'nistp256': M.kexdh.KexNISTP256, 'group14': M.kexdh.KexGroup14_SHA256}[self.kexname]
        grp = cls(out)
        r = guarded(M.hostkeytest.HostKeyTest.perform_test, out, Sock(), kex, 'x', grp, M.hostkeytest.HostKeyTest.HOST_KEY_TYPES)
        if isinstance(r, Exc):
            return {'exc': r}
        hk = kex.host_keys()
        return {'recorded': {k: [v['hostkey_size'], v['ca_key_type'], v['ca_key_size']] for k, v in hk.items()}}

    def check(self, inp, obs):
        if 'exc' in obs:
            yield 'no-exception', False
            return
        rec = obs['recorded']
        ok = True
        for kt in self.order:
            exp = list(self.EXPECT[kt])
            ok = ok and kt in rec and rec[kt] == exp
        yield 'each-type-recorded-from-its-own-reply', ok


def adjust_unbounded():
    """P2Z: KexDH.__adjust_key_size for EVERY byte length m >= 0: result = 8m - (8 if m odd else 0); for a modulus of b bits with b % 16 == 0 encoded as an
    mpint with leading zero (m = b/8 + 1) the result is exactly b."""
    import z3
    return p2z.check_function(
        prop=PROP, ob='O2', name='adjust_key_size-arith', module='kexdh', qualname='KexDH.__adjust_key_size',
        consts={}, sym_call={}, sym_len={},
        pre=lambda v: z3.And(v['size_in'] >= 0),
        post=lambda v: z3.And(v['size'] == 8 * v['size_in'] - z3.If(v['size_in'] % 2 == 1, 8, 0),
                              z3.Implies(z3.And((v['size_in'] - 1) % 2 == 0, v['size_in'] >= 1), v['size'] == 8 * (v['size_in'] - 1))),
        needed=('size',), entry={'size': 'size_in'},
        validate=lambda m: {'size_in': m, 'size': (8 * m - 8) if m % 2 else 8 * m})


class StubKexGroup:
    """the key-exchange object seen by HostKeyTest.perform_test: every call succeeds and reports the harness's values"""

    def __init__(self, hk_size, ca_type, ca_size, blob=b'BLOB'):
        self.v = (hk_size, ca_type, ca_size)
        self.blob = blob
        self.inits = 0

    def send_init(self, s): self.inits += 1
    def recv_reply(self, s): return self.blob
    def get_hostkey_size(self): return self.v[0]
    def get_ca_type(self): return self.v[1]
    def get_ca_size(self): return self.v[2]


class StubSock:
    def __init__(self):
        self.connected = False
        self.connects = 0
        self.closes = 0
        self.kexinits = []
        self.log = []

    def is_connected(self): return self.connected

    def connect(self):
        self.connects += 1
        self.connected = True
        self.log.append('connect')
        return None

    def get_banner(self): return (None, [], None)
    def send_kexinit(self, **kw): self.kexinits.append(kw.get('hostkeys'))
    def read_packet(self, sshv=2): return (20, AE.kexinit_payload(['curve25519-sha256'], ['ssh-ed25519'], ['aes128-ctr'], ['hmac-sha2-256'])[1:])

    def close(self):
        self.closes += 1
        self.connected = False
        self.log.append('close')


class Thresholds(Harness):
    """HostKeyTest.perform_test with arbitrary measured sizes: RSA-family / RSA-CA keys < 2048 fail, 2048..3071 warn, >= 3072 no size note; every member of the
    RSA family gets the same notes; the rating never gets worse as the key grows."""
    prop, ob = PROP, 'O3'
    width = 64

    def __init__(self, keytypes, ca_type, nd, ndca):
        self.keytypes, self.ca_type, self.nd, self.ndca = tuple(keytypes), ca_type, nd, ndca
        self.name = 'thresholds-%s-ca(%s)-d%d-%d' % ('+'.join(keytypes), ca_type or 'none', nd, ndca)

    def params(self):
        return {'keytypes': list(self.keytypes), 'ca_type': self.ca_type, 'nd': self.nd, 'ndca': self.ndca}

    def inputs(self):
        return {'size': sym_size('sz', self.nd), 'ca_size': sym_size('ca', self.ndca) if self.ndca else 0}

    def run(self, M, inp):
        db, _ = OL.fresh_tables(M)
        import copy
        before = copy.deepcopy(M.ssh2_kexdb.SSH2_KexDB.MASTER_DB['key'])
        kex = make_kex(M, {'key': list(self.keytypes)})
        out = M.outputbuffer.OutputBuffer()
        sock = StubSock()
        grp = StubKexGroup(inp['size'], self.ca_type, inp['ca_size'])
        r = guarded(M.hostkeytest.HostKeyTest.perform_test, out, sock, kex, 'curve25519-sha256', grp, M.hostkeytest.HostKeyTest.HOST_KEY_TYPES)
        if isinstance(r, Exc):
            return {'exc': r}
        added = {}
        for name, row in db['key'].items():
            b = before[name]
            f = (row[1] if len(row) > 1 else [])[len(b[1]) if len(b) > 1 else 0:]
            w = (row[2] if len(row) > 2 else [])[len(b[2]) if len(b) > 2 else 0:]
            if f or w:
                added[name] = (list(f), list(w))
        hk = kex.host_keys()
        master_changed = M.ssh2_kexdb.SSH2_KexDB.MASTER_DB['key'] != before
        return {'master_changed': master_changed, 'added': added, 'recorded': {k: [v['hostkey_size'], v['ca_key_type'], v['ca_key_size']] for k, v in hk.items()}, 'connects': sock.connects,
                'closes': sock.closes, 'log': sock.log, 'probed': sock.kexinits}

    def expected_notes(self, kt, size, ca_size):
        """independent spec of the size notes for host-key type kt"""
        cert = '-cert-' in kt
        # RSA thresholds (2048/3072) apply to RSA/DSA-style moduli only; Edwards and NIST curve keys use the elliptic-curve thresholds (224/256)
        ecc = kt.startswith('ssh-ed25519') or kt.startswith('ssh-ed448') or kt.startswith('ecdsa-sha2-nistp')
        good, warn, wtxt = (256, 224, WECC) if ecc else (3072, 2048, W2K)
        ca_ecc = self.ca_type.startswith('ssh-ed25519') or self.ca_type.startswith('ssh-ed448') or self.ca_type.startswith('ecdsa-sha2-nistp')
        cgood, cwarn, cwtxt = (256, 224, WECC) if ca_ecc else (3072, 2048, W2K)
        f, w = [], []
        sz = size
        if bool(s_or(sz > 0, ca_size > 0)):
            if not cert and kt != 'ssh-dss':
                if bool(sz < warn):
                    f.append(('small-key', sz))
                elif bool(sz < good):
                    w.append(wtxt)
            elif cert:
                if bool(sz < warn):
                    f.append(('small-hostkey', sz))
                elif bool(sz < good):
                    w.append(wtxt)
                if bool(s_and(ca_size > 0, ca_size < cwarn)):
                    f.append(('small-ca', ca_size))
                elif bool(s_and(ca_size > 0, ca_size < cgood)) and cwtxt not in w:
                    w.append(cwtxt)
            if self.ca_type.startswith('ecdsa-sha2-nistp'):
                f.append(('nist-ca', None))
        return f, w

    def check(self, inp, obs):
        if 'exc' in obs:
            yield 'no-exception', False
            return
        from vf.harness import mods
        MP = mods()[1]
        RSA = list(MP.hostkeytest.HostKeyTest.RSA_FAMILY)
        size, ca_size = inp['size'], inp['ca_size']
        added = obs['added']
        # which types are probed: each advertised type of the probe table, the RSA family once
        probed_types = []
        fam_done = False
        for kt in MP.hostkeytest.HostKeyTest.HOST_KEY_TYPES:
            if kt in self.keytypes:
                if kt in RSA:
                    if fam_done:
                        continue
                    fam_done = True
                probed_types.append(kt)
        yield 'one-connection-per-probed-type', obs['connects'] == len(probed_types) and obs['closes'] >= obs['connects']
        ok = True
        detail = []
        for kt in probed_types:
            f, w = self.expected_notes(kt, size, ca_size)
            targets = RSA if kt in RSA else [kt]
            for t in targets:
                gf, gw = added.get(t, ([], []))
                same_w = gw == w
                same_f = len(gf) == len(f)
                if same_f:
                    for g, e in zip(gf, f):
                        kind, val = e
                        if kind == 'small-key':
                            same_f = same_f and bool(g == 'using small ' + zx.shims.z_str(val) + '-bit modulus')
                        elif kind == 'small-hostkey':
                            same_f = same_f and bool(g == 'using small ' + zx.shims.z_str(val) + '-bit hostkey modulus')
                        elif kind == 'small-ca':
                            same_f = same_f and bool(g == 'using small ' + zx.shims.z_str(val) + '-bit CA key modulus')
                        else:
                            same_f = same_f and isinstance(g, str) and 'backdoored' in g
                ok = ok and same_w and same_f
        others = [t for t in added if not any(t == kt or (kt in RSA and t in RSA) for kt in probed_types)]
        yield 'size-notes==thresholds', ok
        yield 'no-other-row-touched', others == []
        # the notes go into this scan's copy of the table: the master table (what the next scan starts from) stays as it was
        yield 'master-table-untouched', not obs['master_changed']
        rec = obs['recorded']
        okr = all((t in rec and bool(rec[t][0] == size)) for kt in probed_types for t in (RSA if kt in RSA and '-cert-' not in kt else [kt]))
        yield 'recorded-sizes', okr


class Reporting(Harness):
    """output_algorithm / build_struct: '(N-bit)' and '(N-bit cert/M-bit T CA)' suffixes and JSON keysize/casize/ca_algorithm equal the recorded values."""
    prop, ob = PROP, 'O4'
    width = 64

    def __init__(self, kt, ca_type):
        self.kt, self.ca_type = kt, ca_type
        self.name = 'reporting-%s-ca(%s)' % (kt, ca_type or 'none')

    def params(self):
        return {'kt': self.kt, 'ca_type': self.ca_type}

    def inputs(self):
        return {'size': sym_size('sz', 4), 'ca_size': sym_size('ca', 4) if self.ca_type else 0}

    def run(self, M, inp):
        L = {c: ['x'] for c in OL.CATS}
        L['key'] = [self.kt]
        hk = {self.kt: (inp['size'], self.ca_type, inp['ca_size'])}
        t = OL.run_output(M, L, host_keys=hk)
        j = OL.run_output(M, L, host_keys=hk, json=True)
        if isinstance(t['ret'], Exc) or isinstance(j['ret'], Exc):
            return {'exc': t['ret'] if isinstance(t['ret'], Exc) else j['ret']}
        heads = OL.first_lines_per_cat(t['lines'])['key']
        e = j['doc']['key'][0]
        return {'head': heads[0] if heads else None, 'json': {k: e.get(k) for k in ('keysize', 'casize', 'ca_algorithm')}}

    def check(self, inp, obs):
        if 'exc' in obs:
            yield 'no-exception', False
            return
        sz, ca = inp['size'], inp['ca_size']
        szs = zx.shims.z_str(sz)
        rsa = self.kt in ('ssh-rsa', 'rsa-sha2-256', 'rsa-sha2-512')
        ca_disp = 'RSA' if self.ca_type in ('ssh-rsa', 'rsa-sha2-256', 'rsa-sha2-512') else self.ca_type
        if self.ca_type and not isinstance(ca, int):
            with_ca = self.kt + ' (' + szs + '-bit cert/' + zx.shims.z_str(ca) + '-bit ' + ca_disp + ' CA)'
            yield 'text-suffix', s_or(s_and(ca > 0, obs['head'] == with_ca), s_and(ca == 0, obs['head'] == (self.kt + ' (' + szs + '-bit)' if rsa else self.kt)))
            yield 'json-ca', s_or(s_and(ca > 0, obs['json']['casize'] == ca, obs['json']['ca_algorithm'] == self.ca_type), s_and(ca == 0, obs['json']['casize'] is None))
        elif rsa:
            yield 'text-suffix', obs['head'] == self.kt + ' (' + szs + '-bit)'
        else:
            yield 'text-suffix', obs['head'] == self.kt
        # wherever the text report shows the measured host-key size, the JSON entry carries it as well
        if rsa:
            yield 'json-keysize', obs['json']['keysize'] == sz
        elif self.ca_type:
            yield 'json-keysize', s_implies(ca > 0, obs['json']['keysize'] == sz)


class Fingerprints(Harness):
    """output_fingerprints / JSON: one entry for the whole RSA family, none for certificate types, values == standard SHA256/MD5 fingerprints of the blob."""
    prop, ob = PROP, 'O5'
    width = 64

    def __init__(self, types):
        self.types = tuple(types)
        self.name = 'fingerprints-' + '+'.join(types)

    def params(self):
        return {'types': list(self.types)}

    def inputs(self):
        return {'verbose': zx.fresh_bool('v')}

    def run(self, M, inp):
        L = {c: ['x'] for c in OL.CATS}
        L['key'] = list(self.types)
        hk = {t: (2048, '', 0) for t in self.types}
        kexes = []
        res = {}
        for json_ in (False, True):
            OL.fresh_tables(M)
            aconf = M.auditconf.AuditConf('h', 22)
            aconf.json = json_
            out = M.outputbuffer.OutputBuffer()
            out.use_colors = False
            out.verbose = bool(inp['verbose'])
            kex = make_kex(M, L)
            # recorded in the order in which the probe records them (HostKeyTest.perform_test walks its own table: the RSA family first - under all three
            # family names, whether or not the server advertises each of them - then the certificate and the other types)
            fam = ('ssh-rsa', 'rsa-sha2-256', 'rsa-sha2-512')
            if any(t in fam for t in self.types):
                for t in fam:
                    kex.set_host_key(t, b'BLOB-RSA', 2048, '', 0)
            table = list(M.hostkeytest.HostKeyTest.HOST_KEY_TYPES)
            for t in sorted((t for t in self.types if t not in fam), key=lambda t_: table.index(t_) if t_ in table else len(table)):
                kex.set_host_key(t, ('BLOB-' + t).encode(), 2048, '', 0)
            cj = OL.CaptureJson()
            with AE.patched(M.ssh_audit, json=cj):
                r = guarded(M.ssh_audit.output, out, aconf, M.banner.Banner((2, 0), 'x', None, True), [], None, kex)
            if isinstance(r, Exc):
                return {'exc': r}
            if json_:
                res['json'] = [(e['hostkey'], e['hash_alg'], e['hash']) for e in cj.docs[-1][0]['fingerprints']]
            else:
                res['text'] = [ln for ln in out.buffer if ln.startswith('(fin) ')]
        return res

    def check(self, inp, obs):
        if 'exc' in obs:
            yield 'no-exception', False
            return
        RSA = ('ssh-rsa', 'rsa-sha2-256', 'rsa-sha2-512')
        exp = {}
        for t in self.types:
            if '-cert-' in t:
                continue
            if t in RSA:
                exp['ssh-rsa'] = b'BLOB-RSA'
            else:
                exp[t] = ('BLOB-' + t).encode()
        sha = lambda b: base64.b64encode(hashlib.sha256(b).digest()).decode().rstrip('=')
        md5 = lambda b: ':'.join('%02x' % x for x in hashlib.md5(b).digest())
        want_json = []
        for t in sorted(exp):
            want_json += [(t, 'SHA256', sha(exp[t])), (t, 'MD5', md5(exp[t]))]
        yield 'json-fingerprints', obs['json'] == want_json
        v = bool(inp['verbose'])
        want_text = []
        for t in sorted(exp):
            weak = t.startswith('ecdsa-') or t == 'ssh-dss'
            if weak and not v:
                continue
            want_text.append('(fin) %s: SHA256:%s' % (t, sha(exp[t])))
            if v:
                want_text.append('(fin) %s: MD5:%s' % (t, md5(exp[t])))
        got = [ln.split(' -- ')[0] for ln in obs['text']]
        yield 'text-fingerprints', got == want_text


class TruncatedBlob(Harness):
    """a KEX reply whose RSA modulus field DECLARES more bytes than the blob holds (declared length symbolic, up to 2^32-1; only 16 bytes present): the probe must
    not report the declared size - the reply is malformed (KexDHException) or, at most, the size of the bytes actually presented is recorded."""
    prop, ob = PROP, 'O1'
    width = 64

    def __init__(self, where):
        self.where = where
        self.name = 'truncatedblob-%s' % where

    def params(self):
        return {'where': self.where}

    def inputs(self):
        d = zx.fresh_int('declared', 17, 0xFFFFFFFF)
        return {'declared': d}

    def run(self, M, inp):
        n16 = b'\x00\x80' + b'\x00' * 13 + b'\x01'
        dl = inp['declared']
        lenfield = AE.u32(dl) if isinstance(dl, int) else zx.shims.z_bytes([(dl >> 24) & 0xFF, (dl >> 16) & 0xFF, (dl >> 8) & 0xFF, dl & 0xFF])
        if self.where == 'modulus':
            blob = S(b'ssh-rsa') + S(b'\x01\x00\x01') + lenfield + n16
        else:   # the host-key field of the reply itself declares more than the packet holds
            blob = None
        if blob is not None:
            payload = S(blob) + S(b'f' * 5) + S(b'sig')
        else:
            inner = S(b'ssh-rsa') + S(b'\x01\x00\x01') + S(n16)
            payload = lenfield + inner
        out = M.outputbuffer.OutputBuffer()
        k = M.kexdh.KexDH(out, 'x', 'sha256', 0, 0)
        r = guarded(k.recv_reply, FakeSockRW([(31, payload)]), True)
        if isinstance(r, Exc):
            return {'exc': r}
        return {'size': k.get_hostkey_size()}

    def check(self, inp, obs):
        if 'exc' in obs:
            yield 'only-KexDHException', obs['exc'].type == 'KexDHException'
            return
        yield 'declared-but-absent-bytes-are-not-reported-as-key-size', obs['size'] <= 128


class AuditHostKey(Harness):
    """the whole real audit() of a server whose host-key probe is answered with a well-formed reply carrying an RSA key of b bits (first connection: KEXINIT with a
    symbolic unknown cipher riding along; probe connection: banner, KEXINIT, KEX reply): the JSON document reports b as the key size for the advertised RSA names,
    one ssh-rsa fingerprint pair equal to the standard fingerprints of the presented blob, and the threshold notes for b."""
    prop, ob = PROP, 'O3'
    width = 64

    def __init__(self, bits, names, first_fails=None):
        # first_fails: the probe with the first RSA name gets no usable answer (connection closed / a packet of another type); the family's next advertised
        # name is then probed and answers - the presented key is measured and reported all the same
        self.bits, self.names, self.first_fails = bits, tuple(names), first_fails
        self.name = 'audithostkey-%d-%s%s' % (bits, '+'.join(names), ('-first-' + first_fails) if first_fails else '')

    def params(self):
        return {'bits': self.bits, 'names': list(self.names), 'first_fails': self.first_fails}

    def inputs(self):
        return {'unk': zx.fresh_str('unk', 2, ((0x61, 0x7A),))}

    def blob(self):
        S = AE.sshstr
        n = b'\x00' + b'\x80' + b'\x00' * (self.bits // 8 - 2) + b'\x01'
        return S(b'ssh-rsa') + S(b'\x01\x00\x01') + S(n)

    def run(self, M, inp):
        from props.c09 import BANNER
        S = AE.sshstr
        if zx.active():
            zx.cur().stdout = []
        pk = AE.frame(AE.kexinit_payload(['curve25519-sha256'], list(self.names), ['aes128-ctr', inp['unk']], ['hmac-sha2-256']))
        reply = AE.frame(bytes([31]) + S(self.blob()) + S(b'\x05' * 32) + S(b'sig'))
        conns = [AE.Conn([BANNER, pk])] + [AE.Conn([BANNER, pk, reply]) for _ in range(4)]
        if self.first_fails == 'closed':
            conns.insert(1, AE.Conn([BANNER, pk], 'close'))
        elif self.first_fails == 'other-packet':
            conns.insert(1, AE.Conn([BANNER, pk, AE.frame(bytes([1]) + AE.u32(2) + S(b'bye') + S(b''))], 'close'))
        cj = OL.CaptureJson()
        with AE.patched(M.ssh_audit, json=cj):
            r = AE.run_audit(M, conns, json=True)
        if isinstance(r['ret'], Exc) or not cj.docs:
            return {'exc': r['ret'] if isinstance(r['ret'], Exc) else Exc('NoJson', 'no document')}
        d = cj.docs[-1][0]
        return {'keys': [(e['algorithm'], e.get('keysize'), e['notes'].get('fail', []), e['notes'].get('warn', [])) for e in d['key']],
                'fps': [(e['hostkey'], e['hash_alg'], e['hash']) for e in d['fingerprints']], 'nconn': len(r['net'].made)}

    def check(self, inp, obs):
        if 'exc' in obs:
            yield 'no-exception', False
            return
        b = self.bits
        yield 'one-probe-for-the-whole-rsa-family', obs['nconn'] == (3 if self.first_fails else 2)
        yield 'key-size-reported-for-every-advertised-rsa-name', [(a, sz) for a, sz, _, _ in obs['keys']] == [(n, b) for n in self.names]
        small = 'using small %d-bit modulus' % b
        for a, sz, f, w in obs['keys']:
            if b < 2048:
                yield 'failure-below-2048', small in f
            elif b < 3072:
                yield 'warning-2048..3071', small not in f and W2K in w
            else:
                yield 'no-size-note-from-3072', small not in f and W2K not in w
        blob = self.blob()
        sha = base64.b64encode(hashlib.sha256(blob).digest()).decode().rstrip('=')
        md5 = ':'.join('%02x' % x for x in hashlib.md5(blob).digest())
        yield 'one-fingerprint-pair-for-the-family==standard-fingerprints-of-the-blob', obs['fps'] == [('ssh-rsa', 'SHA256', sha), ('ssh-rsa', 'MD5', md5)]


def tasks(tier):
    q = tier == 'quick'
    T = []
    # thorough: the property's grid - every RSA modulus size from 512 to 16384 bits in steps of 64 (n = bits/8 + 1 bytes with the leading zero) - plus moduli
    # without a leading zero byte and two odd lengths off the grid
    nls = [65, 129, 257, 385, 513, 1793, 2049] if q else sorted(set(list(range(65, 2050, 8)) + list(range(64, 2049, 64)) + [97, 258, 1027]))
    for n in nls:
        T.append(Extract('ssh-rsa', n))
    T.append(Extract('ssh-ed25519', 32))
    for ca, calens in (('ssh-rsa', [129, 257, 513, 2049] if q else list(range(65, 1026, 32)) + [128, 256, 2049]), ('ssh-ed25519', [32]),
                       ('ecdsa-sha2-nistp256', [32]), ('ecdsa-sha2-nistp384', [48]), ('ecdsa-sha2-nistp521', [66])):
        for cl in calens:
            T.append(Extract('ssh-rsa-cert', 257, ca, cl))
            T.append(Extract('ssh-ed25519-cert', 32, ca, cl))
    for curve, n in (('nistp256', 32), ('nistp384', 48), ('nistp521', 66)):
        T.append(Extract('ecdsa-' + curve, n))
        for ca, cl in ((('ssh-ed25519', 32), ('ecdsa-sha2-' + curve, n)) if q else (('ssh-rsa', 513), ('ssh-ed25519', 32), ('ecdsa-sha2-nistp256', 32), ('ecdsa-sha2-' + curve, n))):
            T.append(Extract('ecdsa-' + curve + '-cert', n, ca, cl))
    if not q:
        for n in list(range(65, 1026, 64)) + [2049]:
            T.append(Extract('ssh-rsa-cert', n, 'ssh-rsa', 257))
    for kexname in ('curve25519', 'nistp256', 'group14'):
        for order in (('ssh-rsa-cert-v01@openssh.com', 'ssh-ed25519'), ('ssh-ed25519-cert-v01@openssh.com', 'ssh-ed25519', 'ssh-rsa'), ('ssh-rsa', 'ssh-ed25519-cert-v01@openssh.com')):
            T.append(ProbeSequence(kexname, order))
    T.append(adjust_unbounded)
    fam = ['ssh-rsa', 'rsa-sha2-256', 'rsa-sha2-512']
    for kts in ([('ssh-rsa',), ('rsa-sha2-512', 'ssh-rsa'), tuple(fam), ('rsa-sha2-256',), ('ssh-ed25519',), ('ssh-rsa', 'ssh-ed25519'), ('ssh-ed448',), ('ecdsa-sha2-nistp384',)] if q else
                [('ssh-rsa',), ('rsa-sha2-256',), ('rsa-sha2-512',), ('rsa-sha2-512', 'ssh-rsa'), ('ssh-rsa', 'rsa-sha2-256'), tuple(fam), tuple(reversed(fam)),
                 ('ssh-ed25519',), ('ssh-rsa', 'ssh-ed25519'), ('ecdsa-sha2-nistp256',), ('ssh-dss',), ('ssh-ed448',), ('ecdsa-sha2-nistp384',), ('ecdsa-sha2-nistp521', 'ssh-ed448')]):
        for nd in ((3, 4) if q else (1, 3, 4, 5)):
            T.append(Thresholds(kts, '', nd, 0))
    for kt in ('ssh-rsa-cert-v01@openssh.com', 'ssh-ed25519-cert-v01@openssh.com', 'rsa-sha2-512-cert-v01@openssh.com'):
        for ca in ('ssh-rsa', 'ssh-ed25519', 'ecdsa-sha2-nistp256'):
            for nd, ndca in ([(4, 4), (3, 3)] if q else [(4, 4), (3, 3), (4, 3), (3, 4), (4, 1)]):
                T.append(Thresholds((kt,), ca, nd, ndca))
    for kt, ca in [('ssh-rsa', ''), ('rsa-sha2-512', ''), ('ssh-ed25519', ''), ('ssh-rsa-cert-v01@openssh.com', 'ssh-rsa'), ('rsa-sha2-512-cert-v01@openssh.com', 'ssh-rsa'), ('rsa-sha2-256-cert-v01@openssh.com', 'ssh-ed25519'), ('ssh-rsa-cert-v01@openssh.com', 'ssh-ed25519'),
                   ('ssh-ed25519-cert-v01@openssh.com', 'ssh-rsa'), ('ssh-ed25519-cert-v01@openssh.com', 'ecdsa-sha2-nistp256')]:
        T.append(Reporting(kt, ca))
    T.append(TruncatedBlob('modulus'))
    T.append(TruncatedBlob('hostkey-field'))
    for bits in ((1024, 2048, 3072, 16384) if q else (1024, 1536, 2048, 3008, 3072, 4096, 8192, 14336, 16384)):
        for names in ((('ssh-rsa',), ('rsa-sha2-512', 'rsa-sha2-256', 'ssh-rsa')) if q else (('ssh-rsa',), ('rsa-sha2-256',), ('rsa-sha2-512', 'rsa-sha2-256', 'ssh-rsa'), ('ssh-rsa', 'rsa-sha2-512'))):
            T.append(AuditHostKey(bits, names))
    for bits in ((2048,) if q else (1024, 2048, 3072)):
        for ff in ('closed', 'other-packet'):
            T.append(AuditHostKey(bits, ('rsa-sha2-512', 'rsa-sha2-256', 'ssh-rsa'), ff))
            T.append(AuditHostKey(bits, ('ssh-rsa', 'rsa-sha2-512'), ff))
    for types in [('ssh-rsa',), ('rsa-sha2-512',), ('rsa-sha2-256', 'ssh-ed25519'), ('rsa-sha2-512', 'rsa-sha2-256', 'ssh-rsa'), ('ssh-ed25519', 'ssh-rsa'), ('ssh-ed25519-cert-v01@openssh.com', 'ssh-ed25519'),
                  ('ecdsa-sha2-nistp256', 'ssh-dss', 'ssh-ed25519'), ('rsa-sha2-256', 'ssh-rsa-cert-v01@openssh.com')]:
        T.append(Fingerprints(types))
    return T


def harness_by_name(name, params):
    if name.split(':')[1].startswith('truncatedblob'):
        return TruncatedBlob(params['where'])
    if name.split(':')[1].startswith('audithostkey'):
        return AuditHostKey(params['bits'], params['names'], params.get('first_fails'))
    k = name.split(':')[1].split('-')[0]
    p = params
    if k == 'extract':
        return Extract(p['layout'], p['nlen'], p['ca'], p['calen'])
    if k == 'probesequence':
        return ProbeSequence(p['kexname'], p['order'])
    if k == 'thresholds':
        return Thresholds(p['keytypes'], p['ca_type'], p['nd'], p['ndca'])
    if k == 'reporting':
        return Reporting(p['kt'], p['ca_type'])
    if k == 'fingerprints':
        return Fingerprints(p['types'])
    raise KeyError(name)


META = {
    'functions': ['KexDH.recv_reply/__parse_ca_key/__get_bytes/__adjust_key_size/get_*', 'HostKeyTest.perform_test', 'output_algorithm', 'build_struct', 'output_fingerprints', 'Fingerprint'],
    'bounds': {'quick': 'well-formed replies with ALL field contents symbolic: ssh-rsa moduli of 65..513 bytes, Ed25519, RSA/Ed25519 certificates signed by RSA (129..513-byte '
                        'moduli), Ed25519 and ECDSA P-256/384/521 CAs; __adjust_key_size for every byte length (P2Z, unbounded); thresholds with measured sizes = all '
                        'integers of 3..4 decimal digits, every RSA-family subset/order tested, certificate types x 3 CA kinds; suffix/JSON reporting with 4-digit sizes; '
                        'fingerprint entry rules for 6 host-key sets with symbolic verbose flag',
               'thorough': 'moduli up to 2049 bytes, sizes of 1..5 digits, more family orders'},
    'outside': ['moduli off the 8-bit grid (the tool\'s "-8 if odd byte count" heuristic is exact only on the grid)', 'P-521 is reported as 528 bits (8x66), the tool\'s convention',
                'hash functions (hashlib) are trusted: fingerprints are checked on concrete blobs'],
    'stubs': ['socket/key-exchange object of perform_test: StubSock/StubKexGroup (every call succeeds, sizes symbolic)', 'read_packet of recv_reply: scripted'],
    'assumptions': ['int(x/2) on lengths < 2**53 is exact (guarded)'],
    'engines': ['ZX', 'P2Z'],
}
