#!/bin/sh
# Builds /verif/.venv: overlay on /venv (repo deps) + crosshair-tool and z3-solver from the offline wheelhouse.
set -e
cd "$(dirname "$0")"
if [ -x .venv/bin/python ] && .venv/bin/python -c "import z3" 2>/dev/null; then
  exit 0
fi
rm -rf .venv
/venv/bin/python -m venv .venv
echo "import site; site.addsitedir('/venv/lib/python3.12/site-packages')" > .venv/lib/python3.12/site-packages/_overlay.pth
PIP_NO_INDEX=1 .venv/bin/pip install -q --no-index --find-links /opt/veriftools/wheels z3-solver crosshair-tool
.venv/bin/python -c "import z3, crosshair; print('venv ok', z3.get_version_string(), crosshair.__version__)"
